#!/bin/bash
# MANIFEST.setup_cmd: full offline build of the Coq development (full .vo, no -vos).
set -e
cd "$(dirname "$0")"
rm -rf coq/Cases
cd coq
./mkproject.sh
timeout 3000 make -j16
