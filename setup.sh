#!/bin/bash
# MANIFEST.setup_cmd: full offline build of the Coq development (full .vo, no -vos).
set -e
cd "$(dirname "$0")"
rm -rf coq/Cases
cd coq
./mkproject.sh
# -k: one broken file must not stop the others; each check rebuilds and audits its own cone and reports a broken build itself
timeout 3000 make -k -j16 || echo "setup: some Coq files did not build (the affected checks will report it)"
