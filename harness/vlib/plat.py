"""Helpers that build real Platypus objects for the drivers."""
import math
from platypus import Problem, Solution, Direction, Real


def mk_problem(nobjs, maxdirs=None, nconstrs=0, nvars=1, constraints=None):
    p = Problem(nvars, nobjs, nconstrs)
    p.types[:] = Real(0, 1)
    if maxdirs is not None:
        for i, mx in enumerate(maxdirs):
            p.directions[i] = Direction.MAXIMIZE if mx else Direction.MINIMIZE
    if constraints is not None:
        p.constraints[:] = constraints
    return p


def mk_solution(problem, objs, cv=0.0, variables=None, constraints=None):
    s = Solution(problem)
    s.objectives[:] = list(objs)
    if variables is not None:
        s.variables[:] = list(variables)
    else:
        s.variables[:] = [0.5] * problem.nvars
    if constraints is not None:
        s.constraints[:] = list(constraints)
    elif problem.nconstrs:
        s.constraints[:] = [cv] + [0.0] * (problem.nconstrs - 1)
    s.constraint_violation = cv
    s.feasible = cv == 0.0
    s.evaluated = True
    return s


def adj(v, mx):
    return -v if mx else v


def nextafter_pool(xs):
    out = []
    for x in xs:
        out += [math.nextafter(x, -math.inf), x, math.nextafter(x, math.inf)]
    return out


_STICKY = [None, None]


def mk_problem_sticky(nobjs, maxdirs=None, nconstrs=0, nvars=1):
    """Like mk_problem, but when the previous call had the same shape the SAME Problem object is returned with its
    directions re-declared in place (problem.directions[i] = ...), with no other problem created in between.  Library
    components that share default-argument comparator instances (Archive(), nondominated(), nondominated_sort) then
    see one problem object whose directions change, which exposes stale per-problem caches."""
    key = (nobjs, nconstrs, nvars)
    if _STICKY[0] == key:
        p = _STICKY[1]
        for i in range(nobjs):
            mx = bool(maxdirs[i]) if maxdirs is not None else False
            p.directions[i] = Direction.MAXIMIZE if mx else Direction.MINIMIZE
        return p
    p = mk_problem(nobjs, maxdirs, nconstrs, nvars)
    _STICKY[0], _STICKY[1] = key, p
    return p


def parse_num(text):
    """inverse of repr() for the numbers the drivers use as objective values: Python ints (exact, may exceed 2**53),
    fractions.Fraction and floats"""
    from fractions import Fraction
    t = str(text)
    if t.startswith("Fraction("):
        a, b = t[len("Fraction("):-1].split(",")
        return Fraction(int(a), int(b))
    try:
        return int(t)
    except ValueError:
        return float(t)
