"""Trace validation of real algorithm runs (C01, C07).

Everything here instruments Platypus from OUTSIDE (monkey-patching at run time,
no source hooks):
  * Algorithm.evaluate_all is wrapped to snapshot every batch before/after,
  * Solution.__deepcopy__ is wrapped to record which object was copied from which,
  * the run callback logs, at every step boundary, everything the algorithm exposes,
  * the USER function (or the evaluate() of a user subclass) logs every argument
    vector it receives.
The module also contains the algorithm registry, the small test problems with
their RAW functions, the scripted-extreme random primitives, the Coq literal
printers for traces, and the two independent oracles (the property statements
evaluated directly on the real objects).
"""
import copy
import math
import pickle
import random
import signal
import threading
import time
import traceback
from fractions import Fraction

from vlib import common as C

EXPOSED_ATTRS = ("result", "population", "archive", "particles", "leaders", "local_best", "fittest")

ALGORITHMS = ("GA", "ES", "NSGAII", "NSGAIII", "EpsMOEA", "EpsNSGAII", "GDE3", "SPEA2", "MOEAD", "IBEA",
              "PAES", "PESA2", "OMOPSO", "SMPSO", "CMAES")
REAL_ONLY = ("GDE3", "OMOPSO", "SMPSO", "CMAES")          # arithmetic on the variables
MIN_ONLY = ("NSGAIII", "MOEAD")                            # constructor raises PlatypusError for MAXIMIZE
SINGLE_OBJ = ("GA", "ES")
MUTATOR_ALGS = ("ES", "PAES", "SMPSO")                     # take a Mutation (arity 1) where others take a variator
KINDS = ("real", "integer", "binary", "perm", "subset", "binint", "realtiny", "intpow2", "scaled", "realwide")
REAL_KINDS = ("real", "realtiny", "real6", "scaled", "realwide")     # real6: only in the particle-swarm stress runs

# ----------------------------------------------------------------------------
# user problems: RAW functions (pure, deterministic) and declared constraints
# ----------------------------------------------------------------------------
CONS_DECL = {   # "cmp" style: only == <= >= != (exact, shipped to Coq); "strict": < > and a callable (oracle only)
    "real": ["<=0", ">=0.5"],
    "realtiny": ["<=0", ">=0.5"],
    "real6": ["<=0", ">=0.5"],
    "scaled": ["<=0", ">=0.5"],
    "realwide": ["<=0", ">=0.5"],
    "intpow2": ["<=0", "!=3"],
    "integer": ["<=0", "!=2"],
    "binary": ["<=0", ">=1"],
    "binint": ["<=0", ">=1"],
    "perm": ["<=0", "==8"],
    "subset": ["<=0", ">=50"],
}
STRICT_DECL = ["<0.5", ">-1"]


def raw_real(x):
    o = [x[0] * x[0] + 0.5 * x[1], (x[0] - 1.0) ** 2 + x[1] * x[1]]
    c = [math.floor(x[0] * 8) / 8 - 0.25, math.floor(x[1] * 4) / 4]
    return o, c


def raw_realtiny(x):
    # legal but very narrow ranges (1e-15, 2e-16 wide): every move of an operator is far below EPSILON
    o = [x[0] * 1e15 + x[1] * 1e16, (x[0] * 1e15 - 0.5) ** 2 + abs(x[1]) * 1e16]
    c = [math.floor(x[0] * 8e15) / 8 - 0.25, math.floor(x[1] * 4e16) / 4]
    return o, c


def raw_real6(x):
    # ZDT1-like front over six variables: many mutually non-dominated solutions, so bounded leader archives truncate
    f1 = x[0] + 0.05 * sum((v - 0.3) ** 2 for v in x[1:])
    g = 1.0 + 9.0 * sum(x[1:]) / (len(x) - 1)
    f2 = g * (1.0 - math.sqrt(x[0] / g))
    c = [math.floor((x[0] + x[1]) * 8) / 8 - 1.5, math.floor(x[2] * 4) / 4]
    return [f1, f2], c


def raw_scaled(x):
    # b in [0,1] (plain Real), a in [0,1] (stored internally as a*1024), c in [-8,8] (stored internally as c/8)
    b, a, c = x
    o = [(a - 0.3) * (a - 0.3) + b + 0.125 * abs(c), (a - 0.7) * (a - 0.7) + (1.0 - b) * (1.0 - b) + (c * 0.125 - 0.5) * (c * 0.125 - 0.5)]
    k = [math.floor(a * 8) / 8 - 0.25, math.floor(c) / 4]
    return o, k


def raw_realwide(x):
    # very wide but finite bounds (1e200 ... DBL_MAX) next to an ordinary variable; no pow (OverflowError), products only
    u, v, m, t, w = x
    o = [abs(u) * 1e-200 + abs(m) * 1e-309 + w, abs(v) * 1e-308 + abs(t) * 1e-308 + (1.0 - w) * (1.0 - w)]
    k = [(0.0 if w != w else math.floor(w * 8) / 8) - 0.25, 0.75 if u > 0 else 0.25]
    return o, k


def raw_intpow2(x):
    o = [(x[0] - 3) ** 2 + abs(x[1]) + x[2], abs(x[0] - 6) + (x[1] + 2) ** 2 - x[2]]
    c = [x[0] + x[1] - 6, x[2]]
    return o, c


def raw_integer(x):
    o = [(x[0] - 1) ** 2 + x[1], abs(x[0]) + (x[1] - 3) ** 2]
    c = [x[0] + x[1] - 3, x[1]]
    return o, c


def raw_binary(x):
    a, b = x
    o = [sum(a) + 0.5 * sum(b), sum(1 for i, v in enumerate(a) if v and i % 2 == 0) - sum(b) + 0.25 * len(a)]
    c = [sum(a) - 3, sum(b)]
    return o, c


def raw_binint(x):
    a, n = x
    o = [sum(a) + 0.5 * n, (n - 2) ** 2 - sum(a)]
    c = [sum(a) - 2, n]
    return o, c


def raw_perm(x):
    p, q = x
    o = [sum(i * v for i, v in enumerate(p)) + q[0], sum(abs(v - i) for i, v in enumerate(p)) - 0.5 * q[-1]]
    c = [p[0] - 2, q[0]]
    return o, c


def raw_subset(x):
    s, t = x
    o = [sum(s) + min(t), sum(v * v for v in s) - max(t)]
    c = [min(s) - 1, sum(t)]
    return o, c


RAW = {"scaled": raw_scaled, "realwide": raw_realwide, "real": raw_real, "realtiny": raw_realtiny, "real6": raw_real6, "intpow2": raw_intpow2, "integer": raw_integer, "binary": raw_binary, "binint": raw_binint,
       "perm": raw_perm, "subset": raw_subset}


def raw_eval(kind, nobjs, ncons, x):
    """the user's function: decoded variables -> (objectives, constraint values)"""
    o, c = RAW[kind](x)
    return o[:nobjs], c[:ncons]


def make_types(kind):
    from platypus import Real, Integer, Binary, Permutation, Subset
    return {
        "real": lambda: [Real(-1, 2), Real(0, 1)],
        "realtiny": lambda: [Real(0.0, 1e-15), Real(-1e-16, 1e-16)],
        "real6": lambda: [Real(0.0, 1.0) for _ in range(6)],
        # a user-defined type with its own encoding (plain Real first, so the library picks its Real defaults)
        "scaled": lambda: [Real(0.0, 1.0), ScaledReal(0.0, 1024.0, 10), ScaledReal(-1.0, 1.0, -3)],
        # very wide but finite bounds, including those whose WIDTH max-min overflows (+-1.7e308, +-DBL_MAX)
        "realwide": lambda: [Real(-1e200, 1e200), Real(-1.7e308, 1.7e308), Real(-1.7976931348623157e308, 1.7976931348623157e308),
                             Real(-8e307, 8e307), Real(0.0, 1.0)],
        # ranges whose number of values is a power of two: every code of nbits bits is used
        "intpow2": lambda: [Integer(0, 7), Integer(-8, 7), Integer(3, 4)],
        "integer": lambda: [Integer(-3, 5), Integer(0, 6)],
        "binary": lambda: [Binary(5), Binary(3)],
        "binint": lambda: [Binary(4), Integer(0, 6)],
        "perm": lambda: [Permutation(range(4)), Permutation([7, 8, 9])],
        "subset": lambda: [Subset(range(6), 3), Subset([10, 20, 30, 40], 2)],
    }[kind]()


# every call of the user function made in THIS process (threads included) lands here
_CALLS = []
_CALLS_LOCK = threading.Lock()


def _freeze(v):
    if isinstance(v, (list, tuple)):
        return tuple(_freeze(x) for x in v)
    return v


def _log_call(args, out):
    with _CALLS_LOCK:
        _CALLS.append((_freeze(list(args)), out))


class LoggedFunction:
    """The user's problem function (picklable): logs the argument vector it receives, then computes."""

    def __init__(self, kind, nobjs, ncons):
        self.kind, self.nobjs, self.ncons = kind, nobjs, ncons

    def __call__(self, variables):
        args = list(variables)
        try:
            o, c = raw_eval(self.kind, self.nobjs, self.ncons, args)
        except Exception:
            _log_call(args, None)          # the argument vector is logged even if the user code cannot digest it
            raise
        _log_call(args, (tuple(o), tuple(c)))
        if self.ncons > 0:
            return o, c
        return o


from platypus import Problem as _Problem   # the check runs with PYTHONPATH = the repository under test
from platypus import Real as _Real


class ScaledReal(_Real):
    """A USER-DEFINED variable type (the Type interface rand/encode/decode is public API): a real value v stored
    internally as v * 2**k (exact in binary floating point).  min_value/max_value bound the INTERNAL representation,
    which is what the Real operators work on; the problem function must receive the decoded value e / 2**k."""

    def __init__(self, min_internal, max_internal, k):
        super().__init__(min_internal, max_internal)
        self.k = k

    def encode(self, value):
        return value * 2.0 ** self.k

    def decode(self, value):
        return value / 2.0 ** self.k

    def decoded_bounds(self):
        return self.min_value / 2.0 ** self.k, self.max_value / 2.0 ** self.k

    def __str__(self):
        return "ScaledReal(%f, %f, %d)" % (self.min_value, self.max_value, self.k)


class SubProblem(_Problem):
    """A user problem written as a subclass overriding evaluate() (picklable: module level)."""

    def __init__(self, nvars, nobjs, ncons, kind):
        super().__init__(nvars, nobjs, ncons)
        self.kind = kind

    def evaluate(self, solution):
        args = list(solution.variables[:])
        try:
            o, c = raw_eval(self.kind, self.nobjs, self.nconstrs, args)
        except Exception:
            _log_call(args, None)
            raise
        _log_call(args, (tuple(o), tuple(c)))
        solution.objectives[:] = o
        solution.constraints[:] = c


def strict_callable(x):
    """a constraint given as a function: feasible iff it returns 0 (negative when violated: abs() matters)"""
    return 0 if x <= 0.25 else -2 * x


def make_problem(cfg):
    from platypus import Problem, Direction
    kind = cfg["kind"]
    nobjs = 1 if cfg["alg"] in SINGLE_OBJ else 2
    if cfg["alg"] == "CMAES" and cfg.get("cma_single"):
        nobjs = 1
    style = cfg.get("cons", "none")
    ncons = 0 if style == "none" else 2
    types = make_types(kind)
    if cfg.get("subclass"):
        p = SubProblem(len(types), nobjs, ncons, kind)
    else:
        p = Problem(len(types), nobjs, ncons, function=LoggedFunction(kind, nobjs, ncons))
    p.types[:] = types
    if cfg.get("maximize"):
        p.directions[:] = [Direction.MAXIMIZE] + [Direction.MINIMIZE if cfg.get("maximize") == "mixed" else Direction.MAXIMIZE] * (nobjs - 1)
    if style == "cmp":
        p.constraints[:] = CONS_DECL[kind]
    elif style == "strict":
        from platypus import Constraint
        p.constraints[:] = [STRICT_DECL[0], Constraint(strict_callable)]
    return p


def cons_decl(cfg):
    style = cfg.get("cons", "none")
    if style == "cmp":
        return list(CONS_DECL[cfg["kind"]])
    if style == "strict":
        return [STRICT_DECL[0], "callable"]
    return []


# ----------------------------------------------------------------------------
# independent semantics of declared constraints (oracle side; written from the
# documentation of platypus.core.Constraint, not from its code)
# ----------------------------------------------------------------------------
def parse_decl(d):
    for op in ("==", "<=", ">=", "!=", "<", ">"):
        if d.startswith(op):
            return op, float(d[len(op):])
    raise ValueError(d)


def decl_violation(d, x):
    """magnitude of violation of one declared constraint at constraint value x"""
    if d == "callable":
        return abs(strict_callable(x))
    op, y = parse_decl(d)
    if op == "==":
        return abs(x - y)
    if op == "<=":
        return 0 if x <= y else abs(x - y)
    if op == ">=":
        return 0 if x >= y else abs(x - y)
    if op == "!=":
        return 0 if x != y else 1
    if op == "<":
        return 0 if x < y else abs(x - y) + 0.0001
    if op == ">":
        return 0 if x > y else abs(x - y) + 0.0001


def decl_violation_exact(d, x):
    op, y = parse_decl(d)
    x, y = Fraction(x), Fraction(y)
    if op == "==":
        return abs(x - y)
    if op == "<=":
        return Fraction(0) if x <= y else abs(x - y)
    if op == ">=":
        return Fraction(0) if x >= y else abs(x - y)
    if op == "!=":
        return Fraction(0) if x != y else Fraction(1)
    raise ValueError(op)


# ----------------------------------------------------------------------------
# independent domain predicate (C07 oracle), from the declared types only
# ----------------------------------------------------------------------------
def in_domain(types, args):
    from platypus import Real, Integer, Binary, Permutation, Subset
    if len(args) != len(types):
        return "wrong number of variables: %d for %d types" % (len(args), len(types))
    for i, (t, v) in enumerate(zip(types, args)):
        if isinstance(t, Real):
            lo, hi = t.decoded_bounds() if isinstance(t, ScaledReal) else (t.min_value, t.max_value)
            if isinstance(v, bool) or not isinstance(v, (int, float)):
                return "variable %d: %r is not a number" % (i, v)
            if v != v:
                return "variable %d is NaN" % i
            if not (lo <= v <= hi):
                return "variable %d = %r outside [%r, %r]%s" % (i, v, lo, hi, " (the decoded bounds of %s)" % t if isinstance(t, ScaledReal) else "")
        elif isinstance(t, Integer):
            if isinstance(v, bool) or not isinstance(v, int):
                return "variable %d: %r is not an int" % (i, v)
            if not (t.min_value <= v <= t.max_value):
                return "variable %d = %r outside [%d, %d]" % (i, v, t.min_value, t.max_value)
        elif isinstance(t, Binary):
            if not isinstance(v, (list, tuple)) or len(v) != t.nbits or not all(isinstance(b, bool) for b in v):
                return "variable %d: %r is not a list of %d booleans" % (i, v, t.nbits)
        elif isinstance(t, Permutation):
            if not isinstance(v, (list, tuple)) or sorted(v, key=repr) != sorted(t.elements, key=repr):
                return "variable %d: %r is not a permutation of %r" % (i, v, t.elements)
        elif isinstance(t, Subset):
            if (not isinstance(v, (list, tuple)) or len(v) != t.size or len(set(v)) != len(v)
                    or any(e not in t.elements for e in v)):
                return "variable %d: %r is not a duplicate-free subset of size %d of %r" % (i, v, t.size, t.elements)
        else:
            return "unknown type %r" % (t,)
    return None


def encoded_in_domain(types, variables):
    """the same for ENCODED variables (Integer = bit list of nbits)"""
    from platypus import Integer
    dec = []
    for t, v in zip(types, variables):
        if isinstance(t, Integer):
            if not isinstance(v, (list, tuple)) or len(v) != t.nbits or not all(isinstance(b, bool) for b in v):
                return "encoded Integer %r is not a list of %d booleans" % (v, t.nbits)
            dec.append(t.min_value)
        elif isinstance(t, ScaledReal):
            if isinstance(v, bool) or not isinstance(v, (int, float)) or v != v or not (t.min_value <= v <= t.max_value):
                return "internal value %r of %s outside [%r, %r]" % (v, t, t.min_value, t.max_value)
            dec.append(t.decode(v))
        else:
            dec.append(v)
    return in_domain(types, dec)


# ----------------------------------------------------------------------------
# scripted extreme draws at the PRIMITIVE level
# ----------------------------------------------------------------------------
EXTREME_FLOATS = (0.0, 2.0 ** -53, 1.0 - 2.0 ** -53)


class ScriptedRandom:
    """Replaces the hidden generator's random() and getrandbits(): with probability p an extreme
    outcome (0.0, 2^-53, 1-2^-53; all-zero / all-one words), else a draw of a private seeded
    generator.  uniform/randrange/choice/shuffle/sample/gauss are CPython's own, so only reachable
    values are produced."""

    def __init__(self, seed, p):
        self.src = random.Random(seed)
        self.p = p
        self.n_extreme = 0

    def random(self):
        if self.src.random() < self.p:
            self.n_extreme += 1
            return self.src.choice(EXTREME_FLOATS)
        return self.src.random()

    def getrandbits(self, k):
        if self.src.random() < self.p:
            self.n_extreme += 1
            return 0 if self.src.random() < 0.5 else (1 << k) - 1
        return self.src.getrandbits(k)

    def install(self):
        inst = random._inst
        self.saved = (random.random, random.getrandbits)
        inst.random = self.random
        inst.getrandbits = self.getrandbits
        inst.gauss_next = None
        random.random = self.random
        random.getrandbits = self.getrandbits

    def uninstall(self):
        inst = random._inst
        for name in ("random", "getrandbits"):
            if name in inst.__dict__:
                delattr(inst, name)
        random.random, random.getrandbits = self.saved
        inst.gauss_next = None


# ----------------------------------------------------------------------------
# evaluators
# ----------------------------------------------------------------------------
def copying_map(func, jobs):
    """a map-like function that behaves like a worker pool: every job is pickled, the COPY is run
    and the copy is returned (job order kept)"""
    return [func(pickle.loads(pickle.dumps(j))) for j in jobs]


def make_evaluator(name):
    from platypus import MapEvaluator, SubmitEvaluator, ProcessPoolEvaluator
    if name == "map":
        return MapEvaluator(), (lambda: None)
    if name == "copy":
        return MapEvaluator(map_func=copying_map), (lambda: None)
    if name == "thread":
        from concurrent.futures import ThreadPoolExecutor
        ex = ThreadPoolExecutor(max_workers=3)
        return SubmitEvaluator(ex.submit), (lambda: ex.shutdown())
    if name == "process":
        ev = ProcessPoolEvaluator(2)
        return ev, ev.close
    raise ValueError(name)


# ----------------------------------------------------------------------------
# operators
# ----------------------------------------------------------------------------
def explicit_operator(cfg, want_mutator):
    """an explicitly supplied operator (index cfg['variator'] = 'explicit:<i>')"""
    from platypus import (GAOperator, SBX, PM, UM, PCX, UNDX, SPX, DifferentialEvolution, HUX, BitFlip, PMX, Swap,
                          Insertion, SSX, Replace, CompoundOperator, CompoundMutation)
    kind = {"realtiny": "real", "real6": "real", "scaled": "real", "realwide": "real", "intpow2": "integer"}.get(cfg["kind"], cfg["kind"])
    i = int(cfg["variator"].split(":")[1])
    if want_mutator:
        opts = {
            "real": [lambda: PM(0.6, 10.0), lambda: UM(0.6), lambda: CompoundMutation(PM(0.5), UM(0.3))],
            "integer": [lambda: BitFlip(0.3), lambda: BitFlip(1)],
            "binary": [lambda: BitFlip(0.3), lambda: BitFlip(1)],
            "binint": [lambda: BitFlip(0.3)],
            "perm": [lambda: Swap(0.9), lambda: Insertion(0.9), lambda: CompoundMutation(Insertion(0.7), Swap(0.7))],
            "subset": [lambda: Replace(0.9)],
        }[kind]
    else:
        opts = {
            "real": [lambda: GAOperator(SBX(0.9, 5.0), PM(0.5, 10.0)), lambda: PCX(3, 2), lambda: UNDX(3, 2), lambda: SPX(3, 2),
                     lambda: GAOperator(DifferentialEvolution(0.5, 0.7), UM(0.3)), lambda: SBX(1.0, 2.0)],
            "integer": [lambda: GAOperator(HUX(0.9), BitFlip(0.2)), lambda: HUX()],
            "binary": [lambda: GAOperator(HUX(0.9), BitFlip(0.2)), lambda: HUX()],
            "binint": [lambda: GAOperator(HUX(), BitFlip(0.2))],
            "perm": [lambda: GAOperator(PMX(0.9), Swap(0.8)), lambda: PMX(), lambda: CompoundOperator(PMX(), Insertion(0.8), Swap(0.8))],
            "subset": [lambda: GAOperator(SSX(0.9), Replace(0.8)), lambda: SSX()],
        }[kind]
    return opts[i % len(opts)]()


N_EXPLICIT = 6


def build_algorithm(cfg, problem, evaluator, generator=None):
    import platypus as P
    alg = cfg["alg"]
    kw = {"evaluator": evaluator}
    if generator is not None:
        kw["generator"] = generator
    n = cfg.get("size", 6)
    explicit = cfg.get("variator", "default") != "default"
    if alg == "GDE3":
        if explicit:
            kw["variator"] = P.DifferentialEvolution(0.5, 0.7)
    elif alg in ("OMOPSO", "CMAES"):
        pass
    elif alg == "SMPSO":
        if explicit:
            kw["mutate"] = explicit_operator(cfg, True)
    elif explicit:
        kw["variator"] = explicit_operator(cfg, alg in MUTATOR_ALGS)
    if alg == "GA":
        a = P.GeneticAlgorithm(problem, population_size=n, offspring_size=cfg.get("offspring", n), **kw)
    elif alg == "ES":
        a = P.EvolutionaryStrategy(problem, population_size=n, offspring_size=cfg.get("offspring", n), **kw)
    elif alg == "NSGAII":
        # a restart makes the population as large as the archive: only with a bounded (epsilon-box) archive
        arch = None
        if cfg.get("archive"):
            arch = P.EpsilonBoxArchive([0.25]) if cfg.get("restart") else P.Archive()
        a = P.NSGAII(problem, population_size=n, archive=arch, **kw)
    elif alg == "NSGAIII":
        a = P.NSGAIII(problem, divisions_outer=3, **kw)
    elif alg == "EpsMOEA":
        a = P.EpsMOEA(problem, epsilons=[0.25], population_size=n, **kw)
    elif alg == "EpsNSGAII":
        a = P.EpsNSGAII(problem, epsilons=[0.25], population_size=n, **kw)
    elif alg == "GDE3":
        a = P.GDE3(problem, population_size=n, **kw)
    elif alg == "SPEA2":
        a = P.SPEA2(problem, population_size=n, **kw)
    elif alg == "MOEAD":
        a = P.MOEAD(problem, neighborhood_size=3, population_size=n, **kw)
    elif alg == "IBEA":
        a = P.IBEA(problem, population_size=n, **kw)
    elif alg == "PAES":
        a = P.PAES(problem, divisions=4, capacity=5, **kw)
    elif alg == "PESA2":
        a = P.PESA2(problem, population_size=n, divisions=4, capacity=5, **kw)
    elif alg == "OMOPSO":
        a = P.OMOPSO(problem, epsilons=[0.25], swarm_size=n, leader_size=cfg.get("leader_size", 4), max_iterations=10, mutation_probability=0.5, **kw)
    elif alg == "SMPSO":
        a = P.SMPSO(problem, swarm_size=n, leader_size=cfg.get("leader_size", 4), max_iterations=10, **kw)
    elif alg == "CMAES":
        a = P.CMAES(problem, offspring_size=n, **kw)
    else:
        raise ValueError(alg)
    if cfg.get("restart"):
        # restarts (AdaptiveTimeContinuation) that actually happen within a short run
        a.remove_extension(P.AdaptiveTimeContinuationExtension)
        mut = None
        if cfg["kind"] not in REAL_KINDS:
            mut = explicit_operator(dict(cfg, variator="explicit:0"), True)
        ext_kw = dict(window_size=2, max_window_size=3, population_ratio=2.0, min_population_size=4, max_population_size=12)
        if mut is not None:
            ext_kw["mutator"] = mut
        a.add_extension(P.AdaptiveTimeContinuationExtension(**ext_kw))
    return a


# ----------------------------------------------------------------------------
# snapshots and the tracer
# ----------------------------------------------------------------------------
def snap_value(v):
    if isinstance(v, (list, tuple)):
        return tuple(v)
    return v


def snap_nums(arr):
    xs = list(arr)
    if any(x is None for x in xs):
        return None          # never assigned (a brand-new Solution)
    return tuple(xs)


class Tracer:
    """Logs one run.  Identity of Python objects -> small integers (sid); every solution ever seen is kept
    alive so that id() values are never reused."""

    def __init__(self, problem):
        self.problem = problem
        self.keep = []
        self.sid_of = {}
        self.parent = {}           # id(child) -> id(parent) (copy.deepcopy)
        self.pool_ids = set()
        self.table = []            # distinct snapshots
        self.table_index = {}
        self.steps = []            # (batches, exposed-indices)
        self.cur_batches = []
        self.init = []
        self.batch_log = []        # for the oracle: (step, batch no, [solution objects])
        self.nsteps = 0
        self.n_restart_batches = 0
        self.submitted_domain_errors = []
        self.attrs = []                # per step: [(attribute name, [snapshot indices])]
        self.prev_exposed_ids = set()  # ids of everything exposed at the previous boundary
        self.alias = []                # (step, attribute, sid): an object that had to be NEW was exposed before
        self.light = False             # light: no snapshots (oracle-only stress runs)
        self.eval_var_changes = []     # evaluate_all must not change the (decoded) variables of what it is given

    def sid(self, s):
        k = id(s)
        if k not in self.sid_of:
            self.sid_of[k] = len(self.sid_of)
            self.keep.append(s)
        return self.sid_of[k]

    def snap(self, s):
        if self.light:
            return 0
        t = (self.sid(s), tuple(snap_value(v) for v in s.variables), snap_nums(s.objectives), snap_nums(s.constraints),
             s.constraint_violation, bool(getattr(s, "feasible", False)), bool(s.evaluated))
        r = repr(t)
        if r not in self.table_index:
            self.table_index[r] = len(self.table)
            self.table.append(t)
        return self.table_index[r]

    def provenance(self, s):
        k = id(s)
        seen = 0
        while k is not None and seen < 100:
            if k in self.pool_ids:
                return self.sid_of.get(k)
            k = self.parent.get(k)
            seen += 1
        return None

    # --- patches -------------------------------------------------------------
    def install(self):
        from platypus import Algorithm, Solution
        tracer = self
        self._orig_eval = Algorithm.evaluate_all
        self._orig_copy = Solution.__deepcopy__

        def evaluate_all(alg, solutions):
            sols = list(solutions)
            before = [tracer.snap(s) for s in sols]
            prov = [tracer.provenance(s) for s in sols]
            for s in sols:
                if not s.evaluated:
                    err = encoded_in_domain(alg.problem.types, list(s.variables))
                    if err:
                        tracer.submitted_domain_errors.append((tracer.nsteps, len(tracer.cur_batches), tracer.sid(s), err))
            types = alg.problem.types
            dec_before = [[snap_value(types[i].decode(v)) for i, v in enumerate(s.variables)] for s in sols]
            r = tracer._orig_eval(alg, solutions)
            after = [tracer.snap(s) for s in sols]
            for s, d0 in zip(sols, dec_before):
                d1 = [snap_value(types[i].decode(v)) for i, v in enumerate(s.variables)]
                if d1 != d0:
                    tracer.eval_var_changes.append((tracer.nsteps, len(tracer.cur_batches), tracer.sid(s), d0, d1))
            tracer.cur_batches.append((before, prov, after))
            for s in sols:
                tracer.pool_ids.add(id(s))
            return r

        def deepcopy_(sol, memo):
            res = tracer._orig_copy(sol, memo)
            tracer.sid(sol)
            tracer.sid(res)
            tracer.parent[id(res)] = id(sol)
            return res

        Algorithm.evaluate_all = evaluate_all
        Solution.__deepcopy__ = deepcopy_

    def uninstall(self):
        from platypus import Algorithm, Solution
        Algorithm.evaluate_all = self._orig_eval
        Solution.__deepcopy__ = self._orig_copy

    def set_init(self, sols):
        self.init_objs = list(sols)
        self.init = [self.snap(s) for s in sols]
        for s in sols:
            self.pool_ids.add(id(s))

    def exposed_objects(self, alg):
        out, seen = [], set()
        for name in EXPOSED_ATTRS:
            if not hasattr(alg, name):
                continue
            v = getattr(alg, name)
            if v is None:
                continue
            items = [v] if hasattr(v, "variables") else list(v)
            for s in items:
                if id(s) not in seen:
                    seen.add(id(s))
                    out.append((name, s))
        return out

    def attribute_contents(self, alg):
        """what each exposed attribute holds, in its own order (for the per-algorithm data-flow check)"""
        out = []
        for name in EXPOSED_ATTRS:
            v = getattr(alg, name, None)
            if v is None:
                continue
            items = [v] if hasattr(v, "variables") else list(v)
            out.append((name, [self.snap(s) for s in items]))
        return out

    def boundary(self, alg, oracle):
        exp = self.exposed_objects(alg)
        idx = [self.snap(s) for _, s in exp]
        if self.light:
            self.steps.append(([], []))
            self.attrs.append([])
        else:
            self.steps.append((self.cur_batches, idx))
            self.attrs.append(self.attribute_contents(alg))
        # the step models say these attributes hold NEW objects after every step (AlgSteps: pso_move = deep copies,
        # CMAES.sample / PESA2 offspring): none of them may be an object that was exposed at the previous boundary
        fresh_attr = FRESH_ATTR.get(type(alg).__name__)
        if fresh_attr and self.nsteps > 0:
            for s in getattr(alg, fresh_attr):
                if id(s) in self.prev_exposed_ids and len(self.alias) < 5:
                    self.alias.append((self.nsteps, fresh_attr, self.sid(s)))
        self.prev_exposed_ids = set(id(s) for _, s in exp)
        oracle(self.nsteps, exp)
        self.cur_batches = []
        self.pool_ids = set(id(s) for _, s in exp)
        self.nsteps += 1


FRESH_ATTR = {"OMOPSO": "particles", "SMPSO": "particles", "CMAES": "population", "PESA2": "population"}


class StopRun(Exception):
    pass


class RunTimeout(Exception):
    pass


def _alarm(signum, frame):
    raise RunTimeout()


# ----------------------------------------------------------------------------
# the C01 oracle: the property statement, verbatim, on one exposed solution
# ----------------------------------------------------------------------------
def _same(a, b):
    """exact equality of stored and recomputed values (NaN equals NaN: a NaN objective is C07's business, not staleness)"""
    return a == b or (a != a and b != b)


def check_exposed(cfg, problem, s):
    """returns None or a description of how the solution contradicts the property"""
    if s.evaluated is not True:
        return "exposed solution is not marked evaluated"
    nobjs, ncons = problem.nobjs, problem.nconstrs
    decoded = [problem.types[i].decode(s.variables[i]) for i in range(problem.nvars)]
    o, c = raw_eval(cfg["kind"], nobjs, ncons, decoded)
    so = list(s.objectives)
    if len(so) != len(o) or any(not _same(a, b) for a, b in zip(so, o)):
        return "objectives %r are not those of its own variables %r (function gives %r)" % (so, decoded, o)
    sc = list(s.constraints)
    if len(sc) != len(c) or any(not _same(a, b) for a, b in zip(sc, c)):
        return "constraint values %r are not those of its own variables %r (function gives %r)" % (sc, decoded, c)
    viol = sum([abs(decl_violation(d, x)) for d, x in zip(cons_decl(cfg), c)])
    if not _same(s.constraint_violation, viol):
        return "constraint_violation %r but the declared constraints %r give %r for %r" % (s.constraint_violation, cons_decl(cfg), viol, c)
    if not hasattr(s, "feasible") or s.feasible is not (viol == 0):
        return "feasible flag %r but violation is %r" % (getattr(s, "feasible", None), viol)
    return None


# ----------------------------------------------------------------------------
# one traced run
# ----------------------------------------------------------------------------
def run_config(cfg):
    """Run one configuration of a real algorithm under the tracer.  Returns a JSON-able dict."""
    import platypus as P
    C.ensure_repo_on_path()
    out = {"cfg": cfg, "status": "ok", "c01_fail": [], "c07_fail": [], "steps": 0, "evaluations": 0}
    del _CALLS[:]
    random.seed(cfg["seed"])
    script = None
    if cfg.get("script"):
        script = ScriptedRandom(cfg["seed"] * 7919 + 13, cfg["script"])
    tracer = None
    problem = None
    close = lambda: None
    # watchdog on CPU time (a wall-clock alarm false-alarms when the machine is loaded)
    limit = C.cpu_time_limit(float(cfg.get("timeout", 20)), exc=RunTimeout)
    limit.__enter__()
    try:
        try:
            problem = make_problem(cfg)
        except P.PlatypusError as e:
            out["status"] = "rejected"
            out["why"] = "problem: %s" % e
            return out
        tracer = Tracer(problem)
        tracer.light = bool(cfg.get("light"))
        tracer.install()
        if script:
            script.install()
        evaluator, close = make_evaluator(cfg.get("evaluator", "map"))
        generator = None
        if cfg.get("inject"):
            # inject: evaluated solutions of a previous (untraced part of the) run + hand-made unevaluated ones
            pre = P.NSGAII(problem, population_size=4) if problem.nobjs > 1 else P.GeneticAlgorithm(problem, population_size=4, offspring_size=4)
            saved_eval = P.Algorithm.evaluate_all
            P.Algorithm.evaluate_all = tracer._orig_eval
            try:
                pre.run(8)
            finally:
                P.Algorithm.evaluate_all = saved_eval
            seeds = list(pre.result)[:3]
            fresh = P.RandomGenerator().generate(problem)
            generator = P.InjectedPopulation(seeds + [fresh])
        try:
            alg = build_algorithm(cfg, problem, evaluator, generator)
        except P.PlatypusError as e:
            out["status"] = "rejected"
            out["why"] = "constructor: %s" % e
            return out
        if generator is not None:
            tracer.set_init(list(generator.solutions))
        max_steps = cfg.get("steps", 12)

        def oracle(step, exposed):
            for name, s in exposed:
                bad = check_exposed(cfg, problem, s)
                if bad and len(out["c01_fail"]) < 5:
                    out["c01_fail"].append({"step": step, "where": name, "sid": tracer.sid(s), "what": bad})

        def callback(a):
            tracer.boundary(a, oracle)
            if tracer.nsteps >= max_steps:
                raise StopRun()

        try:
            alg.run(10 ** 9, callback=callback)
        except StopRun:
            pass
        out["steps"] = tracer.nsteps
        out["nfe"] = alg.nfe
    except RunTimeout:
        out["status"] = "timeout"
        out["steps"] = tracer.nsteps if tracer else 0
    except Exception as e:   # an exception escaping a legal run
        out["status"] = "exception"
        out["exc_type"] = type(e).__name__
        out["exc"] = "%s: %s" % (type(e).__name__, e)
        out["tb"] = traceback.format_exc()[-1500:]
        out["steps"] = tracer.nsteps if tracer else 0
    finally:
        limit.__exit__(None, None, None)
        if script:
            script.uninstall()
            out["extreme_draws"] = script.n_extreme
        if tracer:
            tracer.uninstall()
        try:
            close()
        except Exception:
            pass
    calls = list(_CALLS)
    out["evaluations"] = len(calls)
    if problem is None:
        return out
    types = problem.types
    if cfg.get("evaluator") == "process" and tracer:
        # the user function ran in other processes: its graph on the points needed is obtained by calling
        # the raw function here (the C07 log of such a run is empty)
        for t in tracer.table:
            if t[6]:
                dec = [types[i].decode(v) for i, v in enumerate(t[1])]
                o, c = raw_eval(cfg["kind"], problem.nobjs, problem.nconstrs, dec)
                calls.append((_freeze(dec), (tuple(o), tuple(c))))
        out["calls_from_raw_function"] = True
    # C07 oracle: every argument vector the user function received is in the declared domain
    for k, (args, _res) in enumerate(calls):
        err = in_domain(types, list(args))
        if err and len(out["c07_fail"]) < 5:
            out["c07_fail"].append({"call": k, "args": repr(args), "what": err})
    if tracer:
        for (st, bn, sid, d0, d1) in tracer.eval_var_changes[:3]:
            out["c01_fail"].append({"step": st, "where": "evaluate_all batch %d" % bn, "sid": sid, "key": "evaluate-all-changed-variables",
                                    "what": "evaluate_all changed the decision variables of a submitted solution from %r to %r "
                                            "(results paired with the wrong solution)" % (d0, d1)})
        for (st, bn, sid, err) in tracer.submitted_domain_errors[:5]:
            out["c07_fail"].append({"step": st, "batch": bn, "sid": sid, "what": "submitted to evaluate_all: " + err})
        out["alias"] = [{"step": a, "attr": b, "sid": c} for a, b, c in tracer.alias]
        out["trace"] = {"table": tracer.table, "init": tracer.init, "steps": tracer.steps, "attrs": tracer.attrs}
        out["n_batches"] = sum(len(b) for b, _ in tracer.steps)
        out["n_multi_batch_steps"] = sum(1 for b, _ in tracer.steps if len(b) > 1)
        out["n_exposed"] = sum(len(e) for _, e in tracer.steps)
        out["n_evaluated_copies_submitted"] = sum(1 for b, _ in tracer.steps for (bef, _p, _a) in b for i in bef if tracer.table[i][6])
    out["calls"] = calls
    out["types"] = types_desc(types)
    out["cons_decl"] = cons_decl(cfg)
    return out


def types_desc(types):
    from platypus import Real, Integer, Binary, Permutation, Subset
    d = []
    for t in types:
        if isinstance(t, ScaledReal):
            d.append(("real",) + tuple(t.decoded_bounds()))
        elif isinstance(t, Real):
            d.append(("real", t.min_value, t.max_value))
        elif isinstance(t, Integer):
            d.append(("integer", t.min_value, t.max_value, t.nbits))
        elif isinstance(t, Binary):
            d.append(("binary", t.nbits))
        elif isinstance(t, Permutation):
            d.append(("perm", tuple(t.elements)))
        elif isinstance(t, Subset):
            d.append(("subset", tuple(t.elements), t.size))
    return d


# ----------------------------------------------------------------------------
# Coq literals
# ----------------------------------------------------------------------------
def num_lit(x):
    if isinstance(x, bool):
        raise ValueError("bool as number")
    x = float(x)
    if x != x:
        return "NNaN"
    if x == math.inf:
        return "NPInf"
    if x == -math.inf:
        return "NNInf"
    m, e = C.float_parts(x)
    return "(NFin %s %s)" % (C.z_lit(m), C.z_lit(e))


def nat(n):
    return "%d%%nat" % n


def val_lit_any(v):
    """literal of a value by its OWN shape (used when a logged value does not have the shape its declared type promises:
    the Coq domain check then answers 'out of domain', like the Python oracle)"""
    if isinstance(v, (list, tuple)):
        if all(isinstance(b, bool) for b in v):
            return "(VBits %s)" % C.list_lit([C.bool_lit(b) for b in v])
        if all(isinstance(e, int) for e in v):
            return "(VList %s)" % C.list_lit([C.z_lit(e) for e in v])
        return "(VList [])"
    if isinstance(v, bool):
        return "(VBits [%s])" % C.bool_lit(v)
    if isinstance(v, int):
        return "(VInt %s)" % C.z_lit(v)
    if isinstance(v, float):
        return "(VNum %s)" % num_lit(v)
    return "(VList [])"


def val_lit(tdesc, v, decoded):
    try:
        return _val_lit(tdesc, v, decoded)
    except (TypeError, ValueError):
        return val_lit_any(v)


def _val_lit(tdesc, v, decoded):
    k = tdesc[0]
    if k == "real":
        return "(VNum %s)" % num_lit(v)
    if k == "integer" and decoded:
        return "(VInt %s)" % C.z_lit(v)
    if k in ("binary", "integer"):
        return "(VBits %s)" % C.list_lit([C.bool_lit(bool(b)) for b in v])
    return "(VList %s)" % C.list_lit([C.z_lit(int(e)) for e in v])


def ty_lit(t):
    k = t[0]
    if k == "real":
        return "(TReal %s %s)" % (num_lit(t[1]), num_lit(t[2]))
    if k == "integer":
        return "(TInteger %s %s %s)" % (C.z_lit(t[1]), C.z_lit(t[2]), nat(t[3]))
    if k == "binary":
        return "(TBinary %s)" % nat(t[1])
    if k == "perm":
        return "(TPerm %s)" % C.list_lit([C.z_lit(e) for e in t[1]])
    return "(TSubset %s %s)" % (C.list_lit([C.z_lit(e) for e in t[1]]), nat(t[2]))


def cdecl_lit(d):
    op, y = parse_decl(d)
    return "(%s, %s)" % ({"==": "CEq", "<=": "CLeq", ">=": "CGeq", "!=": "CNeq"}[op], num_lit(y))


def nums_lit(xs):
    return C.list_lit([num_lit(x) for x in xs]) if xs is not None else "[]"


def sol_lit(types, t):
    sid, vs, objs, cons, cv, feas, ev = t
    return "(mkSol %s %s %s %s %s %s %s)" % (
        nat(sid), C.list_lit([val_lit(td, v, False) for td, v in zip(types, vs)]), nums_lit(objs), nums_lit(cons),
        num_lit(cv), C.bool_lit(feas), C.bool_lit(ev))


def call_lit(types, call):
    args, (o, c) = call
    return "(%s, (%s, %s))" % (C.list_lit([val_lit(td, v, True) for td, v in zip(types, args)]), nums_lit(o), nums_lit(c))


def dedupe_calls(calls):
    seen, out = {}, []
    for a, r in calls:
        if r is None:
            continue
        k = repr(a)
        if k in seen:
            if seen[k] != repr(r):
                return None       # the user function is not a function of its arguments
            continue
        seen[k] = repr(r)
        out.append((a, r))
    return out


def cv_exact(res):
    """is the float computation of every constraint_violation of the trace exact?  (the Coq model adds exactly)"""
    decl = res["cons_decl"]
    if "callable" in decl or any(parse_decl(d)[0] in ("<", ">") for d in decl):
        return False
    for t in res["trace"]["table"]:
        cons, cv, ev = t[3], t[4], t[6]
        if not ev or cons is None:
            continue
        try:
            ex = sum((decl_violation_exact(d, x) for d, x in zip(decl, cons)), Fraction(0))
        except (ValueError, OverflowError):
            return False
        if Fraction(cv) != ex:
            return False
    return True


def c01_case_lit(res):
    """Coq literal (type c01case) of one traced run, or None when the trace cannot be shipped"""
    types = res["types"]
    tr = res["trace"]
    if len(tr["table"]) >= 4500:
        return None
    calls = dedupe_calls(res["calls"])
    if calls is None:
        return None
    steps = []
    for (batches, exposed), attrs in zip(tr["steps"], tr["attrs"]):
        bl = []
        for before, prov, after in batches:
            bl.append("(%s, %s, %s)" % (C.list_lit([nat(i) for i in before]),
                                        C.list_lit(["None" if p is None else "(Some %s)" % nat(p) for p in prov]),
                                        C.list_lit([nat(i) for i in after])))
        al = ["(A_%s, %s)" % (name, C.list_lit([nat(i) for i in idx])) for name, idx in attrs]
        assert sorted(set(i for _, idx in attrs for i in idx)) == sorted(set(exposed))
        steps.append("(%s, %s)" % (C.list_lit(bl), C.list_lit(al)))
    return "K1 A%s %s %s\n %s\n %s\n %s\n %s" % (
        res["cfg"]["alg"],
        C.list_lit([ty_lit(t) for t in types]),
        C.list_lit([cdecl_lit(d) for d in res["cons_decl"]]),
        C.list_lit([call_lit(types, c) for c in calls]),
        C.list_lit([sol_lit(types, t) for t in tr["table"]]),
        C.list_lit([nat(i) for i in tr["init"]]),
        C.list_lit(steps))


def c07_case_lit(res, expect=True):
    types = res["types"]
    seen, calls = set(), []
    for a, r in res["calls"]:          # every distinct argument vector, also those on which the user code raised
        if repr(a) not in seen:
            seen.add(repr(a))
            calls.append((a, r))
    return "K7 %s %s %s" % (C.list_lit([ty_lit(t) for t in types]),
                            C.list_lit([C.list_lit([val_lit(td, v, True) for td, v in zip(types, a)]) for a, _ in calls]),
                            C.bool_lit(expect))


# ----------------------------------------------------------------------------
# configuration space
# ----------------------------------------------------------------------------
def applicable(alg, kind):
    if alg == "CMAES":
        return kind in ("real", "scaled")   # default sigma = 0.5 never samples inside a 1e-15 wide box: the rejection loop spins
    if kind == "realwide":
        # bounds +-1e200 / +-1.7e308: for the algorithms that take a variator (the PSO velocity arithmetic and the CMA-ES
        # initial mean overflow on such ranges: the theorems' "candidate is not NaN" hypothesis; probed separately)
        return alg not in ("OMOPSO", "SMPSO", "CMAES")
    return kind in REAL_KINDS or alg not in REAL_ONLY


def all_configs():
    """the full grid (without seeds): algorithm x type x constraints x direction x operator x evaluator"""
    out = []
    for alg in ALGORITHMS:
        for kind in KINDS:
            if not applicable(alg, kind):
                continue
            for cons in ("none", "cmp"):
                for mx in (False, True):
                    if mx and alg in MIN_ONLY:
                        continue
                    for var in ("default", "explicit"):
                        if var == "explicit" and alg in ("OMOPSO", "CMAES"):
                            continue
                        out.append({"alg": alg, "kind": kind, "cons": cons, "maximize": mx, "variator": var})
    return out


def finalize(cfg, rng, k=0):
    """fill the remaining coordinates of a grid point deterministically from rng"""
    c = dict(cfg)
    if c["variator"] == "explicit":
        c["variator"] = "explicit:%d" % rng.randrange(N_EXPLICIT)
    c.setdefault("evaluator", rng.choice(["map", "copy", "copy", "thread"]))
    c["seed"] = rng.randrange(1, 10 ** 6)
    c.setdefault("script", rng.choice([None, None, 0.15, 0.5]))
    c.setdefault("size", rng.choice([4, 5, 6]))
    if c["alg"] in ("GA", "ES"):
        c.setdefault("offspring", rng.choice([3, c["size"], c["size"] + 1]))
    if c["alg"] == "NSGAII":
        c.setdefault("archive", rng.random() < 0.5)
    if c["alg"] == "CMAES":
        c.setdefault("cma_single", rng.random() < 0.4)
    if c["alg"] == "EpsNSGAII" or (c["alg"] == "NSGAII" and c.get("archive")):
        c.setdefault("restart", c["alg"] == "EpsNSGAII" or rng.random() < 0.3)
    if c["alg"] in ("NSGAII", "GA", "SMPSO", "SPEA2", "EpsMOEA", "PESA2", "MOEAD") and rng.random() < 0.25:
        c.setdefault("inject", True)
    c.setdefault("subclass", rng.random() < 0.3 and c.get("evaluator") != "process")
    if c["maximize"] and rng.random() < 0.3:
        c["maximize"] = "mixed"
    c.setdefault("steps", 8 if c["alg"] == "MOEAD" else 12)
    return c


def is_known_rejected(res):
    """exceptions of configurations DESIGN.md section 7 lists as rejected (not C01/C07 violations):
    IBEA on a constrained problem whose population has infeasible members (normalize() only looks at
    feasible solutions: AttributeError normalized_objectives / ValueError min() of nothing / empty range)"""
    cfg = res["cfg"]
    if res.get("status") != "exception":
        return None
    if cfg["alg"] == "IBEA" and cfg.get("cons", "none") != "none":
        e = res.get("exc", "")
        if res.get("exc_type") == "AttributeError" and "normalized_objectives" in e:
            return "IBEA on a constrained problem with an infeasible member (AttributeError: normalized_objectives)"
        if res.get("exc_type") == "ValueError" and "min()" in e:
            return "IBEA on a constrained problem with no feasible member (ValueError: min() of an empty list in normalize)"
        if res.get("exc_type") == "PlatypusError" and "empty range" in e:
            return "IBEA on a constrained problem with a single feasible member (PlatypusError: objective with empty range)"
    return None


# ----------------------------------------------------------------------------
# C07 function cases: default-operator registry, PSO position update, CMA-ES sampler
# ----------------------------------------------------------------------------
KNOWN_OPNAMES = ("Op_SBX_PM", "Op_HUX_BitFlip", "Op_PMX_Insertion_Swap", "Op_SSX_Replace",
                 "Op_PM", "Op_BitFlip", "Op_Insertion_Swap", "Op_Replace")
TCLS = {"real": "KReal", "binary": "KBinary", "integer": "KInteger", "perm": "KPerm", "subset": "KSubset"}


def operator_name(op):
    n = type(op).__name__
    if n == "GAOperator":
        return "Op_%s_%s" % (type(op.variation).__name__, type(op.mutation).__name__)
    if n == "CompoundOperator":
        return "Op_" + "_".join(type(v).__name__ for v in op.variators)
    if n == "CompoundMutation":
        return "Op_" + "_".join(type(v).__name__ for v in op.mutators)
    return "Op_" + n


def one_type(cls):
    from platypus import Real, Integer, Binary, Permutation, Subset
    return {"real": lambda: Real(-1, 2), "binary": lambda: Binary(4), "integer": lambda: Integer(-3, 5),
            "perm": lambda: Permutation(range(4)), "subset": lambda: Subset(range(6), 3)}[cls]()


def registry_case(classes):
    """what PlatypusConfig picks for a problem whose variables have the given classes"""
    from platypus import Problem, PlatypusConfig, PlatypusError
    p = Problem(len(classes), 1)
    p.types[:] = [one_type(c) for c in classes]
    out = []
    for f in (PlatypusConfig.default_variator, PlatypusConfig.default_mutator):
        try:
            out.append(operator_name(f(p)))
        except PlatypusError:
            out.append(None)
    return out


def registry_lit(classes, names):
    def o(n):
        return "None" if n is None else "(Some %s)" % n
    return "K7R %s %s %s" % (C.list_lit([TCLS[c] for c in classes]), o(names[0]), o(names[1]))


def default_operator_oracle(kind, rng, trials):
    """apply the library-chosen default variator / mutator of a homogeneous problem to in-domain parents:
    it must run, keep offspring in the domain and be able to change a variable of that type.
    Returns a list of (key, description, replay)."""
    from platypus import Problem, PlatypusConfig, RandomGenerator, PlatypusError
    cfg = {"alg": "NSGAII", "kind": kind, "cons": "none"}
    problem = make_problem(cfg)
    fails = []
    for which, getter in (("variator", PlatypusConfig.default_variator), ("mutator", PlatypusConfig.default_mutator)):
        try:
            op = getter(problem)
        except PlatypusError as e:
            fails.append(("default-operator-missing:%s:%s" % (kind, which), "no default %s for a %s problem: %s" % (which, kind, e),
                          {"kind": "default-op", "type": kind, "which": which}))
            continue
        changed = 0
        for k in range(trials):
            seed = rng.randrange(10 ** 9)
            random.seed(seed)
            parents = [RandomGenerator().generate(problem) for _ in range(op.arity)]
            before = [[snap_value(v) for v in p.variables] for p in parents]
            try:
                kids = op.evolve(parents)
            except Exception as e:
                fails.append(("default-operator-not-applicable:%s:%s" % (kind, which),
                              "default %s %s raised %s: %s on in-domain %s parents" % (which, operator_name(op), type(e).__name__, e, kind),
                              {"kind": "default-op", "type": kind, "which": which, "seed": seed}))
                break
            if not isinstance(kids, (list, tuple)):
                kids = [kids]
            bad = None
            for c in kids:
                bad = bad or encoded_in_domain(problem.types, list(c.variables))
                if not any([snap_value(v) for v in c.variables] == b for b in before):
                    changed += 1
            if bad:
                fails.append(("default-operator-leaves-domain:%s:%s" % (kind, which),
                              "default %s %s produced %s" % (which, operator_name(op), bad),
                              {"kind": "default-op", "type": kind, "which": which, "seed": seed}))
                break
        else:
            if changed == 0:
                fails.append(("default-operator-not-applicable:%s:%s" % (kind, which),
                              "default %s %s never changed a %s variable in %d applications (it does not act on this type)" % (
                                  which, operator_name(op), kind, trials),
                              {"kind": "default-op", "type": kind, "which": which}))
    return fails


def real_problem(bounds):
    from platypus import Problem, Real
    p = Problem(len(bounds), 2, function=LoggedFunction("real", 2, 0))
    p.types[:] = [Real(a, b) for a, b in bounds]
    return p


BOUNDS_POOL = [(-1.0, 2.0), (0.0, 1.0), (-0.5, -0.25), (1e-3, 1e3), (-4.0, 4.0)]
VEL_POOL = [0.0, -0.0, 0.5, -0.5, 3.0, -3.0, 1e-17, 1e300, -1e300, math.inf, -math.inf, 2.0 ** -1074]


def pso_cases(rng, n):
    """run the REAL ParticleSwarm._update_positions on hand-built swarms.
    Returns (literals, oracle failures)."""
    from platypus import SMPSO, OMOPSO, Solution
    lits, fails, stats = [], [], {"clamped": 0, "nan": 0, "inside": 0}
    for k in range(n):
        nv = rng.randrange(1, 4)
        bounds = [rng.choice(BOUNDS_POOL) for _ in range(nv)]
        problem = real_problem(bounds)
        alg = SMPSO(problem, swarm_size=1) if rng.random() < 0.5 else OMOPSO(problem, epsilons=[0.1], swarm_size=1)
        s = Solution(problem)
        pos = []
        for a, b in bounds:
            r = rng.random()
            pos.append(a if r < 0.2 else b if r < 0.4 else a + (b - a) * rng.random())
        s.variables[:] = pos
        s.objectives[:] = [1.0, 2.0]
        s.evaluated = True
        vel = []
        for a, b in bounds:
            r = rng.random()
            vel.append(rng.choice(VEL_POOL) if r < 0.4 else math.nan if r < 0.45 else (rng.random() - 0.5) * 4 * (b - a))
        alg.particles = [s]
        alg.velocities = [list(vel)]
        values = [p + v for p, v in zip(pos, vel)]
        alg._update_positions()
        new = alg.particles[0]
        newpos, newvel = list(new.variables), list(alg.velocities[0])
        tl = [("real", a, b) for a, b in bounds]
        lits.append("K7P %s %s %s %s %s" % (C.list_lit([ty_lit(t) for t in tl]), nums_lit(values), nums_lit(vel),
                                            C.list_lit(["(VNum %s)" % num_lit(x) for x in newpos]), nums_lit(newvel)))
        rp = {"kind": "pso", "bounds": bounds, "pos": [repr(x) for x in pos], "vel": [repr(x) for x in vel]}
        for j, (a, b) in enumerate(bounds):
            if values[j] != values[j]:
                stats["nan"] += 1
                continue       # the documented hypothesis: candidate is not NaN
            if values[j] < a or values[j] > b:
                stats["clamped"] += 1
            else:
                stats["inside"] += 1
            if not (a <= newpos[j] <= b):
                fails.append(("pso-position-out-of-bounds", "_update_positions stored %r for a variable in [%r,%r] (position %r + velocity %r)" % (
                    newpos[j], a, b, pos[j], vel[j]), rp))
        if new is s or new.evaluated or list(s.variables) != pos:
            fails.append(("pso-position-update-not-a-fresh-unevaluated-copy", "particle reused / flag kept / original modified", rp))
    return lits, fails, stats


def pso_replay(rp):
    from platypus import SMPSO, Solution
    bounds = [tuple(b) for b in rp["bounds"]]
    problem = real_problem(bounds)
    alg = SMPSO(problem, swarm_size=1)
    s = Solution(problem)
    pos = [float(x) for x in rp["pos"]]
    vel = [float(x) for x in rp["vel"]]
    s.variables[:] = pos
    s.evaluated = True
    alg.particles = [s]
    alg.velocities = [list(vel)]
    alg._update_positions()
    new = list(alg.particles[0].variables)
    for j, (a, b) in enumerate(bounds):
        v = pos[j] + vel[j]
        if v == v and not (a <= new[j] <= b):
            return "position %r outside [%r,%r]" % (new[j], a, b)
    return None


class _GaussFeed:
    def __init__(self, xs):
        self.xs = list(xs)
        self.i = 0

    def __call__(self, mu=0.0, sigma=1.0):
        if self.i >= len(self.xs):
            raise StopRun("gauss feed exhausted")
        x = self.xs[self.i]
        self.i += 1
        return x


def cma_cases(rng, n):
    """run the REAL CMAES.sample with xmean = 0, sigma = 1, D = 1, B = I so that every candidate value IS the
    Gaussian draw, which is scripted.  Returns (literals, oracle failures, stats)."""
    from platypus import CMAES
    lits, fails, stats = [], [], {"rejections": 0, "samples": 0, "on_bound": 0}
    for k in range(n):
        nv = rng.randrange(1, 4)
        bounds = [rng.choice(BOUNDS_POOL[:3] + [(-4.0, 4.0)]) for _ in range(nv)]
        problem = real_problem(bounds)
        diag = rng.random() < 0.5
        nsamp = rng.randrange(1, 4)
        alg = CMAES(problem, offspring_size=nsamp)
        alg.iteration = 1
        alg.last_eigenupdate = 1
        alg.ccov = 1.0
        alg.diagonal_iterations = 5 if diag else 0
        alg.xmean = [0.0] * nv
        alg.sigma = 1.0
        alg.diag_D = [1.0] * nv
        alg.B = [[1.0 if i == j else 0.0 for j in range(nv)] for i in range(nv)]
        feed, tapes = [], []
        for s in range(nsamp):
            tape = []
            for attempt in range(rng.randrange(0, 4)):          # rejected candidates
                jbad = rng.randrange(nv)
                cand = []
                for j, (a, b) in enumerate(bounds):
                    if j < jbad:
                        cand.append(a + (b - a) * rng.random())
                    elif j == jbad:
                        r = rng.random()
                        cand.append(math.nextafter(a, -math.inf) if r < 0.25 else math.nextafter(b, math.inf) if r < 0.5
                                    else a - rng.random() * 3 - 1e-9 if r < 0.75 else b + rng.random() * 3 + 1e-9)
                    else:
                        cand.append(a + (b - a) * rng.random())
                if diag:
                    cand = cand[:jbad + 1]                       # the inner loop breaks: later draws are not made
                tape.append(cand)
                feed.extend(cand)
                stats["rejections"] += 1
            good = []
            for (a, b) in bounds:
                r = rng.random()
                if r < 0.15:
                    good.append(a)
                    stats["on_bound"] += 1
                elif r < 0.3:
                    good.append(b)
                    stats["on_bound"] += 1
                else:
                    good.append(a + (b - a) * rng.random())
            tape.append(good)
            feed.extend(good)
            tapes.append(tape)
        saved = random.gauss
        random.gauss = _GaussFeed(feed)
        rp = {"kind": "cma", "bounds": bounds, "diag": diag, "nsamp": nsamp, "feed": [repr(x) for x in feed]}
        try:
            sols = alg.sample()
        except StopRun:
            # the implementation rejected a candidate the model accepts: a model/code disagreement (correspondence),
            # not by itself a violation of the property
            stats.setdefault("disagreements", []).append(rp)
            continue
        finally:
            random.gauss = saved
        tl = [("real", a, b) for a, b in bounds]
        for s, sol in enumerate(sols):
            stats["samples"] += 1
            got = list(sol.variables)
            lits.append("K7C %s %s %s" % (C.list_lit([ty_lit(t) for t in tl]), C.list_lit([nums_lit(c) for c in tapes[s]]),
                                          C.list_lit(["(VNum %s)" % num_lit(x) for x in got])))
            for j, (a, b) in enumerate(bounds):
                if not (a <= got[j] <= b):
                    fails.append(("cmaes-sample-out-of-bounds", "CMAES.sample returned %r for a variable in [%r,%r]" % (got[j], a, b), rp))
            if sol.evaluated:
                fails.append(("cmaes-sample-marked-evaluated", "a sampled solution is marked evaluated", rp))
    return lits, fails, stats


def cma_replay(rp):
    from platypus import CMAES
    bounds = [tuple(b) for b in rp["bounds"]]
    nv = len(bounds)
    problem = real_problem(bounds)
    alg = CMAES(problem, offspring_size=rp["nsamp"])
    alg.iteration = 1
    alg.last_eigenupdate = 1
    alg.ccov = 1.0
    alg.diagonal_iterations = 5 if rp["diag"] else 0
    alg.xmean = [0.0] * nv
    alg.sigma = 1.0
    alg.diag_D = [1.0] * nv
    alg.B = [[1.0 if i == j else 0.0 for j in range(nv)] for i in range(nv)]
    saved = random.gauss
    random.gauss = _GaussFeed([float(x) for x in rp["feed"]])
    try:
        sols = alg.sample()
    except StopRun:
        return "sample consumed more draws than the modelled loop"
    finally:
        random.gauss = saved
    for sol in sols:
        for j, (a, b) in enumerate(bounds):
            if not (a <= sol.variables[j] <= b):
                return "sample %r outside [%r,%r]" % (sol.variables[j], a, b)
    return None


# ----------------------------------------------------------------------------
# C01 function-level oracles: flag discipline of every variator, deepcopy
# ----------------------------------------------------------------------------
def operator_catalog(kind):
    from platypus import (GAOperator, SBX, PM, UM, PCX, UNDX, SPX, DifferentialEvolution, HUX, BitFlip, PMX, Swap,
                          Insertion, SSX, Replace, CompoundOperator, CompoundMutation, UniformMutation, NonUniformMutation)

    class _Stub:
        nfe = 30
        swarm_size = 6
    if kind in REAL_KINDS:
        return {"PM": lambda: PM(0.5), "SBX": lambda: SBX(0.7), "DifferentialEvolution": lambda: DifferentialEvolution(0.3, 0.5),
                "UniformMutation": lambda: UniformMutation(0.4, 0.5), "NonUniformMutation": lambda: NonUniformMutation(0.4, 0.5, 10, _Stub()),
                "UM": lambda: UM(0.4), "PCX": lambda: PCX(3, 2), "UNDX": lambda: UNDX(3, 2), "SPX": lambda: SPX(3, 2),
                "GAOperator(SBX,PM)": lambda: GAOperator(SBX(0.5), PM(0.3)),
                "CompoundMutation(PM,UM)": lambda: CompoundMutation(PM(0.3), UM(0.3))}
    if kind in ("binary", "integer", "binint", "intpow2"):
        return {"BitFlip": lambda: BitFlip(0.1), "HUX": lambda: HUX(0.6), "GAOperator(HUX,BitFlip)": lambda: GAOperator(HUX(0.5), BitFlip(0.05))}
    if kind == "perm":
        return {"Swap": lambda: Swap(0.4), "Insertion": lambda: Insertion(0.4), "PMX": lambda: PMX(0.5),
                "CompoundMutation(Insertion,Swap)": lambda: CompoundMutation(Insertion(0.3), Swap(0.3)),
                "CompoundOperator(PMX,Insertion,Swap)": lambda: CompoundOperator(PMX(0.3), Insertion(0.3), Swap(0.3))}
    if kind == "subset":
        return {"Replace": lambda: Replace(0.4), "SSX": lambda: SSX(0.5), "GAOperator(SSX,Replace)": lambda: GAOperator(SSX(0.4), Replace(0.3))}
    return {}


def flag_case(kind, opname, seed):
    """one application of an operator to evaluated parents.  Returns (n_children, n_changed, failure or None)."""
    from platypus import RandomGenerator
    cfg = {"alg": "NSGAII", "kind": kind, "cons": "cmp"}
    problem = make_problem(cfg)
    op = operator_catalog(kind)[opname]()
    random.seed(seed)
    parents = []
    for _ in range(op.arity):
        p = RandomGenerator().generate(problem)
        p.evaluate()
        parents.append(p)
    snap = [([snap_value(v) for v in p.variables], list(p.objectives), list(p.constraints), p.constraint_violation, p.feasible, p.evaluated)
            for p in parents]
    kids = op.evolve(list(parents))
    if not isinstance(kids, (list, tuple)):
        kids = [kids]
    changed = 0
    for c in kids:
        cv = [snap_value(v) for v in c.variables]
        if any(c is p for p in parents):
            return len(kids), changed, "operator returned a parent object itself"
        if c.evaluated:
            # still marked evaluated: it must carry exactly the objectives of its own variables
            bad = check_exposed(cfg, problem, c)
            if bad:
                return len(kids), changed, "child keeps evaluated=True but " + bad
        if not any(cv == s[0] for s in snap):
            changed += 1
    after = [([snap_value(v) for v in p.variables], list(p.objectives), list(p.constraints), p.constraint_violation, p.feasible, p.evaluated)
             for p in parents]
    if after != snap:
        return len(kids), changed, "a parent was modified"
    return len(kids), changed, None


def deepcopy_case(kind, seed):
    from platypus import RandomGenerator
    cfg = {"alg": "NSGAII", "kind": kind, "cons": "cmp"}
    problem = make_problem(cfg)
    random.seed(seed)
    p = RandomGenerator().generate(problem)
    u = copy.deepcopy(p)
    if u.evaluated or u is p:
        return "copy of an unevaluated solution is marked evaluated / is the same object"
    p.evaluate()
    c = copy.deepcopy(p)
    if c is p or c.problem is not p.problem:
        return "deepcopy returned the same object / cloned the problem"
    bad = check_exposed(cfg, problem, c)
    if bad:
        return "deep copy of an evaluated solution: " + bad
    if c.variables is p.variables or c.objectives is p.objectives:
        return "deep copy shares its arrays with the original"
    return None


# ----------------------------------------------------------------------------
# particle-swarm stress runs (bounded leader archive that really truncates)
# ----------------------------------------------------------------------------
def pso_stress_configs(rng, n):
    """OMOPSO / SMPSO with a small leader archive, a larger swarm, a front with many non-dominated points, long runs"""
    out = []
    for k in range(n):
        alg = ("OMOPSO", "SMPSO")[k % 2]
        out.append({"alg": alg, "kind": "real6", "cons": rng.choice(["none", "cmp"]), "maximize": False,
                    "variator": rng.choice(["default", "default", "explicit:0"]) if alg == "SMPSO" else "default",
                    "evaluator": rng.choice(["map", "map", "copy"]), "seed": rng.randrange(1, 10 ** 6), "script": None,
                    "size": rng.choice([12, 16, 20, 24, 30]), "leader_size": rng.choice([2, 3, 5]), "steps": rng.choice([40, 50, 60]),
                    "subclass": False, "light": True, "timeout": 120})
    return out


# ----------------------------------------------------------------------------
# Integer: EVERY bit string of the declared length must decode into [min, max]
# ----------------------------------------------------------------------------
INTEGER_RANGES = [(0, 7), (-8, 7), (3, 4), (0, 1), (0, 15), (100, 355), (0, 255), (-128, 127), (0, 5), (0, 6), (-3, 5), (0, 8), (0, 9),
                  (1, 16), (1, 17), (-1, 1), (-7, 8), (0, 1023), (0, 1024), (0, 1022), (5, 4100), (-2048, 2047), (0, 4095), (10, 73), (0, 2)]


def integer_decode_sweep(ranges, rng, max_exhaustive_bits=12, samples=4096):
    """returns (number of codes decoded, list of (key, description, replay))"""
    from platypus import Integer
    import itertools
    fails, n = [], 0
    for (a, b) in ranges:
        t = Integer(a, b)
        k = t.nbits
        if k <= max_exhaustive_bits:
            codes = itertools.product([False, True], repeat=k)
        else:
            codes = ([rng.random() < 0.5 for _ in range(k)] for _ in range(samples))
        for bits in codes:
            n += 1
            v = t.decode(list(bits))
            if isinstance(v, bool) or not isinstance(v, int) or not (a <= v <= b):
                fails.append(("integer-decode-out-of-range", "Integer(%d, %d) (nbits %d): the bit string %s decodes to %r, outside [%d, %d]" % (
                    a, b, k, "".join("1" if x else "0" for x in bits), v, a, b), {"kind": "integer-decode", "min": a, "max": b, "bits": [bool(x) for x in bits]}))
                break
        # and the declared width is the minimal one the model assumes: 2^(nbits-1) <= max-min < 2^nbits
        if not (2 ** (k - 1) <= b - a < 2 ** k):
            fails.append(("integer-nbits-not-minimal", "Integer(%d, %d).nbits = %d but 2^(nbits-1) <= max-min < 2^nbits fails (max-min = %d)" % (a, b, k, b - a),
                          {"kind": "integer-nbits", "min": a, "max": b}))
    return n, fails


def integer_decode_replay(rp):
    from platypus import Integer
    t = Integer(rp["min"], rp["max"])
    if rp["kind"] == "integer-nbits":
        k = t.nbits
        return None if 2 ** (k - 1) <= rp["max"] - rp["min"] < 2 ** k else "nbits = %d" % k
    if len(rp["bits"]) != t.nbits:
        return None
    v = t.decode(list(rp["bits"]))
    return None if rp["min"] <= v <= rp["max"] else "decodes to %r" % (v,)


REAL_BOUNDS_POOL = [(0.0, 1.0), (-1.0, 2.0), (-1e200, 1e200), (-8e307, 8e307), (-1.7e308, 1.7e308), (0.0, 1.7976931348623157e308),
                    (-1.7976931348623157e308, 1.7976931348623157e308), (-1.7976931348623157e308, 0.0), (-1e308, 1.5e308),
                    (0.0, 1e-15), (-5e-324, 5e-324), (1.0, 1.0000000000000002)]


def real_rand_oracle(rng, draws):
    """Real(lb, ub).rand() (the initial population of every algorithm) stays inside [lb, ub] and is not NaN,
    also under scripted extreme primitive draws.  Returns (number of draws, failures)."""
    from platypus import Real
    fails, n = [], 0
    for (a, b) in REAL_BOUNDS_POOL:
        t = Real(a, b)
        for mode in (None, 0.5):
            seed = rng.randrange(10 ** 9)
            random.seed(seed)
            script = ScriptedRandom(seed, mode) if mode else None
            if script:
                script.install()
            try:
                for k in range(draws):
                    n += 1
                    v = t.rand()
                    if not (a <= v <= b):
                        fails.append(("real-rand-out-of-bounds:Real(%r,%r)" % (a, b),
                                      "Real(%r, %r).rand() returned %r (draw %d, seed %d, scripted extremes %r): the initial population hands the user "
                                      "function a value outside the declared bounds" % (a, b, v, k, seed, mode),
                                      {"kind": "real-rand", "lb": repr(a), "ub": repr(b), "seed": seed, "script": mode, "draws": draws}))
                        break
            finally:
                if script:
                    script.uninstall()
            if fails and fails[-1][2]["lb"] == repr(a) and fails[-1][2]["ub"] == repr(b):
                break
    return n, fails


def real_rand_replay(rp):
    from platypus import Real
    a, b = float(rp["lb"]), float(rp["ub"])
    random.seed(rp["seed"])
    script = ScriptedRandom(rp["seed"], rp["script"]) if rp.get("script") else None
    if script:
        script.install()
    try:
        for k in range(rp["draws"]):
            v = Real(a, b).rand()
            if not (a <= v <= b):
                return "returned %r" % v
    finally:
        if script:
            script.uninstall()
    return None
