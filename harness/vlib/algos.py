"""Registry that constructs every shipped Platypus algorithm on a small deterministic problem.

Nothing property-specific lives here.  Everything is picklable (module-level classes only), so an
algorithm built here can go through platypus.io.save_state / load_state and be re-loaded in another
interpreter that has /verif/harness on sys.path.

    alg, info = build("NSGAII", vtype="subset_str", pop=5, seed=3)
    info = {"name", "vtype", "nobjs", "nconstrs", "pop", "off", "kids", "nsub", "variator", ...}

`info["kids"]` = number of solutions one variator.evolve() call returns, `info["pop"]` the population /
swarm size the constructor was asked for (use current_cfg(alg, info) for the value the object holds),
`info["nsub"]` the number of sub-problems MOEA/D visits per iterate.
"""
import random

from platypus import (CMAES, GDE3, IBEA, MOEAD, NSGAII, NSGAIII, OMOPSO, PAES, PESA2, SMPSO, SPEA2,
                      Binary, EpsMOEA, EpsNSGAII, EvolutionaryStrategy, GeneticAlgorithm, Integer,
                      Permutation, Problem, Real, Subset)
from platypus import InjectedPopulation, Solution
from platypus import operators as O
from platypus.extensions import AdaptiveTimeContinuationExtension

VTYPES = ("real", "binary", "integer", "perm_int", "perm_str", "subset_int", "subset_str")
STR_ELEMENTS = ["alpha", "bravo", "charlie", "delta", "echo", "foxtrot", "golf"]

ALGORITHMS = ("GA", "ES", "NSGAII", "NSGAIII", "EpsMOEA", "EpsNSGAII", "GDE3", "SPEA2", "MOEAD",
              "IBEA", "PAES", "PESA2", "OMOPSO", "SMPSO", "CMAES")
REAL_ONLY = ("GDE3", "OMOPSO", "SMPSO", "CMAES")
SINGLE_OBJECTIVE = ("GA", "ES")
# smallest legal size per algorithm (smaller values are rejected configurations: the constructor / first
# step raises or, for 0, run() spins — DESIGN.md section 7)
# (NSGAIII: the size argument is divisions_outer; SPEA2 needs a k-th neighbour; IBEA needs a non-degenerate
#  objective range; GDE3 samples 3 other members; CMAES divides by mu = offspring_size // 2)
MIN_POP = {"GA": 1, "ES": 1, "NSGAII": 1, "NSGAIII": 1, "EpsMOEA": 1, "EpsNSGAII": 1, "GDE3": 4, "SPEA2": 3,
           "MOEAD": 2, "IBEA": 2, "PAES": 1, "PESA2": 1, "OMOPSO": 1, "SMPSO": 1, "CMAES": 2}


def applicable_vtypes(name):
    return ("real",) if name in REAL_ONLY else VTYPES


class VProblem(Problem):
    """Small deterministic problem over one variable type.

    calls  : number of times evaluate() ran (= real calls of the problem function)
    hook   : optional callable(solution) invoked at each call (must be picklable or None when pickled)
    """

    def __init__(self, vtype="real", nobjs=2, nconstrs=0, big=False):
        """big=True: the same kind of problem with MORE / LARGER variables (7 reals instead of 3, ...)"""
        self.vtype = vtype
        self.big = big
        if vtype == "real":
            types = [Real(0.0, 1.0) for _ in range(7 if big else 3)]
        elif vtype == "binary":
            types = [Binary(9 if big else 5) for _ in range(5 if big else 3)]
        elif vtype == "integer":
            types = [Integer(0, 31 if big else 7) for _ in range(5 if big else 3)]
        elif vtype == "perm_int":
            types = [Permutation(range(9 if big else 6))]
        elif vtype == "perm_str":
            types = [Permutation(STR_ELEMENTS[:7 if big else 6])]
        elif vtype == "subset_int":
            types = [Subset(range(11 if big else 7), 4 if big else 3)]
        elif vtype == "subset_str":
            types = [Subset(STR_ELEMENTS + (["hotel", "india"] if big else []), 4 if big else 3)]
        else:
            raise ValueError(vtype)
        super().__init__(len(types), nobjs, nconstrs)
        self.types[:] = types
        if nconstrs:
            self.constraints[:] = "<=0"
        self.calls = 0
        self.hook = None

    def features(self, v):
        """three numbers in [0, 1] computed from the decoded variables"""
        t = self.vtype
        if t == "real":
            return [float(v[0]), float(v[1]), float(v[2])]
        if t == "binary":
            return [sum(1 for b in x if b) / float(len(x)) for x in v[:3]]
        if t == "integer":
            return [x / float(self.types[0].max_value) for x in v[:3]]
        if t in ("perm_int", "perm_str"):
            el = self.types[0].elements
            p = v[0]
            return [p.index(el[0]) / 5.0, p.index(el[1]) / 5.0, p.index(el[2]) / 5.0]
        el = self.types[0].elements
        idx = [el.index(e) for e in v[0]]          # order-sensitive on purpose
        return [idx[0] / 6.0, idx[1] / 6.0, idx[2] / 6.0]

    def evaluate(self, solution):
        self.calls += 1
        if self.hook is not None:
            self.hook(solution)
        a, b, c = self.features(solution.variables)
        if self.nobjs == 1:
            objs = [(a - 0.25) ** 2 + (b - 0.5) ** 2 + (c - 0.75) ** 2]
        elif self.nobjs == 2:
            objs = [a + 0.25 * b, 1.0 - a + c]
        else:
            objs = ([a + 0.25 * b, 1.0 - a + c, b + c] + [a * (i + 1) for i in range(self.nobjs)])[:self.nobjs]
        solution.objectives[:] = objs
        if self.nconstrs:
            solution.constraints[:] = [a + b - 1.5] + [0.0] * (self.nconstrs - 1)


def fixed_weights(nobjs, count):
    """a tiny user-supplied MOEA/D weight generator: `count` fixed weight vectors (corners first, then interior points)"""
    out = [[1.0 if j == i else 0.0 for j in range(nobjs)] for i in range(min(count, nobjs))]
    k = 1
    while len(out) < count:
        raw = [((k * (j + 2)) % 7) + 1.0 for j in range(nobjs)]
        out.append([x / sum(raw) for x in raw])
        k += 1
    return out


def make_variator(kind, vtype):
    """-> (variator or None for the algorithm's default, kids per evolve() call)"""
    real = vtype == "real"
    if kind in (None, "default"):
        return None, 2
    if kind == "mutation":      # a Mutation used as the variator: arity 1, one child
        m = {"real": O.PM(), "binary": O.BitFlip(), "integer": O.BitFlip(),
             "perm_int": O.Swap(), "perm_str": O.Swap(), "subset_int": O.Replace(1.0), "subset_str": O.Replace(1.0)}[vtype]
        return m, 1
    if not real:
        raise ValueError("variator %s needs real variables" % kind)
    if kind == "pcx3":
        return O.PCX(3, 3), 3
    if kind == "spx3":
        return O.SPX(3, 3), 3
    if kind == "undx1":
        return O.UNDX(3, 1), 1
    if kind == "sbx":
        return O.SBX(), 2
    if kind == "de":
        return O.DifferentialEvolution(), 1
    raise ValueError(kind)


def build(name, vtype="real", pop=4, off=None, seed=None, constrained=False, nobjs=None, variator=None,
          window=None, generator=None, inject=0, big=False, capacity=6, divisions=4, wrapper=None, **extra):
    """Construct algorithm `name`.  `seed` (if given) seeds the global `random` first.
    inject=k: the initial population starts with k already-evaluated solutions (InjectedPopulation).
    wrapper="atc"|"epc" (NSGAII / EpsNSGAII only): the DEPRECATED wrapper form platypus.deprecated.AdaptiveTimeContinuation /
    EpsilonProgressContinuation around the algorithm (inner eps-NSGA-II without its own restart extension); `window` as for EpsNSGAII."""
    if seed is not None:
        random.seed(seed)
    if name not in ALGORITHMS:
        raise ValueError(name)
    if vtype not in applicable_vtypes(name):
        raise ValueError("%s does not support %s variables" % (name, vtype))
    if nobjs is None:
        nobjs = 1 if name in SINGLE_OBJECTIVE else 2
    problem = VProblem(vtype, nobjs, 1 if constrained else 0, big=big)
    var, kids = make_variator(variator, vtype)
    kw = dict(extra)
    if inject and name != "CMAES":
        sols = []
        for _ in range(inject):
            s = Solution(problem)
            s.variables[:] = [t.rand() for t in problem.types]
            s.evaluate()
            sols.append(s)
        generator = InjectedPopulation(sols)
        injected_originals = sols
    if generator is not None:
        kw["generator"] = generator
    off = pop if off is None else off
    info = {"name": name, "vtype": vtype, "nobjs": nobjs, "nconstrs": problem.nconstrs, "pop": pop, "off": off,
            "kids": kids, "nsub": pop, "variator": variator or "default", "window": window, "inject": inject}
    eps = [0.05] * nobjs
    if name == "GA":
        alg = GeneticAlgorithm(problem, population_size=pop, offspring_size=off, variator=var, **kw)
    elif name == "ES":
        if variator not in (None, "default", "mutation"):
            raise ValueError("ES needs an arity-1 variator")
        alg = EvolutionaryStrategy(problem, population_size=pop, offspring_size=off, variator=var, **kw)
        info["kids"] = 1
    elif name == "NSGAII":
        alg = NSGAII(problem, population_size=pop, variator=var, **kw)
    elif name == "NSGAIII":
        # population_size is derived: ceil(C(nobjs+d-1, d) / 4) * 4; `pop` is read as divisions_outer
        alg = NSGAIII(problem, divisions_outer=pop, variator=var, **kw)
        info["pop"] = alg.population_size
        info["divisions_outer"] = pop
    elif name == "EpsMOEA":
        alg = EpsMOEA(problem, eps, population_size=pop, variator=var, **kw)
    elif name == "EpsNSGAII":
        alg = EpsNSGAII(problem, eps, population_size=pop, variator=var, **kw)
        if window is not None:
            # same extension, short windows so that restarts happen within a few steps;
            # window = w  or  [window_size, max_window_size, min_population_size, max_population_size]
            w = window if isinstance(window, (list, tuple)) else [window, 2 * window, 2, 12]
            alg.remove_extension(AdaptiveTimeContinuationExtension)
            alg.add_extension(AdaptiveTimeContinuationExtension(window_size=w[0], max_window_size=w[1],
                                                                min_population_size=w[2], max_population_size=w[3]))
    elif name == "GDE3":
        if variator not in (None, "default", "de"):
            raise ValueError("GDE3 needs differential evolution")
        alg = GDE3(problem, population_size=pop, **kw)
        info["kids"] = 1
    elif name == "SPEA2":
        alg = SPEA2(problem, population_size=pop, variator=var, **kw)
    elif name == "MOEAD":
        # weights: None (library default random_weights, population_size=pop) | ["nbw", divisions_outer] | ["fixed", count]
        weights = kw.pop("weights", None)
        nbh = kw.pop("neighborhood_size", None)
        if weights is None:
            n = max(pop, nobjs)      # random_weights always returns the nobjs corner vectors first
            wkw = {"population_size": pop}
        elif weights[0] == "nbw":
            from platypus.weights import normal_boundary_weights
            n = len(normal_boundary_weights(nobjs, weights[1]))
            wkw = {"weight_generator": normal_boundary_weights, "divisions_outer": weights[1]}
        else:
            n = weights[1]
            wkw = {"weight_generator": fixed_weights, "count": weights[1]}
        alg = MOEAD(problem, neighborhood_size=min(nbh if nbh else 3, max(n, 1)), variator=var, **wkw, **kw)
        info["pop"] = n
        info["nsub"] = n
    elif name == "IBEA":
        alg = IBEA(problem, population_size=pop, variator=var, **kw)
    elif name == "PAES":
        if variator not in (None, "default", "mutation"):
            raise ValueError("PAES needs an arity-1 variator")
        alg = PAES(problem, divisions=divisions, capacity=capacity, variator=var, **kw)
        info["pop"] = 1
        info["kids"] = 1
    elif name == "PESA2":
        alg = PESA2(problem, population_size=pop, divisions=divisions, capacity=capacity, variator=var, **kw)
    elif name == "OMOPSO":
        alg = OMOPSO(problem, eps, swarm_size=pop, leader_size=max(2, pop), max_iterations=20, **kw)
        info["kids"] = 1
    elif name == "SMPSO":
        alg = SMPSO(problem, swarm_size=pop, leader_size=max(2, pop), max_iterations=20, **kw)
        info["kids"] = 1
    elif name == "CMAES":
        alg = CMAES(problem, offspring_size=off, **kw)
        info["kids"] = 1
        info["pop"] = off
    if wrapper:
        import warnings
        from platypus import EpsilonBoxArchive
        from platypus import deprecated as D
        if name not in ("NSGAII", "EpsNSGAII"):
            raise ValueError("wrappers need an algorithm with population and archive")
        if name == "EpsNSGAII":
            alg.remove_extension(AdaptiveTimeContinuationExtension)
        elif alg.archive is None:
            alg.archive = EpsilonBoxArchive(eps)
        w = window if isinstance(window, (list, tuple)) else [window or 2, 2 * (window or 2), 2, 12]
        cls = {"atc": D.AdaptiveTimeContinuation, "epc": D.EpsilonProgressContinuation}[wrapper]
        with warnings.catch_warnings():
            warnings.simplefilter("ignore", DeprecationWarning)
            alg = cls(alg, window_size=w[0], max_window_size=w[1], min_population_size=w[2], max_population_size=w[3])
        info["wrapper"] = wrapper
    if inject and name != "CMAES":
        alg.verif_injected = injected_originals     # the evaluated solutions handed to InjectedPopulation (originals, not its copies)
    return alg, info


def current_cfg(alg, info):
    """(pop, off, kids, nsub) as the object holds them right now (eps-NSGA-II resizes its population)."""
    pop = getattr(alg, "population_size", None)
    if pop is None:
        pop = getattr(alg, "swarm_size", None)
    if pop is None or info["name"] == "CMAES":
        pop = info["pop"]
    if info["name"] == "MOEAD" and not pop:
        pop = info["pop"]          # population_size is set by initialize()
    off = getattr(alg, "offspring_size", info["off"])
    nsub = info["nsub"]
    if info["name"] == "MOEAD":
        from platypus.weights import random_weights
        # algorithms.py:732-749: utility-based search starts from range(nobjs) only with the default weight generator
        nsub = max(pop, alg.problem.nobjs) if (getattr(alg, "update_utility", None) is not None
                                               and alg.weight_generator == random_weights) else pop
    return int(pop), int(off), int(info["kids"]), int(nsub)


def result_signature(alg):
    """exact, order-preserving description of algorithm.result (variables, objectives as float.hex)"""
    def enc(v):
        if isinstance(v, float):
            return float.hex(v)
        if isinstance(v, (list, tuple)):
            return [enc(x) for x in v]
        if isinstance(v, (bool, int, str)):
            return v
        return repr(v)
    out = []
    for s in alg.result:
        out.append([enc(list(s.variables)), enc([float(o) for o in s.objectives]), enc(float(s.constraint_violation))])
    return out
