"""Shared machinery of the Platypus verification checks.

A check of property Cxx =
  1. Coq obligations: `make` the cone of coq/Props/Cxx.v (+ harness files), audit
     `Print Assumptions` of every theorem in it, scan the sources for Admitted/Axiom.
  2. Correspondence: run the REAL code (/repo) on generated inputs, write the same
     inputs together with the implementation's outputs into coq/Cases/*.v, let Coq
     evaluate the model on them (vm_compute) and report where they differ.
  3. Oracle: independent check of the property statement on the real code.
  4. Verdict (see DESIGN.md section 4).
"""
import fcntl
import hashlib
import json
import math
import os
import random
import re
import subprocess
import sys
import time
from concurrent.futures import ThreadPoolExecutor

VERIF = os.path.dirname(os.path.dirname(os.path.dirname(os.path.abspath(__file__))))
REPO = os.environ.get("VERIF_REPO", "/repo")
COQ = os.path.join(VERIF, "coq")
CASES = os.path.join(COQ, "Cases")
# evidence/ is only ever written by a full run against /repo itself; runs against a private copy
# (VERIF_REPO, used for mutation testing) and --replay runs write to a scratch directory instead
EVIDENCE = os.path.join(VERIF, "evidence") if os.path.abspath(REPO) == "/repo" else os.path.join(VERIF, "_build", "evidence-scratch")
REPLAYS = os.path.join(VERIF, "replays")
KNOWN = os.path.join(VERIF, "KNOWN_FINDINGS.json")
NCPU = min(16, os.cpu_count() or 4)

BASE_TRUSTED = [
    "Coq 8.16.1 kernel and its bytecode VM (vm_compute); no native_compute; no extraction",
    "harness/vlib (literal printing of exact float values as m*2^e, shard runner, output parser)",
    "CPython 3.12 semantics of the constructs the hand-written model mirrors",
]


def log(*a):
    print(*a, file=sys.stderr, flush=True)


# ----------------------------------------------------------------------------
# Coq literals
# ----------------------------------------------------------------------------
def z_lit(n):
    n = int(n)
    return "(%d)" % n if n < 0 else "%d" % n


def bool_lit(b):
    return "true" if b else "false"


def float_parts(x):
    """exact (m, e) with x == m * 2**e, m odd or 0"""
    x = float(x)
    if x == 0.0:
        return 0, 0
    m, e = math.frexp(x)
    mi = int(m * (1 << 53))
    e -= 53
    while mi % 2 == 0:
        mi //= 2
        e += 1
    assert math.ldexp(mi, e) == x
    return mi, e


def xq_lit(x):
    """Coq term of type xq for a Python number (float/int/Fraction); NaN is rejected."""
    from fractions import Fraction
    if isinstance(x, bool):
        raise ValueError("bool is not a number here")
    if isinstance(x, int):
        return "(FZ %s)" % z_lit(x)
    if isinstance(x, Fraction):
        return "(Fin (%s # %d))" % (z_lit(x.numerator), x.denominator)
    x = float(x)
    if x != x:
        raise ValueError("NaN cannot be shipped as xq")
    if x == math.inf:
        return "PInf"
    if x == -math.inf:
        return "NInf"
    m, e = float_parts(x)
    return "(F %s %s)" % (z_lit(m), z_lit(e))


def q_lit(x):
    """Coq term of type Q for a finite number."""
    from fractions import Fraction
    if isinstance(x, int) and not isinstance(x, bool):
        return "(inject_Z %s)" % z_lit(x)
    if isinstance(x, Fraction):
        return "(%s # %d)" % (z_lit(x.numerator), x.denominator)
    x = float(x)
    if x != x or x in (math.inf, -math.inf):
        raise ValueError("not finite")
    m, e = float_parts(x)
    return "(dy %s %s)" % (z_lit(m), z_lit(e))


def list_lit(items):
    return "[" + "; ".join(items) + "]"


def nat_lit(n):
    assert 0 <= n < 5000, "large nat literal"
    return "%d%%nat" % n


def opt_lit(x, f):
    return "None" if x is None else "(Some %s)" % f(x)


# ----------------------------------------------------------------------------
# context / verdict
# ----------------------------------------------------------------------------
class Ctx:
    def __init__(self, prop_id, tier, seed):
        self.prop_id = prop_id
        self.tier = tier
        self.seed = seed
        self.rng = random.Random(seed * 1000003 + int(prop_id[1:]))
        self.t0 = time.time()
        self.obligations = []      # dicts name, kind, ok, detail
        self.violations = []       # dicts key, what, replay (data), concrete
        self.coverage = {}
        self.samples = []
        self.assumptions = []
        self.trusted = list(BASE_TRUSTED)
        self.evaluations = 0
        self.nontrivial = set()
        self.rule = ""
        self.extra = {}
        self.checker_cmds = []

    @property
    def thorough(self):
        return self.tier == "thorough"

    def scale(self, quick, thorough):
        return thorough if self.thorough else quick

    def obligation(self, name, kind, ok, detail=""):
        self.obligations.append({"name": name, "kind": kind, "ok": bool(ok), "detail": str(detail)[:2000]})
        if not ok:
            log("[%s] OBLIGATION BROKEN: %s (%s) %s" % (self.prop_id, name, kind, str(detail)[:1500]))

    def violation(self, key, what, replay, concrete=True):
        """A concrete failing input (concrete=True) of the property on the real code."""
        self.violations.append({"key": key, "what": what, "replay": replay, "concrete": concrete})

    def count(self, n=1):
        self.evaluations += n

    def mark(self, token):
        """record a distinct non-trivial case (token must be hashable/canonical)"""
        self.nontrivial.add(token if isinstance(token, (str, int, tuple)) else json.dumps(token, sort_keys=True, default=str))

    def sample(self, s, limit=6):
        if len(self.samples) < limit:
            self.samples.append(s)


def load_known():
    if not os.path.exists(KNOWN):
        return {"findings": [], "fixed": []}
    with open(KNOWN) as f:
        return json.load(f)


def finish(ctx):
    """Apply the verdict logic, write evidence and replays, return the exit code."""
    known = load_known()
    known_keys = {(k["property"], k["key"]): k for k in known.get("findings", [])}
    evdir = EVIDENCE
    if ctx.coverage.get("replay_of"):
        evdir = os.path.join(VERIF, "_build", "evidence-scratch")
    os.makedirs(REPLAYS, exist_ok=True)
    os.makedirs(evdir, exist_ok=True)
    broken = [o for o in ctx.obligations if not o["ok"]]
    lines = []
    nviol = 0
    seen_known = set()
    seen_keys = set()
    concrete_new = 0
    for v in ctx.violations:
        kk = (ctx.prop_id, v["key"])
        if kk in known_keys:
            if kk not in seen_known:
                seen_known.add(kk)
                lines.append("KNOWN-FINDING: property=%s %s" % (ctx.prop_id, known_keys[kk]["what"]))
            continue
        if v["key"] in seen_keys:
            continue
        seen_keys.add(v["key"])
        concrete_new += 1
        nviol += 1
        h = hashlib.sha1(json.dumps([v["key"], v["replay"]], sort_keys=True, default=str).encode()).hexdigest()[:10]
        path = os.path.join(REPLAYS, "%s-%s.json" % (ctx.prop_id, h))
        with open(path, "w") as f:
            json.dump({"property": ctx.prop_id, "key": v["key"], "what": v["what"], "replay": v["replay"],
                       "broken_obligations": [o["name"] for o in broken],
                       "replay_cmd": "./check %s --replay %s" % (ctx.prop_id, path)}, f, indent=1, default=str)
        lines.append("VIOLATION property=%s replay=%s" % (ctx.prop_id, path))
        log("[%s] violation: %s" % (ctx.prop_id, v["what"]))
    if broken and concrete_new == 0:
        nviol += 1
        data = {"property": ctx.prop_id, "kind": "broken-obligation",
                "broken_obligations": broken,
                "note": "these theorems / correspondence shards / frame checks no longer check; "
                        "the search found no concrete input on which the property fails"}
        h = hashlib.sha1(json.dumps(data, sort_keys=True).encode()).hexdigest()[:10]
        path = os.path.join(REPLAYS, "%s-%s.json" % (ctx.prop_id, h))
        with open(path, "w") as f:
            json.dump(data, f, indent=1)
        lines.append("VIOLATION property=%s replay=%s no-failing-input-found" % (ctx.prop_id, path))

    nob = len(ctx.obligations)
    ndis = len([o for o in ctx.obligations if o["ok"]])
    cov = {
        "obligations": nob,
        "discharged": ndis,
        "checker_cmd": " ; ".join(ctx.checker_cmds) or "make -C coq",
        "trusted_base": ctx.trusted,
        "evaluations": ctx.evaluations,
        "distinct_nontrivial": len(ctx.nontrivial),
        "rule": ctx.rule,
        "samples": ctx.samples or ["(no sample recorded)"],
        "obligation_list": [{"name": o["name"], "kind": o["kind"], "ok": o["ok"]} for o in ctx.obligations],
        "known_findings_reported": sorted(k[1] for k in seen_known),
    }
    cov.update(ctx.coverage)
    ev = {
        "property_id": ctx.prop_id,
        "tier": ctx.tier,
        "seed": ctx.seed,
        "level": "proof",
        "coverage": cov,
        "assumptions": ctx.assumptions,
        "wall_s": round(time.time() - ctx.t0, 2),
        "violations": nviol,
    }
    with open(os.path.join(evdir, ctx.prop_id + ".json"), "w") as f:
        json.dump(ev, f, indent=1, default=str)
    # remove this process's generated Coq files (sources of failed shards are kept for inspection)
    try:
        mine = "_p%d" % os.getpid()
        keep = {o["detail"] for o in broken}
        for fn in os.listdir(CASES):
            if mine in fn and not any(fn.rsplit(".", 1)[0] in d for d in keep):
                os.unlink(os.path.join(CASES, fn))
    except OSError:
        pass
    for ln in lines:
        print(ln, flush=True)
    print("[%s] tier=%s seed=%d obligations=%d/%d evaluations=%d nontrivial=%d violations=%d wall=%.1fs" % (
        ctx.prop_id, ctx.tier, ctx.seed, ndis, nob, ctx.evaluations, len(ctx.nontrivial), nviol, time.time() - ctx.t0), flush=True)
    return 1 if nviol else 0


# ----------------------------------------------------------------------------
# Coq build / audit
# ----------------------------------------------------------------------------
class BuildLock:
    def __enter__(self):
        self.f = open(os.path.join(VERIF, ".lock"), "w")
        fcntl.flock(self.f, fcntl.LOCK_EX)
        return self

    def __exit__(self, *a):
        fcntl.flock(self.f, fcntl.LOCK_UN)
        self.f.close()


def sh(cmd, timeout=1200, cwd=None, env=None):
    try:
        p = subprocess.run(cmd, shell=isinstance(cmd, str), cwd=cwd, env=env, timeout=timeout,
                           stdout=subprocess.PIPE, stderr=subprocess.STDOUT, text=True)
        return p.returncode, p.stdout
    except subprocess.TimeoutExpired as e:
        out = e.stdout.decode() if isinstance(e.stdout, bytes) else (e.stdout or "")
        return 124, out + "\n[timeout after %ss]" % timeout


def coq_make(targets, timeout=1500):
    with BuildLock():
        rc, out = sh(["bash", os.path.join(COQ, "mkproject.sh")], cwd=COQ)
        if rc != 0:
            return rc, out
        return sh(["make", "-j%d" % NCPU] + list(targets), timeout=timeout, cwd=COQ)


THM_RE = re.compile(r"^\s*(?:Theorem|Lemma|Corollary|Example|Fact|Proposition)\s+([A-Za-z_][A-Za-z0-9_']*)", re.M)
FORBIDDEN_RE = re.compile(r"\b(Admitted|admit|Axiom|Axioms|Parameter|Parameters|Conjecture|Admit Obligations|Unset Guard Checking|"
                          r"Unset Positivity Checking|Unset Universe Checking|bypass_check|type-in-type|impredicative-set)\b")


def strip_coq_comments(src):
    out = []
    depth = 0
    i = 0
    while i < len(src):
        if src.startswith("(*", i):
            depth += 1
            i += 2
        elif src.startswith("*)", i) and depth:
            depth -= 1
            i += 2
        else:
            if depth == 0:
                out.append(src[i])
            i += 1
    return "".join(out)





def coq_cone(props_file):
    """The .v files (relative to coq/) that props_file transitively imports from PV."""
    seen = []
    todo = [props_file]
    while todo:
        f = todo.pop()
        if f in seen or not os.path.exists(os.path.join(COQ, f)):
            continue
        seen.append(f)
        src = strip_coq_comments(open(os.path.join(COQ, f)).read())
        for m in re.finditer(r"(From\s+PV\s+)?Require\s+(?:Import\s+|Export\s+)?((?:[A-Za-z_]\w*(?:\.[A-Za-z_]\w*)*\s*)+)\.(?=\s)", src):
            for name in m.group(2).split():
                if name.startswith("PV."):
                    name = name[3:]
                elif not m.group(1):
                    continue
                todo.append(name.replace(".", "/") + ".v")
    return seen


def scan_forbidden(files=None):
    bad = []
    if files is None:
        files = []
        for root, _, fns in os.walk(COQ):
            if os.path.basename(root) == "Cases":
                continue
            files += [os.path.relpath(os.path.join(root, fn), COQ) for fn in fns if fn.endswith(".v")]
    for rel in files:
        src = strip_coq_comments(open(os.path.join(COQ, rel)).read())
        for m in FORBIDDEN_RE.finditer(src):
            bad.append("%s: %s" % (rel, m.group(0)))
    return bad


def coq_obligations(ctx, props_file, extra_targets=(), allowed_axioms=()):
    """Build the cone of the property's Props file and audit its theorems.
    Each theorem in the Props file is one obligation."""
    targets = [props_file.replace(".v", ".vo")] + list(extra_targets)
    t = time.time()
    rc, out = coq_make(targets)
    ctx.checker_cmds.append("make -C coq " + " ".join(targets))
    if rc != 0:
        # find which file failed
        m = re.findall(r'File "\./([^"]+)", line (\d+)', out)
        ctx.obligation("coq-build:" + props_file, "build", False, out[-3000:])
        thms = THM_RE.findall(strip_coq_comments(open(os.path.join(COQ, props_file)).read()))
        for th in thms:
            ctx.obligation("theorem:" + th, "theorem", False, "cone did not build (%s)" % (m[-1] if m else "?",))
        return False
    ctx.obligation("coq-build:" + props_file, "build", True, "%.1fs" % (time.time() - t))
    cone = coq_cone(props_file)
    for t in extra_targets:
        cone += [f for f in coq_cone(t.replace(".vo", ".v")) if f not in cone]
    bad = scan_forbidden(cone)
    ctx.coverage["coq_files_in_cone"] = sorted(set(ctx.coverage.get("coq_files_in_cone", [])) | set(cone))
    ctx.obligation("no-admitted-no-axiom-declarations(%d files)" % len(cone), "audit", not bad, "; ".join(bad))
    src = strip_coq_comments(open(os.path.join(COQ, props_file)).read())
    thms = THM_RE.findall(src)
    mod = "PV." + props_file[:-2].replace("/", ".")
    os.makedirs(CASES, exist_ok=True)
    audit = os.path.join(CASES, "Audit_%s_p%d.v" % (ctx.prop_id, os.getpid()))
    # Quick tier, many theorems: Print Assumptions walks the whole dependency cone once per theorem (about 0.5 s each
    # over the Reals), so first audit ONE term that mentions every theorem; its assumption set is the union.  If that
    # union stays within the allow-list every theorem does; otherwise (and always in the thorough tier) audit one by one.
    if not ctx.thorough and len(thms) > 40:
        with open(audit, "w") as f:
            f.write("Require Import %s.\n" % mod)
            tup = "I"
            for th in reversed(thms):
                tup = "(@%s, %s)" % (th, tup)
            f.write("Definition audit_all_theorems := %s.\n" % tup)
            f.write('Goal True. idtac "@@ALL". exact I. Qed.\nPrint Assumptions audit_all_theorems.\n')
        rc, out = sh(["coqc", "-Q", ".", "PV", os.path.relpath(audit, COQ)], timeout=600, cwd=COQ)
        if rc == 0 and "@@ALL" in out:
            rest = out.split("@@ALL", 1)[1].strip()
            axs = [] if rest.startswith("Closed under the global context") else \
                [a for a in re.findall(r"^([A-Za-z_][\w.']*)\s*:", rest, re.M) if a not in ("Axioms", "Section", "Variables")]
            notok = [a for a in axs if not any(a == al or a.endswith("." + al) for al in allowed_axioms)]
            if not notok:
                ctx.checker_cmds.append("coqc Audit (one Print Assumptions over the tuple of all %d theorems)" % len(thms))
                for th in thms:
                    ctx.obligation("theorem:" + th, "theorem", True,
                                   "closed" if not axs else "combined audit: axioms of all theorems together: " + ", ".join(axs))
                ctx.trusted.append("axioms used by the property theorems (Print Assumptions, combined over %d theorems): " % len(thms) +
                                   (", ".join(sorted(axs)) if axs else "none (closed under the global context)"))
                ctx.coverage["theorems"] = ctx.coverage.get("theorems", []) + thms
                return True
    with open(audit, "w") as f:
        f.write("Require Import %s.\n" % mod)
        for th in thms:
            f.write('Goal True. idtac "@@THM %s". exact I. Qed.\nPrint Assumptions %s.\n' % (th, th))
    rc, out = sh(["coqc", "-Q", ".", "PV", os.path.relpath(audit, COQ)], timeout=600, cwd=COQ)
    ctx.checker_cmds.append("coqc Audit (Print Assumptions of %d theorems)" % len(thms))
    if rc != 0:
        ctx.obligation("axiom-audit", "audit", False, out[-2000:])
        return False
    chunks = out.split("@@THM ")[1:]
    axioms_seen = set()
    for ch in chunks:
        name, _, rest = ch.partition("\n")
        name = name.strip()
        rest = rest.strip()
        if rest.startswith("Closed under the global context"):
            ctx.obligation("theorem:" + name, "theorem", True, "closed")
        else:
            axs = re.findall(r"^([A-Za-z_][\w.']*)\s*:", rest, re.M)
            axs = [a for a in axs if a not in ("Axioms", "Section", "Variables")]
            notok = [a for a in axs if not any(a == al or a.endswith("." + al) for al in allowed_axioms)]
            axioms_seen.update(axs)
            ctx.obligation("theorem:" + name, "theorem", not notok,
                           ("axioms: " + ", ".join(axs)) if not notok else ("unexpected axioms: " + ", ".join(notok)))
    if len(chunks) != len(thms):
        ctx.obligation("axiom-audit-complete", "audit", False, "%d of %d theorems audited" % (len(chunks), len(thms)))
    ctx.trusted.append("axioms used by the property theorems (Print Assumptions): " +
                       (", ".join(sorted(axioms_seen)) if axioms_seen else "none (closed under the global context)"))
    ctx.coverage["theorems"] = ctx.coverage.get("theorems", []) + thms
    return True


def coqchk_cone(ctx, props_file):
    """thorough tier: independent re-check of the compiled cone."""
    mod = "PV." + props_file[:-2].replace("/", ".")
    t = time.time()
    rc, out = sh(["coqchk", "-silent", "-o", "-Q", ".", "PV", mod], timeout=3000, cwd=COQ)
    ctx.checker_cmds.append("coqchk -o " + mod)
    ok = rc == 0
    axs = re.findall(r"^\s+([A-Za-z_][\w.']*)\s*$", out.split("* Axioms:")[-1], re.M) if "* Axioms:" in out else []
    ctx.obligation("coqchk:" + mod, "coqchk", ok, out[-1500:])
    ctx.coverage["coqchk_axioms"] = axs
    ctx.coverage["coqchk_s"] = round(time.time() - t, 1)


# ----------------------------------------------------------------------------
# correspondence runner
# ----------------------------------------------------------------------------
def run_coq_cases(ctx, name, imports, case_type, check_fn, case_lits, shard=400, timeout=900, prelude=""):
    """Evaluate `check_fn : case_type -> bool` on every literal in case_lits (strings).
    Returns the sorted list of indices on which the model disagrees, or None if a shard failed to run."""
    os.makedirs(CASES, exist_ok=True)
    tag = "K_%s_%s_p%d_" % (ctx.prop_id, re.sub(r"\W", "_", name), os.getpid())   # per-process: concurrent runs do not collide
    shards = []
    for k in range(0, len(case_lits), shard):
        fn = "%s%d.v" % (tag, k // shard)
        with open(os.path.join(CASES, fn), "w") as f:
            f.write("From Coq Require Import ZArith QArith List Bool.\nImport ListNotations.\n")
            f.write("From PV Require Import %s.\n" % " ".join(imports))
            f.write("Open Scope Z_scope.\n")
            f.write(prelude + "\n")
            f.write("Definition cases : list %s := [\n" % case_type)
            f.write(";\n".join(case_lits[k:k + shard]))
            f.write("\n].\n")
            f.write('Goal True. idtac "@@BEGIN". exact I. Qed.\n')
            f.write("Eval vm_compute in (bad_indices %s cases).\n" % check_fn)
        shards.append((k, fn))

    def one(item):
        k, fn = item
        rc, out = sh("ulimit -s unlimited 2>/dev/null; exec coqc -Q . PV Cases/%s" % fn, timeout=timeout, cwd=COQ)
        return k, fn, rc, out

    bad = []
    failed = []
    with ThreadPoolExecutor(max_workers=NCPU) as ex:
        for k, fn, rc, out in ex.map(one, shards):
            txt = " ".join(out.split("@@BEGIN")[-1].split())
            m = re.search(r"= \[(.*?)\]\s*: list nat", txt)
            if rc != 0 or not m:
                failed.append((fn, out[-1500:]))
                continue
            body = m.group(1).strip()
            if body:
                bad.extend(k + int(x.replace("%nat", "")) for x in body.split(";"))
    failed_files = {f[0][:-2] for f in failed}
    for fn in os.listdir(CASES):
        if fn.startswith(tag) and not any(fn.startswith(ff) for ff in failed_files):
            try:
                os.unlink(os.path.join(CASES, fn))   # keep only the sources of shards that failed to evaluate
            except OSError:
                pass
    ctx.checker_cmds.append("coqc Cases/K_%s_%s_*.v (%d shards, vm_compute)" % (ctx.prop_id, name, len(shards)))
    if failed:
        ctx.obligation("correspondence-run:" + name, "correspondence", False,
                       "shards failed to evaluate: " + "; ".join("%s: %s" % f for f in failed)[:1800])
        return None
    return sorted(bad)


def coq_eval(ctx, name, imports, terms, timeout=600, prelude=""):
    """Evaluate a list of Coq terms with vm_compute; returns list of printed results (whitespace-collapsed)."""
    os.makedirs(CASES, exist_ok=True)
    fn = "E_%s_%s_p%d.v" % (ctx.prop_id, re.sub(r"\W", "_", name), os.getpid())
    with open(os.path.join(CASES, fn), "w") as f:
        f.write("From Coq Require Import ZArith QArith List Bool.\nImport ListNotations.\n")
        f.write("From PV Require Import %s.\nOpen Scope Z_scope.\n%s\n" % (" ".join(imports), prelude))
        for i, t in enumerate(terms):
            f.write('Goal True. idtac "@@R %d". exact I. Qed.\nEval vm_compute in (%s).\n' % (i, t))
    rc, out = sh("ulimit -s unlimited 2>/dev/null; exec coqc -Q . PV Cases/%s" % fn, timeout=timeout, cwd=COQ)
    if rc != 0:
        return None, out
    res = []
    for ch in out.split("@@R ")[1:]:
        _, _, rest = ch.partition("\n")
        res.append(" ".join(rest.split()))
    return res, out


# ----------------------------------------------------------------------------
# environment for drivers that need a fresh interpreter
# ----------------------------------------------------------------------------
def py_env(hashseed="0", extra=None):
    env = dict(os.environ)
    env["PYTHONPATH"] = REPO
    env["PYTHONHASHSEED"] = str(hashseed)
    env["PLATYPUS_VERIF"] = "1"
    if extra:
        env.update(extra)
    return env


def ensure_repo_on_path():
    if REPO not in sys.path:
        sys.path.insert(0, REPO)
    import platypus  # noqa
    assert os.path.dirname(os.path.dirname(os.path.abspath(platypus.__file__))) == os.path.abspath(REPO), platypus.__file__


# ----------------------------------------------------------------------------
# watchdog for calls into pure-Python library code
# ----------------------------------------------------------------------------
class WatchdogTimeout(Exception):
    pass


class cpu_time_limit:
    """Raises `exc` inside the running pure-Python call when the PROCESS has used `seconds` of CPU time since entry
    (a call that spins is caught however loaded the machine is, and a descheduled process is not mistaken for a hang),
    with a wall-clock backstop of seconds*wall_factor for calls that block without computing.

    Implemented with a watchdog thread rather than an interval timer: a process-directed timer signal may be delivered
    to a thread other than the main one, and the main thread blocked in a lock (waiting for a job it submitted to a
    thread-pool evaluator) then never runs the handler.  On expiry the watchdog (a) raises `exc` asynchronously in
    every other Python thread - the call may be spinning in a pool thread, which nothing else can stop - and (b)
    interrupts the thread that entered the limit (thread-directed SIGUSR2 when it is the main thread), and repeats
    every 0.25 s until the limit is left, so an exception swallowed by a broad `except` is raised again.  Limits nest."""

    def __init__(self, seconds, exc=WatchdogTimeout, wall_factor=30):
        self.seconds, self.exc, self.wall = float(seconds), exc, float(seconds) * wall_factor

    def _raise(self, signum, frame):
        raise self.exc()

    def _fire(self):
        import ctypes
        import signal
        import threading
        me = threading.get_ident()
        for t in threading.enumerate():
            if t.ident is not None and t.ident not in (me, self.caller) and not getattr(t, "_verif_watchdog", False):
                ctypes.pythonapi.PyThreadState_SetAsyncExc(ctypes.c_ulong(t.ident), ctypes.py_object(self.exc))
        if self.is_main:
            signal.pthread_kill(self.caller, signal.SIGUSR2)
        else:
            ctypes.pythonapi.PyThreadState_SetAsyncExc(ctypes.c_ulong(self.caller), ctypes.py_object(self.exc))

    def __enter__(self):
        import signal
        import threading
        import time
        self.caller = threading.get_ident()
        self.is_main = threading.current_thread() is threading.main_thread()
        if self.is_main:
            self.old = signal.signal(signal.SIGUSR2, self._raise)
        self.cpu0, self.t0 = time.process_time(), time.monotonic()
        self.last_fire = 0.0
        _watchdog_register(self)
        return self

    def __exit__(self, *a):
        import signal
        _watchdog_unregister(self)
        if self.is_main:
            try:
                signal.signal(signal.SIGUSR2, self.old)
            except BaseException:
                pass
        return False


# one shared daemon thread polls all active limits (a thread per limit made 70 000 guarded calls cost a minute)
_WD = {"thread": None, "active": [], "pid": None}


def _watchdog_loop():
    import time
    while True:
        time.sleep(0.05)
        now_cpu, now = time.process_time(), time.monotonic()
        for lim in list(_WD["active"]):
            if (now_cpu - lim.cpu0 > lim.seconds or now - lim.t0 > lim.wall) and now - lim.last_fire >= 0.25:
                lim.last_fire = now
                try:
                    lim._fire()
                except Exception:
                    pass


def _watchdog_register(lim):
    import threading
    if _WD["thread"] is None or _WD["pid"] != os.getpid() or not _WD["thread"].is_alive():
        _WD["active"] = []                       # (after a fork the parent's thread does not exist in the child)
        t = threading.Thread(target=_watchdog_loop, daemon=True)
        t._verif_watchdog = True
        _WD["thread"], _WD["pid"] = t, os.getpid()
        t.start()
    _WD["active"].append(lim)


def _watchdog_unregister(lim):
    try:
        _WD["active"].remove(lim)
    except ValueError:
        pass


def child_process_guard(cpu_seconds=3600):
    """Call at the start of every helper process a driver spawns (ProcessPoolExecutor initializer, subprocess
    preexec_fn): the child is killed by the kernel when its parent dies (no orphaned workers spinning after a check
    was interrupted) and when it has burnt `cpu_seconds` of CPU (a library call that never returns cannot occupy a
    core for hours)."""
    try:
        import ctypes
        import signal
        ctypes.CDLL("libc.so.6", use_errno=True).prctl(1, signal.SIGKILL)   # PR_SET_PDEATHSIG
    except Exception:
        pass
    try:
        import faulthandler
        import signal as _s
        faulthandler.register(_s.SIGUSR1, all_threads=True)   # kill -USR1 <pid> prints where a stuck helper is
    except Exception:
        pass
    try:
        import resource
        resource.setrlimit(resource.RLIMIT_CPU, (cpu_seconds, cpu_seconds + 60))
    except Exception:
        pass
