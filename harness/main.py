"""Entry point: ./check Cxx [--tier quick|thorough] [--replay file]"""
import argparse
import importlib
import json
import os
import sys
import traceback

sys.path.insert(0, os.path.dirname(os.path.abspath(__file__)))
from vlib import common  # noqa: E402


def main():
    ap = argparse.ArgumentParser()
    ap.add_argument("prop")
    ap.add_argument("--tier", choices=["quick", "thorough"], default=None)
    ap.add_argument("--replay", default=None)
    a = ap.parse_args()
    tier = a.tier or os.environ.get("VERIF_TIER") or "quick"
    if tier not in ("quick", "thorough"):
        tier = "quick"
    try:
        seed = int(os.environ.get("VERIF_SEED", "1"))
    except ValueError:
        seed = 1
    pid = a.prop.upper()
    common.ensure_repo_on_path()
    mod = importlib.import_module("props." + pid.lower())
    ctx = common.Ctx(pid, tier, seed)
    try:
        if a.replay:
            with open(a.replay) as f:
                data = json.load(f)
            ctx.coverage["replay_of"] = a.replay
            mod.replay(ctx, data)
        else:
            if hasattr(mod, "prebuild"):
                mod.prebuild(ctx)   # e.g. regenerate coq/Gen/*.v from the current source
            ok = common.coq_obligations(ctx, mod.PROPS_FILE, getattr(mod, "COQ_TARGETS", ()), getattr(mod, "ALLOWED_AXIOMS", ()))
            # further statement files of the property (e.g. Tie/Txx.v: generated-from-source definitions = hand model)
            for extra in getattr(mod, "EXTRA_PROPS", ()):
                ok = common.coq_obligations(ctx, extra, (), getattr(mod, "ALLOWED_AXIOMS", ())) and ok
            if ctx.thorough and ok and getattr(mod, "COQCHK", True):
                common.coqchk_cone(ctx, mod.PROPS_FILE)
            mod.run(ctx)
    except Exception:
        ctx.obligation("harness-completed", "harness", False, traceback.format_exc())
    sys.exit(common.finish(ctx))


if __name__ == "__main__":
    main()
