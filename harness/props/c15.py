"""C15 — hypervolume is the exact dominated volume, monotone, order/duplicate invariant."""
import itertools
import math
import signal
from fractions import Fraction

from vlib import common as C
from vlib import plat

ID = "C15"
PROPS_FILE = "Props/C15.v"
COQ_TARGETS = ["Harness/H15.vo"]
ALLOWED_AXIOMS = []
# second tie (translator): coq/Gen/Core.v is regenerated from the source text of C.REPO on every run and
# coq/Tie/T15.v proves generated definition = hand model (harness/translate/py2coq_core.py)
EXTRA_PROPS = ["Tie/T15.v"]


def prebuild(ctx):
    import os
    import sys
    sys.path.insert(0, os.path.join(C.VERIF, "harness", "translate"))
    import py2coq_core
    py2coq_core.prebuild(ctx, C, ["Hypervolume.dominates", "Hypervolume.swap", "Hypervolume.surface_unchanged_to", "Hypervolume.reduce_set", "Hypervolume.filter_nondominated"])


META = {
    "level_text": "Machine-checked proof (Coq, exact rational arithmetic) that the literal model of Hypervolume.calculate -- feasibility filter, core.normalize "
                  "writing normalized_objectives onto the solution objects (store keyed by object identity), direction-aware worse-than-nadir filter, invert/clip "
                  "once per object, and calc_internal with filter_nondominated / surface_unchanged_to / reduce_set on an explicit array mutated by swaps, loops on "
                  "fuel -- returns exactly hv_spec = the Lebesgue measure of the union of the origin-anchored boxes of the selected, clipped points "
                  "(hv_exact, for EVERY number of objectives >= 2, every set incl. ties, duplicates, repeated objects, infeasible members, points beyond both bounds, "
                  "all direction vectors; fuel is proved sufficient), and that hv_spec lies in [0,1], is invariant under permutation and under adding dominated, "
                  "duplicate or repeated points, never decreases when a point is added, equals the product of the coordinates for one box and satisfies the "
                  "inclusion-exclusion recurrence mu(A u B) = mu(A) + mu(B) - mu(A n B); the same facts are derived for `calculate` itself. The model is tied to /repo "
                  "on every run by exact differential correspondence on dyadic-grid inputs (every float operation of the implementation exact, verified per case) "
                  "and an independent inclusion-exclusion oracle on fractions.Fraction plus the metamorphic clauses on the real code.",
    "level_note": "Trusted: Coq kernel + VM; the harness (literal printer, shard runner); the hand-written model is tied to the code only on the sampled inputs of the "
                  "correspondence (2-5 objectives, 0-9 listed solutions, all direction vectors, explicit bounds or reference set). Theorems are about exact arithmetic: "
                  "float rounding of normalisation and of the volume sum off the dyadic grid is NOT covered (the oracle exercises arbitrary floats with a 1e-9 "
                  "tolerance). hv_spec is defined by slicing on the last coordinate (layer-cake integral, recursion on the dimension); that it is the measure of the "
                  "union of boxes is supported by the proved single-box and inclusion-exclusion laws (which determine it uniquely). Theorems about `calculate` assume a "
                  "well-formed input (vectors as long as the direction vector; equal sid = same object = same fields) and bounds that normalize accepts. One objective is "
                  "outside the property (the code's base case reads coordinate 0 of solutions[0], which is only right from 2 objectives on). Per-call timeout is a "
                  "SIGALRM raised inside the (pure Python) call. No axioms (all theorems closed under the global context).",
    "technique": "Coq proof of refinement (literal array/swap model = layer-cake measure, induction on the dimension) + exact model/implementation correspondence on dyadic grids (vm_compute) + inclusion-exclusion oracle",
}

CALL_TIMEOUT = 4.0      # seconds per call of the real code
MAX_TIMEOUTS = 3        # after that many non-terminating calls the run stops calling the real code

ERRMAP = {"PlatypusError": "EEmptyRange", "ValueError": "EValueEmpty", "TypeError": "ENoneUnpack",
          "IndexError": "EIndex", "AttributeError": "EAttr"}


class CallTimeout(Exception):
    pass


class time_limit:
    """Per-call timeout for pure-Python code: SIGALRM raises inside the running call."""

    def __init__(self, seconds):
        self.seconds = seconds

    def _raise(self, signum, frame):
        raise CallTimeout()

    def __enter__(self):
        # CPU-time limit with a wall-clock backstop (a wall-clock limit alone can fire on a loaded machine)
        self.inner = C.cpu_time_limit(self.seconds, exc=CallTimeout)
        self.inner.__enter__()

    def __exit__(self, *a):
        return self.inner.__exit__(*a)


# ----------------------------------------------------------------------------
# cases.  case = dict(nobjs, dirs, bounds = ("mm", mins, maxs) | ("ref", members), set = members)
# member = (sid, objectives, violation); equal sid = the same Python object
# ----------------------------------------------------------------------------
class State:
    timeouts = 0


def build_objects(case):
    p = plat.mk_problem(case["nobjs"], case["dirs"], nconstrs=1)
    objs = {}

    def get(m):
        sid, o, cv = m
        if sid not in objs:
            objs[sid] = plat.mk_solution(p, o, cv)
        return objs[sid]
    ref = [get(m) for m in case["bounds"][1]] if case["bounds"][0] == "ref" else None
    st = [get(m) for m in case["set"]]
    return p, ref, st


def run_impl(case):
    """('ok', float) | ('err', coq ierr name, text) | ('timeout',)"""
    from platypus import Hypervolume
    if State.timeouts >= MAX_TIMEOUTS:
        return ("skipped",)
    try:
        with time_limit(CALL_TIMEOUT):
            p, ref, st = build_objects(case)
            if ref is not None:
                hv = Hypervolume(reference_set=ref)
            else:
                hv = Hypervolume(minimum=list(case["bounds"][1]), maximum=list(case["bounds"][2]))
            return ("ok", hv.calculate(st))
    except CallTimeout:
        State.timeouts += 1
        return ("timeout",)
    except Exception as e:  # noqa
        return ("err", ERRMAP.get(type(e).__name__, "other:" + type(e).__name__), "%s: %s" % (type(e).__name__, e))


def case_json(case):
    def mem(m):
        return [m[0], [float(x).hex() for x in m[1]], float(m[2]).hex()]
    b = case["bounds"]
    return {"nobjs": case["nobjs"], "dirs": [bool(d) for d in case["dirs"]],
            "bounds": ["mm", [float(x).hex() for x in b[1]], [float(x).hex() for x in b[2]]] if b[0] == "mm" else ["ref", [mem(m) for m in b[1]]],
            "set": [mem(m) for m in case["set"]]}


def case_from_json(j):
    def mem(m):
        return (m[0], [float.fromhex(x) for x in m[1]], float.fromhex(m[2]))
    b = j["bounds"]
    return {"nobjs": j["nobjs"], "dirs": list(j["dirs"]),
            "bounds": ("mm", [float.fromhex(x) for x in b[1]], [float.fromhex(x) for x in b[2]]) if b[0] == "mm" else ("ref", [mem(m) for m in b[1]]),
            "set": [mem(m) for m in j["set"]]}


def case_show(case):
    b = case["bounds"]
    return {"nobjs": case["nobjs"], "maximize": list(case["dirs"]),
            "bounds": {"minimum": b[1], "maximum": b[2]} if b[0] == "mm" else {"reference_set": [list(m) for m in b[1]]},
            "set(sid,objectives,violation)": [list(m) for m in case["set"]]}


def sol_lit(m):
    return "(ISol %s %s %s)" % (C.nat_lit(m[0]), C.list_lit([C.q_lit(x) for x in m[1]]), C.q_lit(m[2]))


def case_lit(case, res):
    b = case["bounds"]
    if b[0] == "mm":
        bl = "(inl (%s, %s))" % (C.list_lit([C.q_lit(x) for x in b[1]]), C.list_lit([C.q_lit(x) for x in b[2]]))
    else:
        bl = "(inr %s)" % C.list_lit([sol_lit(m) for m in b[1]])
    rl = "(Ok %s)" % C.q_lit(res[1]) if res[0] == "ok" else "(Err %s)" % res[1]
    return "K15 %s %s %s %s %s" % (C.nat_lit(case["nobjs"]), C.list_lit([C.bool_lit(d) for d in case["dirs"]]), bl,
                                   C.list_lit([sol_lit(m) for m in case["set"]]), rl)


# ----------------------------------------------------------------------------
# independent oracle (English statement, exact on Fractions)
# ----------------------------------------------------------------------------
def oracle_bounds(case):
    """(mins, maxs) as Fractions, or None when the constructor must reject the reference set"""
    b = case["bounds"]
    if b[0] == "mm":
        return [Fraction(x) for x in b[1]], [Fraction(x) for x in b[2]]
    feas = [m for m in b[1] if m[2] == 0.0]
    if not feas:
        return None
    n = case["nobjs"]
    return ([min(Fraction(m[1][i]) for m in feas) for i in range(n)],
            [max(Fraction(m[1][i]) for m in feas) for i in range(n)])


def oracle_points(case, bounds):
    """goodness coordinates (larger = better, reference at 0, clipped at the ideal = 1) of the
    feasible members that are not worse than the nadir; None if some range is empty"""
    mins, maxs = bounds
    eps = Fraction(2) ** -52
    if any(abs(hi - lo) < eps for lo, hi in zip(mins, maxs)):
        return None
    pts = []
    for sid, o, cv in case["set"]:
        if cv != 0.0:
            continue
        g = []
        for x, lo, hi, mx in zip(o, mins, maxs, case["dirs"]):
            z = (Fraction(x) - lo) / (hi - lo)
            if mx:                      # larger is better: nadir at 0, ideal at 1
                if z < 0:
                    g = None
                    break
                g.append(min(z, Fraction(1)))
            else:                       # smaller is better: nadir at 1, ideal at 0
                if z > 1:
                    g = None
                    break
                g.append(1 - max(z, Fraction(0)))
        if g is not None:
            pts.append(tuple(g))
    return pts


def union_volume(pts):
    """volume of the union of the boxes [0,p], by inclusion-exclusion over the distinct points"""
    pts = sorted(set(pts))
    total = Fraction(0)
    d = len(pts[0]) if pts else 0
    for r in range(1, len(pts) + 1):
        sgn = 1 if r % 2 else -1
        for sub in itertools.combinations(pts, r):
            v = Fraction(1)
            for k in range(d):
                v *= min(p[k] for p in sub)
                if v == 0:
                    break
            total += sgn * v
    return total


def pow2_bits(fr):
    """k with fr = m/2^k, or None if the denominator is not a power of two"""
    d = fr.denominator
    if d & (d - 1):
        return None
    return d.bit_length() - 1


def fexact(fr):
    """the rational fr is a binary64 float"""
    try:
        return Fraction(float(fr)) == fr
    except OverflowError:
        return False


def exactness(case, bounds):
    """True iff every float operation of the implementation on this case is exact, decided on Fractions alone
    (independently of the implementation): for every feasible member o - min, max - min and their quotient z are
    binary64 numbers (so the correctly rounded float operations return them), z is a multiple of 2^-h, and
    nobjs*h <= 52, so every clipped coordinate, product and sum inside calc_internal (values in [0,1], multiples
    of 2^-(nobjs*h)) is representable."""
    mins, maxs = bounds
    if not all(fexact(x) for x in list(mins) + list(maxs)):
        return False
    h = 0
    for sid, o, cv in case["set"]:
        if cv != 0.0:
            continue
        for i in range(case["nobjs"]):
            a, b = Fraction(o[i]) - mins[i], maxs[i] - mins[i]
            if b == 0:
                return True     # rejected input: nothing is computed
            z = a / b
            if not (fexact(a) and fexact(b) and fexact(z)):
                return False
            k = pow2_bits(z)
            if k is None:
                return False
            h = max(h, k)
    return case["nobjs"] * h <= 52


# ----------------------------------------------------------------------------
# the clauses of the property on the real code
# ----------------------------------------------------------------------------
def fresh_sid(case):
    ids = [m[0] for m in case["set"]]
    if case["bounds"][0] == "ref":
        ids += [m[0] for m in case["bounds"][1]]
    return max(ids + [0]) + 1


def with_set(case, newset):
    c = dict(case)
    c["set"] = newset
    return c


def check_clauses(ctx, case, res, rng, exact, tol, tag):
    """oracle: value = dominated volume; range; order / dominated / duplicate / repeated invariance; monotone."""
    bounds = oracle_bounds(case)
    if res[0] == "timeout":
        ctx.violation("hypervolume:does-not-terminate", "%s Hypervolume.calculate did not return within %.0fs on %r" % (tag, CALL_TIMEOUT, case_show(case)),
                      {"kind": "case", "case": case_json(case), "tol": tol})
        return
    if res[0] == "skipped":
        return
    pts = oracle_points(case, bounds) if bounds is not None else None
    if res[0] == "err":
        # the property is about inputs the code accepts; the only legitimate rejections are a reference set
        # without feasible members / empty, or an empty range
        legit = bounds is None or pts is None
        if not legit:
            ctx.violation("hypervolume:raises", "%s Hypervolume raised %s on %r" % (tag, res[2], case_show(case)),
                          {"kind": "case", "case": case_json(case), "tol": tol})
        return
    if pts is None:
        if any(m[2] == 0.0 for m in case["set"]) or bounds is None:
            return  # rejected input accepted silently would be odd, but is not part of the statement
        pts = []
    v = res[1]
    want = union_volume(pts)

    def differs(a, b, c2=None):
        # a variant that adds a point is compared exactly only if the float computation on it is exact as well
        ex = exact and (c2 is None or exactness(c2, bounds))
        return (Fraction(a) != Fraction(b)) if ex else abs(a - b) > (tol or 1e-9)

    def variant_failed(r2, c2, label):
        if r2[0] == "timeout":
            report("hypervolume:does-not-terminate", "%s: no result within %.0fs" % (label, CALL_TIMEOUT), c2)
        elif r2[0] == "err":
            b2 = oracle_bounds(c2)
            if b2 is not None and oracle_points(c2, b2) is not None:      # an input the statement covers
                report("hypervolume:raises", "%s: %s" % (label, r2[2]), c2)

    def report(key, what, c2=None):
        ctx.violation(key, "%s %s; case %r" % (tag, what, case_show(case)),
                      {"kind": "case", "case": case_json(case), "tol": tol, "variant": case_json(c2) if c2 else None})

    if differs(v, float(want) if not exact else want):
        report("hypervolume:value-differs-from-dominated-volume", "Hypervolume = %r but the dominated volume is %s (= %r)" % (v, want, float(want)))
    if not (0.0 <= v <= 1.0 + (0 if exact else tol)):
        report("hypervolume:out-of-range", "Hypervolume = %r is outside [0,1]" % v)
    st = list(case["set"])
    if len(st) >= 2:
        sh = st[:]
        rng.shuffle(sh)
        c2 = with_set(case, sh)
        r2 = run_impl(c2)
        ctx.count()
        if r2[0] == "ok" and differs(r2[1], v):
            report("hypervolume:order-dependent", "reordering the set changes the value %r -> %r" % (v, r2[1]), c2)
        else:
            variant_failed(r2, c2, "reordered set")
    feas = [m for m in st if m[2] == 0.0]
    nid = fresh_sid(case)
    if st:
        # the same object listed twice
        m = rng.choice(st)
        pos = rng.randrange(len(st) + 1)
        c2 = with_set(case, st[:pos] + [m] + st[pos:])
        r2 = run_impl(c2)
        ctx.count()
        if r2[0] == "ok" and differs(r2[1], v):
            report("hypervolume:repeated-object-changes-value", "listing object %d twice changes the value %r -> %r" % (m[0], v, r2[1]), c2)
        else:
            variant_failed(r2, c2, "repeated object")
        # a duplicate (a different object with the same objectives)
        c2 = with_set(case, st[:pos] + [(nid, list(m[1]), m[2])] + st[pos:])
        r2 = run_impl(c2)
        ctx.count()
        if r2[0] == "ok" and differs(r2[1], v):
            report("hypervolume:duplicate-changes-value", "adding a duplicate of object %d changes the value %r -> %r" % (m[0], v, r2[1]), c2)
        else:
            variant_failed(r2, c2, "duplicate")
    if feas:
        # a point that is no better than an existing feasible member in every objective
        m = rng.choice(feas)
        step = [rng.choice([0.0, 0.125, 0.25, 0.5, 1.0]) for _ in range(case["nobjs"])]
        worse = [x - s if mx else x + s for x, s, mx in zip(m[1], step, case["dirs"])]
        pos = rng.randrange(len(st) + 1)
        c2 = with_set(case, st[:pos] + [(nid, worse, 0.0)] + st[pos:])
        r2 = run_impl(c2)
        ctx.count()
        if r2[0] == "ok" and differs(r2[1], v, c2):
            report("hypervolume:dominated-point-changes-value", "adding %r (no better than %r anywhere) changes the value %r -> %r" % (worse, m[1], v, r2[1]), c2)
        else:
            variant_failed(r2, c2, "dominated point")
    # adding any point never decreases the value
    if bounds is not None:
        lo, hi = bounds
        newp = []
        for i in range(case["nobjs"]):
            a, b = float(lo[i]), float(hi[i])
            w = b - a
            newp.append(a + w * rng.choice([-0.5, 0.0, 0.125, 0.25, 0.5, 0.75, 1.0, 1.5]) if exact else rng.uniform(a - 0.3 * w, b + 0.3 * w))
        pos = rng.randrange(len(st) + 1)
        c2 = with_set(case, st[:pos] + [(nid, newp, 0.0)] + st[pos:])
        r2 = run_impl(c2)
        ctx.count()
        if r2[0] == "ok" and (r2[1] < v - (0 if (exact and exactness(c2, bounds)) else (tol or 1e-9))):
            report("hypervolume:decreases-when-point-added", "adding %r decreases the value %r -> %r" % (newp, v, r2[1]), c2)
        else:
            variant_failed(r2, c2, "added point")


# ----------------------------------------------------------------------------
# object / instance history: the value must depend on the arguments only
# ----------------------------------------------------------------------------
LONG_LIVED = {}          # (nobjs, minimum, maximum) -> one Hypervolume instance re-used across cases with different directions
REUSE = {"sequences": 0, "long_lived_calls": 0}


def deep_state(sols):
    return [(id(s), list(s.objectives), list(s.constraints), list(s.variables), s.constraint_violation, s.feasible, s.evaluated) for s in sols]


def set_directions_in_place(p, dirs):
    from platypus import Direction
    p.directions[:] = [Direction.MAXIMIZE if d else Direction.MINIMIZE for d in dirs]


def long_lived_result(case):
    """the same case through ONE Hypervolume(minimum, maximum) instance that earlier cases (other problems, other direction
    vectors) already used"""
    from platypus import Hypervolume
    b = case["bounds"]
    key = (case["nobjs"], tuple(b[1]), tuple(b[2]))
    try:
        with time_limit(CALL_TIMEOUT):
            if key not in LONG_LIVED:
                LONG_LIVED[key] = Hypervolume(minimum=list(b[1]), maximum=list(b[2]))
            p, ref, st = build_objects(case)
            REUSE["long_lived_calls"] += 1
            return ("ok", LONG_LIVED[key].calculate(st))
    except CallTimeout:
        State.timeouts += 1
        return ("timeout",)
    except Exception as e:  # noqa
        return ("err", ERRMAP.get(type(e).__name__, "other:" + type(e).__name__), "%s: %s" % (type(e).__name__, e))


def check_reuse(ctx, case, res, rng, exact, tol, tag):
    """calculate called repeatedly on the SAME Solution objects with the SAME indicator instance: same set twice, a permutation,
    a superset, the set again, the problem's directions re-declared in place; calculate must not modify the solutions"""
    from platypus import Hypervolume
    if res[0] != "ok" or State.timeouts >= MAX_TIMEOUTS:
        return
    b0 = oracle_bounds(case)
    if b0 is None or oracle_points(case, b0) is None:
        return      # bounds the constructor / normalize rejects as soon as a feasible member is present
    rp = {"kind": "reuse", "case": case_json(case), "tol": tol}

    def viol(key, what):
        ctx.violation(key, "%s %s; case %r" % (tag, what, case_show(case)), rp)

    def differs(a, b):
        return (a != b) if exact else abs(a - b) > tol
    try:
        with time_limit(4 * CALL_TIMEOUT):
            p, ref, st = build_objects(case)
            hv = Hypervolume(reference_set=ref) if ref is not None else Hypervolume(minimum=list(case["bounds"][1]), maximum=list(case["bounds"][2]))
            everyone = list({id(s): s for s in (ref or []) + st}.values())
            before = deep_state(everyone)
            v1 = hv.calculate(st)
            if deep_state(everyone) != before:
                viol("hypervolume:calculate-modifies-solutions", "Hypervolume.calculate changed objectives/constraints/variables of its arguments: %r -> %r" % (
                    [b[1] for b in before], [b[1] for b in deep_state(everyone)]))
                return
            if differs(v1, res[1]):
                viol("hypervolume:changes-on-re-evaluation", "fresh objects give %r, other fresh objects give %r" % (res[1], v1))
            v2 = hv.calculate(st)
            if differs(v2, v1):
                viol("hypervolume:changes-on-re-evaluation", "the same call on the same objects: %r then %r" % (v1, v2))
            sh = st[:]
            rng.shuffle(sh)
            v3 = hv.calculate(sh)
            if differs(v3, v1):
                viol("hypervolume:changes-on-re-evaluation", "same objects reordered after a first call: %r then %r" % (v1, v3))
            bnds = oracle_bounds(case)
            if bnds is not None:
                extra = plat.mk_solution(p, [float(lo) + float(hi - lo) * rng.choice([0.0, 0.25, 0.5, 1.0]) for lo, hi in zip(*bnds)], 0.0)
                v4 = hv.calculate(st + [extra])
                if v4 < v1 - (tol or 1e-9):
                    viol("hypervolume:changes-on-re-evaluation", "same objects plus one more after earlier calls: %r then %r (decreases)" % (v1, v4))
            v5 = Hypervolume(reference_set=ref).calculate(st) if ref is not None else Hypervolume(minimum=list(case["bounds"][1]), maximum=list(case["bounds"][2])).calculate(st)
            if differs(v5, v1):
                viol("hypervolume:changes-on-re-evaluation", "a fresh indicator on objects measured before: %r, first measurement %r" % (v5, v1))
            if deep_state(everyone) != before:
                viol("hypervolume:calculate-modifies-solutions", "after repeated calls the solutions differ from their initial state")
                return
            # re-declare the directions in place on the same Problem; same indicator instance, same objects
            if case["bounds"][0] == "mm" and st:
                dirs2 = [rng.random() < 0.5 for _ in case["dirs"]]
                if dirs2 == list(case["dirs"]):
                    dirs2[rng.randrange(len(dirs2))] ^= True
                set_directions_in_place(p, dirs2)
                v6 = hv.calculate(st)
                c2 = dict(case)
                c2["dirs"] = dirs2
                pts = oracle_points(c2, bnds)
                if pts is not None:
                    want = union_volume(pts)
                    if (exact and Fraction(v6) != want) or (not exact and abs(v6 - float(want)) > tol):
                        ctx.violation("hypervolume:depends-on-indicator-history",
                                      "%s the same Hypervolume instance after problem.directions[:] = %r (was %r) returns %r, the dominated volume is %s; case %r" % (
                                          tag, dirs2, case["dirs"], v6, want, case_show(case)), dict(rp, dirs2=dirs2))
            ctx.count(7)
            REUSE["sequences"] += 1
    except CallTimeout:
        State.timeouts += 1
        viol("hypervolume:does-not-terminate", "repeated calls on the same objects did not return")
    except Exception as e:  # noqa
        viol("hypervolume:raises", "repeated calls on the same objects raised %s: %s" % (type(e).__name__, e))


# ----------------------------------------------------------------------------
# generators
# ----------------------------------------------------------------------------
BOUNDS = [(0.0, 1.0), (0.0, 2.0), (-1.0, 1.0), (0.0, 4.0), (1.0, 2.0), (-2.0, 2.0), (0.0, 0.5)]


def gen_grid_case(rng, nobjs, dirs, maxn):
    grid = rng.choice([0.125, 0.25])
    bnd = [rng.choice(BOUNDS) if rng.random() < 0.7 else (0.0, 1.0) for _ in range(nobjs)]
    n = rng.choice([0, 1, 1, 2, 2, 3, 3, 4, 4, 5, 5, 6, 7, 8, 9][:maxn + 6])
    n = min(n, maxn)
    pools = []
    for (lo, hi) in bnd:
        w = hi - lo
        cand = [lo + w * f for f in (-0.5, -0.25, 0.0, 0.125, 0.25, 0.375, 0.5, 0.625, 0.75, 0.875, 1.0, 1.25, 1.5)]
        cand = [c for c in cand if (c / grid) == int(c / grid)] or [lo, hi]
        inside = [c for c in cand if lo <= c <= hi]
        k = rng.choice([2, 3, 3, 4, 6])
        pool = rng.sample(inside, min(k, len(inside)))
        if rng.random() < 0.5:
            pool += rng.sample(cand, min(2, len(cand)))     # values on / beyond both bounds
        if rng.random() < 0.3:
            pool += [lo, hi]
        pools.append(pool)
    members = []
    sid = 0
    for _ in range(n):
        r = rng.random()
        if members and r < 0.12:
            members.append(rng.choice(members))                                  # the same object again
        elif members and r < 0.24:
            m = rng.choice(members)
            members.append((sid, list(m[1]), m[2]))                              # duplicate
            sid += 1
        elif members and r < 0.40:
            m = rng.choice(members)
            o = list(m[1])
            for i in range(nobjs):
                if rng.random() < 0.5:
                    o[i] = rng.choice(pools[i])                                  # ties in some coordinates
            members.append((sid, o, 0.0))
            sid += 1
        else:
            cv = 0.0 if rng.random() < 0.85 else rng.choice([0.5, 1.0, 2.0 ** -60])
            members.append((sid, [rng.choice(pools[i]) for i in range(nobjs)], cv))
            sid += 1
    if rng.random() < 0.3:
        # bounds through a reference set whose feasible members span exactly the bounds
        ref = []
        rs = 100
        corners = [[b[0] for b in bnd], [b[1] for b in bnd]]
        for c in corners:
            ref.append((rs, c, 0.0))
            rs += 1
        for _ in range(rng.randrange(0, 4)):
            ref.append((rs, [rng.choice([c for c in pools[i] if bnd[i][0] <= c <= bnd[i][1]] or [bnd[i][0]]) for i in range(nobjs)],
                        0.0 if rng.random() < 0.7 else 1.0))
            rs += 1
        if rng.random() < 0.15:
            ref.append((rs, [b[1] + 1.0 for b in bnd], 0.5))                     # infeasible member outside: must not move the bounds
            rs += 1
        if rng.random() < 0.12:
            ref = [r for r in ref if rng.random() < 0.5]                          # ranges that are no power of two / degenerate / empty
        rng.shuffle(ref)
        if members and ref and rng.random() < 0.3:
            members.insert(rng.randrange(len(members) + 1), rng.choice(ref))     # a reference object listed in the set
        bounds = ("ref", ref)
    else:
        mins, maxs = [b[0] for b in bnd], [b[1] for b in bnd]
        if rng.random() < 0.04:
            i = rng.randrange(nobjs)
            maxs[i] = mins[i]                                                    # empty range
        bounds = ("mm", mins, maxs)
    return {"nobjs": nobjs, "dirs": list(dirs), "bounds": bounds, "set": members}


def gen_float_case(rng, nobjs, dirs, maxn):
    big = rng.random() < 0.35       # huge common magnitude, small spread: (o - min)/(max - min) is accurate there, o*scale - min*scale is not
    bnd = []
    for _ in range(nobjs):
        if big:
            lo = rng.choice([1e15, -2e15, 3e15, 4e12, -4e12, 2.0 ** 50, -2.0 ** 45, 7e13])
            bnd.append((lo, lo + rng.choice([3.0, 6.0, 5.0, 1.0, 7.0, 12.0])))
        else:
            lo = rng.uniform(-3, 3)
            bnd.append((lo, lo + rng.uniform(0.1, 5)))
    n = rng.randrange(0, maxn + 1)

    def val(lo, hi):
        if big and rng.random() < 0.7:
            return lo + rng.randrange(-2, int((hi - lo) * 4) + 3) / 4.0
        return rng.uniform(lo - 0.3 * (hi - lo), hi + 0.3 * (hi - lo))
    members = []
    for sid in range(n):
        if members and rng.random() < 0.2:
            m = rng.choice(members)
            o = [x if rng.random() < 0.5 else val(lo, hi) for x, (lo, hi) in zip(m[1], bnd)]
        else:
            o = [val(lo, hi) for (lo, hi) in bnd]
        members.append((sid, o, 0.0 if rng.random() < 0.9 else 0.25))
    if big and members and rng.random() < 0.5:
        members.append((n, [hi if mx else lo for (lo, hi), mx in zip(bnd, dirs)], 0.0))        # a solution on the ideal point
    return {"nobjs": nobjs, "dirs": list(dirs), "bounds": ("mm", [b[0] for b in bnd], [b[1] for b in bnd]), "set": members, "large_offset": big}


# "large offset" family: every objective o replaced by m*o + O with a huge common offset O (or 0) and m in {1,3,5,6,7}, so the ranges are
# 2^j, 3*2^j, 5*2^j, ... and the normalised values stay the same dyadics.
# The unchanged normalisation (o - min) / (max - min) is EXACT on these inputs (o - min is exact, the division by a power of
# two is exact) although |o| / range is ~1e12..1e15; an algebraically equivalent o*scale - min*scale is not.
OFFSETS = [2.0 ** 40, -2.0 ** 40, 2.0 ** 45, -2.0 ** 45, 2.0 ** 50, -2.0 ** 50, float(round(1e15)), -float(round(1e15)), 4e12, -4e12]


MULTS = [1.0, 1.0, 3.0, 5.0, 6.0, 7.0]        # ranges 3*2^j, 5*2^j, ...: the division is exact whenever the quotient is dyadic


def _shift_vec(v, off):
    """m*v + off coordinate-wise (off = list of (offset, multiplier)), or None if some result is not a binary64 number"""
    out = []
    for x, (o, m) in zip(v, off):
        y = m * x + o
        if Fraction(y) != Fraction(m) * Fraction(x) + Fraction(o):
            return None
        out.append(y)
    return out


def _shift_members(ms, off):
    out = []
    for sid, o, cv in ms:
        v = _shift_vec(o, off)
        if v is None:
            return None
        out.append((sid, v, cv))
    return out


def shift_case(case, rng):
    n = case["nobjs"]
    for attempt in range(6):
        off = [(rng.choice((OFFSETS + [0.0, 0.0]) if attempt < 4 else OFFSETS[:2]), rng.choice(MULTS)) for _ in range(n)]
        st = _shift_members(case["set"], off)
        if st is None:
            continue
        b = case["bounds"]
        if b[0] == "mm":
            lo, hi = _shift_vec(b[1], off), _shift_vec(b[2], off)
            if lo is None or hi is None:
                continue
            nb = ("mm", lo, hi)
        else:
            rf = _shift_members(b[1], off)
            if rf is None:
                continue
            nb = ("ref", rf)
        return {"nobjs": n, "dirs": list(case["dirs"]), "bounds": nb, "set": st, "large_offset": True}
    return None


FIXED_CASES = [
    # DESIGN.md section 7 #3: maximised objective better than the ideal / worse than the nadir
    {"nobjs": 2, "dirs": [True, True], "bounds": ("mm", [0.0, 0.0], [1.0, 1.0]), "set": [(0, [2.0, 0.5], 0.0)]},
    {"nobjs": 2, "dirs": [True, True], "bounds": ("mm", [0.0, 0.0], [1.0, 1.0]), "set": [(0, [-0.5, 0.5], 0.0), (1, [0.25, 0.25], 0.0)]},
    {"nobjs": 2, "dirs": [True, False], "bounds": ("mm", [0.0, 0.0], [1.0, 1.0]), "set": [(0, [1.5, -0.5], 0.0), (1, [0.5, 1.5], 0.0)]},
    # #4: the same object listed twice
    {"nobjs": 2, "dirs": [False, False], "bounds": ("mm", [0.0, 0.0], [1.0, 1.0]), "set": [(0, [0.25, 0.25], 0.0), (0, [0.25, 0.25], 0.0)]},
    {"nobjs": 3, "dirs": [False, True, False], "bounds": ("mm", [0.0, 0.0, 0.0], [1.0, 1.0, 1.0]),
     "set": [(0, [0.25, 0.5, 0.25], 0.0), (1, [0.5, 0.75, 0.125], 0.0), (0, [0.25, 0.5, 0.25], 0.0)]},
    # ties in the sliced coordinate (reduce_set's `i += 1` after a swap)
    {"nobjs": 2, "dirs": [False, False], "bounds": ("mm", [0.0, 0.0], [1.0, 1.0]),
     "set": [(0, [0.25, 0.5], 0.0), (1, [0.5, 0.5], 0.0), (2, [0.125, 0.5], 0.0), (3, [0.75, 0.25], 0.0)]},
    {"nobjs": 3, "dirs": [False, False, False], "bounds": ("mm", [0.0, 0.0, 0.0], [1.0, 1.0, 1.0]),
     "set": [(0, [0.25, 0.5, 0.5], 0.0), (1, [0.5, 0.25, 0.5], 0.0), (2, [0.5, 0.5, 0.25], 0.0), (3, [0.25, 0.25, 0.5], 0.0), (4, [0.75, 0.125, 0.5], 0.0)]},
    # empty set, no feasible member, everything beyond the nadir
    {"nobjs": 2, "dirs": [False, False], "bounds": ("mm", [0.0, 0.0], [1.0, 1.0]), "set": []},
    {"nobjs": 2, "dirs": [False, True], "bounds": ("mm", [0.0, 0.0], [1.0, 1.0]), "set": [(0, [0.5, 0.5], 1.0)]},
    {"nobjs": 2, "dirs": [False, True], "bounds": ("mm", [0.0, 0.0], [1.0, 1.0]), "set": [(0, [1.5, 0.5], 0.0), (1, [0.5, -0.25], 0.0)]},
    # reference set: empty / without a feasible member
    {"nobjs": 2, "dirs": [False, False], "bounds": ("ref", []), "set": [(0, [0.5, 0.5], 0.0)]},
    {"nobjs": 2, "dirs": [False, False], "bounds": ("ref", [(100, [0.0, 1.0], 1.0)]), "set": [(0, [0.5, 0.5], 0.0)]},
    {"nobjs": 2, "dirs": [False, False], "bounds": ("ref", [(100, [0.0, 1.0], 0.0), (101, [1.0, 0.0], 0.0)]),
     "set": [(100, [0.0, 1.0], 0.0), (0, [0.5, 0.5], 0.0), (101, [1.0, 0.0], 0.0)]},
]


def is_nontrivial(case, pts):
    if pts is None or len(set(pts)) < 2:
        return False
    st = case["set"]
    tie = any(len({p[k] for p in set(pts)}) < len(set(pts)) for k in range(case["nobjs"]))
    rep = len({m[0] for m in st}) < len(st)
    dup = len(set(pts)) < len(pts)
    infeas = any(m[2] != 0.0 for m in st)
    clipped = any(g in (0, 1) for p in pts for g in p)
    dropped = len(pts) < len([m for m in st if m[2] == 0.0])
    return tie or rep or dup or infeas or clipped or dropped or any(case["dirs"])


def run(ctx):
    rng = ctx.rng
    State.timeouts = 0
    cases = [dict(c) for c in FIXED_CASES]
    maxn = ctx.scale(8, 10)
    per = ctx.scale(24, 120)
    for nobjs in (2, 3, 4, 5):
        alld = list(itertools.product([False, True], repeat=nobjs))
        for dirs in alld:
            k = per if nobjs <= 3 else max(2, per * 8 // len(alld))
            for _ in range(k * (3 if nobjs == 2 else 1)):
                cases.append(gen_grid_case(rng, nobjs, dirs, maxn if nobjs < 5 else min(maxn, 7)))
                if rng.random() < 0.3:
                    sc = shift_case(cases[-1], rng)
                    if sc is not None:
                        cases.append(sc)
    dist = {"n_objs": {}, "set_size": {}, "bounds": {"explicit": 0, "reference_set": 0}, "impl_result": {"value": 0, "exception": 0},
            "with_repeated_object": 0, "with_duplicate": 0, "with_infeasible": 0, "with_point_beyond_bounds": 0, "with_coordinate_tie": 0,
            "large_offset(objectives around +-2^40..2^50, 1e15, 4e12 with ranges 1/2..8)": 0, "direction_vectors": set()}
    lits, kept, inexact, skipped = [], [], 0, 0
    lits_ll, kept_ll = [], []
    LONG_LIVED.clear()
    REUSE["sequences"] = REUSE["long_lived_calls"] = 0
    for case in cases:
        bounds = oracle_bounds(case)
        if bounds is not None and not exactness(case, bounds):
            inexact += 1
            continue
        res = run_impl(case)
        ctx.count()
        if res[0] == "skipped":
            skipped += 1
            continue
        if res[0] == "err" and res[1].startswith("other:"):
            ctx.violation("hypervolume:raises", "Hypervolume raised %s on %r" % (res[2], case_show(case)), {"kind": "case", "case": case_json(case), "tol": 0})
            continue
        pts = oracle_points(case, bounds) if bounds is not None else None
        st = case["set"]
        dist["n_objs"][case["nobjs"]] = dist["n_objs"].get(case["nobjs"], 0) + 1
        dist["set_size"][len(st)] = dist["set_size"].get(len(st), 0) + 1
        dist["bounds"]["explicit" if case["bounds"][0] == "mm" else "reference_set"] += 1
        dist["impl_result"]["value" if res[0] == "ok" else "exception"] += 1
        dist["direction_vectors"].add(tuple(case["dirs"]))
        dist["large_offset(objectives around +-2^40..2^50, 1e15, 4e12 with ranges 1/2..8)"] += bool(case.get("large_offset"))
        dist["with_repeated_object"] += len({m[0] for m in st}) < len(st)
        dist["with_infeasible"] += any(m[2] != 0.0 for m in st)
        if pts is not None:
            dist["with_duplicate"] += len(set(pts)) < len(pts)
            dist["with_point_beyond_bounds"] += (len(pts) < len([m for m in st if m[2] == 0.0])) or any(g in (0, 1) for p in pts for g in p)
            dist["with_coordinate_tie"] += any(len({p[k] for p in set(pts)}) < len(set(pts)) for k in range(case["nobjs"]))
        if is_nontrivial(case, pts):
            ctx.mark(repr(case_json(case)))
        if res[0] != "timeout":
            lits.append(case_lit(case, res))
            kept.append(case)
        check_clauses(ctx, case, res, rng, True, 0, "[dyadic grid, exact]")
        check_reuse(ctx, case, res, rng, True, 0, "[dyadic grid, exact]")
        if case["bounds"][0] == "mm" and res[0] in ("ok", "err"):
            r2 = long_lived_result(case)
            ctx.count()
            if r2[0] in ("ok", "err") and not (r2[0] == "err" and r2[1].startswith("other:")):
                lits_ll.append(case_lit(case, r2))
                kept_ll.append(case)
            if r2[:2] != res[:2]:
                ctx.violation("hypervolume:depends-on-indicator-history",
                              "a Hypervolume(minimum, maximum) instance already used for other problems / direction vectors returns %r, a fresh instance %r; case %r" % (
                                  r2[1:], res[1:], case_show(case)), {"kind": "case", "case": case_json(case), "tol": 0})
    dist["direction_vectors"] = len(dist["direction_vectors"])
    dist["discarded_inexact"] = inexact
    dist["skipped_after_timeouts"] = skipped
    for c in (kept[len(FIXED_CASES):len(FIXED_CASES) + 2] + kept[-2:]):
        ctx.sample(case_show(c))
    if lits:
        ctx.sample({"coq_case": lits[min(len(lits) - 1, len(FIXED_CASES) + 3)]})

    # arbitrary floats: oracle only, tolerance 1e-9
    nfl = ctx.scale(250, 4000)
    for t in range(nfl):
        nobjs = rng.choice([2, 2, 3, 3, 4, 5])
        dirs = [rng.random() < 0.5 for _ in range(nobjs)]
        case = gen_float_case(rng, nobjs, dirs, 7 if nobjs < 5 else 6)
        res = run_impl(case)
        ctx.count()
        check_clauses(ctx, case, res, rng, False, 1e-9, "[arbitrary floats, tolerance 1e-9]")
        check_reuse(ctx, case, res, rng, False, 1e-9, "[arbitrary floats, tolerance 1e-9]")
    dist["arbitrary_float_cases(oracle only, tolerance 1e-9)"] = nfl
    ctx.coverage["input_distribution"] = dist
    ctx.coverage["timeouts"] = State.timeouts
    ctx.coverage["re_evaluation_sequences(same objects and indicator: twice, permuted, superset, fresh indicator, directions re-declared in place)"] = REUSE["sequences"]
    ctx.coverage["calls_through_long_lived_indicator_instances"] = REUSE["long_lived_calls"]
    ctx.rule = ("function cases on dyadic grids (coordinates k/8 or k/4, bounds [0,1],[0,2],[-1,1],[0,4],[1,2],[-2,2],[0,.5] or a reference set spanning them): "
                "2-5 objectives x every direction vector, 0-%d listed solutions with duplicates, single-coordinate ties, values on and beyond both bounds, infeasible members, "
                "the same object listed twice, reference objects listed in the set, rejected bounds; a 'large offset' family (the same sets with every objective mapped to m*o+O, O in {0, +-2^40, 2^45, 2^50, 1e15, 4e12}, m in {1,3,5,6,7} (ranges 3*2^j, 5*2^j, ... too), "
                "explicit bounds and reference sets shifted alike: the unchanged (o-min)/(max-min) is exact there); a case is kept only if every float operation is exact "
                "(decided on Fractions: o-min, max-min and the quotient are binary64 numbers, clipped coordinates multiples of 2^-h with nobjs*h <= 52), else discarded and counted. "
                "non-trivial = at least two distinct points enter the volume AND (a coordinate tie, a repeated object, a duplicate, an infeasible member, a clipped or dropped "
                "point, or a maximised objective); distinct by full input. evaluations counts every call of the real Hypervolume (cases + metamorphic variants + float cases)" % maxn)
    if lits:
        imports = ["Base.Num", "Model.Indicators", "Model.Hypervolume", "Harness.H15"]
        bad = C.run_coq_cases(ctx, "calc", imports, "c15case", "c15_check", lits, shard=ctx.scale(150, 300))
        if bad is not None:
            ctx.obligation("correspondence:hv_indicator=Hypervolume(...)(set) exactly (%d cases)" % len(lits), "correspondence", not bad,
                           "model and implementation differ on cases %r; first: %s" % (bad[:10], lits[bad[0]] if bad else ""))
            ctx.coverage["correspondence_cases"] = len(lits)
            ctx.coverage["correspondence_mismatches"] = len(bad)
            for i in bad[:5]:
                ctx.sample({"model_impl_disagree": case_show(kept[i])}, limit=12)
                # search: the oracle clauses already ran on this input; run them on its neighbourhood (sub-sets)
                for j in range(len(kept[i]["set"])):
                    c2 = with_set(kept[i], kept[i]["set"][:j] + kept[i]["set"][j + 1:])
                    check_clauses(ctx, c2, run_impl(c2), rng, True, 0, "[neighbourhood of a model/implementation disagreement]")
        if lits_ll:
            bad3 = C.run_coq_cases(ctx, "reused", imports, "c15case", "c15_check", lits_ll, shard=ctx.scale(150, 300))
            if bad3 is not None:
                ctx.obligation("correspondence:hv_indicator=result of a long-lived Hypervolume instance re-used across problems (%d cases)" % len(lits_ll), "correspondence", not bad3,
                               "model and re-used indicator instance differ on cases %r; first: %s" % (bad3[:10], lits_ll[bad3[0]] if bad3 else ""))
        bad2 = C.run_coq_cases(ctx, "spec", imports, "c15case", "c15_spec_check", lits, shard=ctx.scale(150, 300))
        if bad2 is not None:
            ctx.obligation("test:hv_model=hv_spec evaluated on every correspondence case (%d cases)" % len(lits), "test", not bad2,
                           "model differs from hv_spec on cases %r; first: %s" % (bad2[:10], lits[bad2[0]] if bad2 else ""))
    else:
        ctx.obligation("correspondence:hv_indicator", "correspondence", False, "no case could be evaluated on the implementation")


def replay(ctx, data):
    rp = data.get("replay", {})
    if rp.get("kind") == "reuse":
        import random
        State.timeouts = 0
        case = case_from_json(rp["case"])
        res = run_impl(case)
        ctx.sample({"replayed": case_show(case), "result": repr(res)})
        for seed in range(8):
            check_reuse(ctx, case, res, random.Random(seed), rp.get("tol", 0) == 0, rp.get("tol", 0), "[replay]")
    elif rp.get("kind") == "case":
        State.timeouts = 0
        tol = rp.get("tol", 0)
        for j in [rp["case"]] + ([rp["variant"]] if rp.get("variant") else []):
            case = case_from_json(j)
            res = run_impl(case)
            ctx.count()
            ctx.sample({"replayed": case_show(case), "result": repr(res)})
            import random
            for seed in range(8):
                check_clauses(ctx, case, res, random.Random(seed), tol == 0, tol, "[replay]")
    else:
        run(ctx)
