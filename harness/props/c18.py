"""C18 — benchmark problems compute their published functions; samplers hit the front.

Tie between model and code: TRANSLATOR.  prebuild() regenerates coq/Gen/Problems.v from the current
platypus/problems.py (harness/translate/py2coq.py, fail-closed) before the Coq build, so every theorem of
Props/C18.v is re-checked against what the code says now.  run() then runs the differential oracle on the real
code for all 43 problem classes (the search for a concrete failing input when a proof no longer checks, and the
only coverage of the classes that have no theorem).
"""
import math
import numbers
import os
import random as pyrandom
import sys

from vlib import common as C

sys.path.insert(0, os.path.join(C.VERIF, "harness", "translate"))
import py2coq  # noqa: E402
from props import c18_ref as R  # noqa: E402

ID = "C18"
PROPS_FILE = "Props/C18.v"
COQ_TARGETS = []
ALLOWED_AXIOMS = [
    "ClassicalDedekindReals.sig_forall_dec",
    "ClassicalDedekindReals.sig_not_dec",
    "FunctionalExtensionality.functional_extensionality_dep",
    "Classical_Prop.classic",
]
META = {
    "level_text": "Machine-checked proofs (Coq, over the real numbers) about Gallina functions that are REGENERATED from platypus/problems.py by a fail-closed "
                  "Python-AST translator on every run (all 40 real-valued problem classes except UF11/UF12 and every WFG helper are generated). Proved, for every supported size: "
                  "ZDT1-4,6 (n >= 2), DTLZ1-4 (every M >= 1, n >= M-1), DTLZ7, UF1-10 (n >= 3 resp. 5), CF1-10 incl. their constraint values: generated = published formula written independently "
                  "from the papers, exactly nobjs objectives (and nconstrs constraints for CF1/CF3); front bounds: ZDT g >= 1 and f2 >= front(f1); DTLZ1 sum f = (1+g)/2 >= 1/2; "
                  "DTLZ2-4 sum f^2 = (1+g)^2 >= 1 (telescoping-product induction, all M); UF1-4,7 f2 >= front(f1) (fold invariants); WFG4-9: the FULL clause "
                  "sum (f_m/2m)^2 >= 1 for every in-bounds z and every nobjs on the translated evaluate pipelines, via range lemmas of s_linear, s_multi, s_decept, b_param, r_sum, r_nonsep (each maps [0,1] into [0,1], "
                  "_correct_to_01 modelled literally) and the concave-shape identity; exception-freedom (*_defined) for ZDT1-4,6, DTLZ1-4,7, UF1-10 and the scalar WFG transformations; WFG4/WFG5 whole-problem equality with the published composition; "
                  "DTLZ sampler construction meets the front equation with equality. All 43 classes and the DTLZ/WFG samplers are covered on the real code by a differential oracle "
                  "against independent reference implementations (ZDT1-6, DTLZ1-4,7, UF1-10, UF13, CF1-10, WFG1-9; relative tolerance 1e-9), output count/finiteness checks at corners, "
                  "boundary and random points, front inequalities, and sampler checks (in-bounds, front equation to 1e-9, mutual non-dominance: a batch fails when one sample is better "
                  "than another by more than 1e-9 in EVERY objective).",
    "level_note": "Theorems are over Coq's classical real numbers: binary64 rounding and libm are NOT modelled (on the front a float result may undershoot by ulps; the oracle uses 1e-9 slack). "
                  "Axioms (Print Assumptions): ClassicalDedekindReals.sig_forall_dec, ClassicalDedekindReals.sig_not_dec, FunctionalExtensionality.functional_extensionality_dep "
                  "(the standard library's construction of R) and Classical_Prop.classic (standard-library facts about exp/ln/Rpower/sqrt). "
                  "Trusted: the translator's reading of Python (float->R with literals read as written decimals, int->Z, list->list R, the helpers of coq/Base/RList.v; self.k/self.m/nconstrs resolved from the constructors; "
                  "DTLZ4's constructor parameter alpha is a parameter of the generated function and math.pow(x, alpha) is read as the real power exp(alpha ln x), 0^alpha = 0, so the DTLZ4 theorems hold for every real alpha, exception-freedom for alpha >= 0), the reference formulas of coq/Model/ProblemsRef.v being the published ones. "
                  "Phase 3: r_nonsep(y,|y|) in [0,1] is proved (cyclic reindexing, |a-b| <= a+b-2ab, fractional-part bound, integer maximisation), so the WFG6 and WFG9 clauses are full theorems "
                  "(hypotheses M >= 2 and M-1 <= |z|); all of UF1-10 and CF1-10 have gen_eq_ref (CF: objectives AND constraint values; CF8-10 all three objectives) and out_length; "
                  "WFG4 and WFG5 are additionally proved equal to the published composition as whole problems. "
                  "NOT proved (differential oracle only): whole-pipeline gen_eq_ref for WFG6-9 (their lower bound is proved), the WFG1-3 classes and shapes (convex/mixed/linear/disc), "
                  "UF11-13, ZDT3's front curve (the property asks g >= 1 for ZDT, which is proved), ZDT5 (binary, outside the translator), *_defined for CF1-10 and the list-level "
                  "WFG pipelines (index ranges of _subvector/_r_sum, non-empty groups), WFG sampler statements over the reals. UF11/UF12 have no independent reference (count/finiteness only). "
                  "Sampler non-dominance: a pair is reported only when one sample is better by > 1e-9 in every objective; float-vector dominance with a tie within 1e-9 in some objective "
                  "(DTLZ4.random: cos of an angle < 1.5e-8 rounds to exactly 1.0) is counted in the evidence, not reported. Recorded known findings: WFG1.random/UF13.random off-front "
                  "(rounding of 0.35*2i/(2i) amplified by the 0.02 power), DTLZ7.random/WFG2.random batches not mutually non-dominated (disconnected fronts).",
    "technique": "Coq proof over Reals about a model regenerated from the Python source by a fail-closed AST translator + differential oracle against independent reference implementations",
}

# classes/functions whose generated definitions the theorems of Props/C18.v use: a translation failure breaks an obligation
REQUIRED = ["DTLZ1", "DTLZ2", "DTLZ3", "DTLZ4", "DTLZ7", "ZDT1", "ZDT2", "ZDT3", "ZDT4", "ZDT6", "UF1", "UF2", "UF3", "UF4", "UF7",
            "_correct_to_01", "_create_A", "_calculate_x", "_concave", "_calculate_f", "_WFG_calculate_f", "_WFG4_shape",
            "_normalize_z", "_s_linear", "_s_multi", "_s_decept", "_b_param", "_subvector", "_r_sum", "_r_nonsep",
            "_WFG1_t1", "_WFG2_t3", "_WFG4_t1", "_WFG5_t1", "_WFG6_t2", "_WFG7_t1", "_WFG8_t1", "_WFG9_t1", "_WFG9_t2",
            "WFG4", "WFG5", "WFG6", "WFG7", "WFG8", "WFG9", "UF5", "UF6", "CF1", "CF3", "UF8", "UF9", "UF10", "CF8", "CF9", "CF10", "CF2", "CF4", "CF5", "CF6", "CF7"]
GEN_FILE = os.path.join(C.COQ, "Gen", "Problems.v")
TOL = 1e-9
_TR = {}


# ---------------------------------------------------------------------------------------------- translator
def prebuild(ctx):
    """regenerate coq/Gen/Problems.v from the current source (only rewritten when its content changes)"""
    text, res = py2coq.translate_repo(C.REPO)
    with C.BuildLock():
        changed = py2coq.write_if_changed(GEN_FILE, text + "\n")
    _TR["results"] = res
    _TR["changed"] = changed
    _TR["text"] = text


SELFTEST_REJECT = [
    ("while", "def _correct_to_01(a):\n    while a > 1.0:\n        a = a - 1.0\n    return a\n", "While"),
    ("lambda", "def _correct_to_01(a):\n    f = lambda t: t\n    return f(a)\n", "Lambda"),
    ("try", "def _correct_to_01(a):\n    try:\n        return a\n    except Exception:\n        return 0.0\n", "Try"),
    ("unknown call", "def _correct_to_01(a):\n    return math.gamma(a)\n", "math.gamma"),
    ("truthiness", "def _correct_to_01(a):\n    if a:\n        return 1.0\n    else:\n        return a\n", "non-boolean"),
    ("range step", "def _r_sum(y, w):\n    return sum([y[i] for i in range(0, len(y), 2)])\n", "range"),
    ("comprehension filter", "def _r_sum(y, w):\n    return sum([v for v in y if v > 0.0])\n", "condition"),
    ("global store", "def _correct_to_01(a):\n    global Z\n    return a\n", "Global"),
    ("attribute", "def _correct_to_01(a):\n    return a.real\n", "attribute"),
    ("chained comparison", "def _correct_to_01(a):\n    return 0.0 if 0.0 <= a <= 1.0 else a\n", "chained"),
]


def translator_selftest(ctx):
    bad = []
    for what, src, needle in SELFTEST_REJECT:
        name = src.split("(")[0].split()[1]
        t = py2coq.Translator("import math\n" + src)
        t.run(classes=[], functions=[name])
        r = t.results[name]
        if r["ok"] or needle.lower() not in r["error"].lower():
            bad.append("%s: %r" % (what, r))
    ctx.obligation("translator:fail-closed-selftest(%d constructs rejected by name)" % len(SELFTEST_REJECT), "translator", not bad, "; ".join(bad))
    # comments, docstrings, blank lines and renaming of the method parameters do not change the output
    with open(os.path.join(C.REPO, "platypus", "problems.py")) as f:
        src = f.read()
    noisy = src.replace("    def evaluate(self, solution):\n", "    def evaluate(self, solution):\n        \"\"\"docstring\"\"\"\n        # a comment\n\n")
    with open(os.path.join(C.REPO, "platypus", "_math.py")) as f:
        msrc = f.read()
    a, _ = py2coq.Translator(src, msrc).run()
    b, _ = py2coq.Translator(noisy, msrc).run()
    ctx.obligation("translator:insensitive-to-comments-and-docstrings", "translator", a == b and a == _TR.get("text"), "")


# ---------------------------------------------------------------------------------------------- real code access
def make(cls, args):
    from platypus import problems as P
    return getattr(P, cls)(*args)


def bounds(p):
    return [(float(t.min_value), float(t.max_value)) for t in p.types]


def evaluate(p, x):
    from platypus import Solution
    s = Solution(p)
    s.variables[:] = list(x)
    p.evaluate(s)
    return list(s.objectives[:]), list(s.constraints[:])


def is_real(v):
    return isinstance(v, numbers.Real) and not isinstance(v, bool) and math.isfinite(v)


def close(a, b):
    return abs(a - b) <= TOL * max(1.0, abs(a), abs(b))


def configs(ctx):
    """(class, ctor args) for every supported configuration exercised"""
    Ms = ctx.scale((2, 3, 5), (2, 3, 4, 5, 8))
    out = []
    for M in Ms:
        out += [("DTLZ1", (M,)), ("DTLZ2", (M,)), ("DTLZ2", (M, M + 3)), ("DTLZ3", (M,)), ("DTLZ3", (M, M + 1)), ("DTLZ4", (M,)), ("DTLZ7", (M,))]
        # constructor parameters that change the formula: DTLZ4's alpha (the only one in problems.py besides nobjs/nvars;
        # the WFG classes do not expose k/l)
        out += [("DTLZ4", (M, a)) for a in (1.0, 2, 2.5, 10.0)]
        out += [("WFG%d" % i, (M,)) for i in range(1, 10)]
    for nv in ctx.scale((30, 10, 7), (30, 10, 7, 6, 15, 50)):
        out += [("UF%d" % i, (nv,)) for i in range(1, 11)]
        out += [("CF%d" % i, (nv,)) for i in range(1, 11)]
    out += [("UF11", ()), ("UF12", ()), ("UF13", ())]
    out += [("ZDT%d" % i, ()) for i in (1, 2, 3, 4, 6)]
    return out


def points(ctx, b, nrand):
    rng = ctx.rng
    n = len(b)
    lo = [u for u, _ in b]
    hi = [v for _, v in b]
    mid = [(u + v) / 2.0 for u, v in b]
    pts = [("corner-low", lo), ("corner-high", hi), ("centre", mid),
           ("corner-alt0", [lo[i] if i % 2 == 0 else hi[i] for i in range(n)]),
           ("corner-alt1", [hi[i] if i % 2 == 0 else lo[i] for i in range(n)]),
           ("first-low-rest-high", [lo[0]] + hi[1:]), ("first-high-rest-low", [hi[0]] + lo[1:]),
           ("wfg-optimal-distance", [u + 0.35 * (v - u) for u, v in b])]
    for _ in range(max(4, nrand // 6)):          # random corners
        pts.append(("corner-random", [rng.choice(bb) for bb in b]))
    for _ in range(max(4, nrand // 4)):          # boundary: some coordinates on a bound, others random
        x = [rng.uniform(u, v) for u, v in b]
        for i in range(n):
            r = rng.random()
            if r < 0.2:
                x[i] = lo[i]
            elif r < 0.4:
                x[i] = hi[i]
            elif r < 0.45:
                x[i] = math.nextafter(lo[i], hi[i])
            elif r < 0.5:
                x[i] = math.nextafter(hi[i], lo[i])
        pts.append(("boundary", x))
    for _ in range(nrand):
        pts.append(("random", [rng.uniform(u, v) for u, v in b]))
    return pts


# special parameter points of the transformation / shape functions and kinks of the piecewise parts, as fractions of each
# variable's declared range (WFG: z_i = y * 2i):  s_decept A-B, A, A+B = 0.349, 0.35, 0.351;  s_multi / s_linear C = A = 0.35;
# b_flat B, C = 0.75, 0.85;  the floor switch 0.5 of b_param / r_sum and of UF/CF (value 0 of a [-1,1] or [-2,2] variable, x1 = 0.5);
# period boundaries of s_multi (|y - C| / (2 (floor(C - y) + C)) = 0, 1/2) = 0, 0.35, 1;  thirds (j mod 3 families), quarters
SPECIAL = [0.0, 0.25, 1.0 / 3.0, 0.349, 0.35, 0.351, 0.5, 2.0 / 3.0, 0.75, 0.85, 1.0]


def n_position(cls, p):
    """how many leading variables are position-related"""
    if hasattr(p, "k"):
        return p.k
    if cls.startswith("DTLZ"):
        return p.nobjs - 1
    if cls in ("UF8", "UF9", "UF10", "CF8", "CF9", "CF10"):
        return 2
    return 1


def special_points(ctx, cls, p, b):
    """all position variables at fraction pf x all distance variables at fraction qf (+ one-ulp neighbours of the scaled values,
    + the variant that makes (z - lo)/(hi - lo) reproduce the fraction exactly when a neighbouring float does), single
    position/distance variables at a special fraction in an otherwise random point, and points on the kink manifolds
    y_j = 0 of the UF/CF families"""
    rng = ctx.rng
    n = len(b)
    k = max(0, min(n, n_position(cls, p)))

    def scaled(i, fr, mode):
        lo, hi = b[i]
        z = lo + fr * (hi - lo)
        if mode == "up":
            z = math.nextafter(z, hi)
        elif mode == "down":
            z = math.nextafter(z, lo)
        elif mode == "exact" and hi > lo:
            for c in (z, math.nextafter(z, hi), math.nextafter(z, lo)):
                if lo <= c <= hi and (c - lo) / (hi - lo) == fr:
                    z = c
                    break
        return min(hi, max(lo, z))
    out = []
    for pf in SPECIAL:
        for qf in SPECIAL:
            modes = ("plain", "exact", "up", "down") if (pf == qf or pf in (0.349, 0.35, 0.351) or qf in (0.349, 0.35, 0.351)) else ("plain",)
            for mode in modes:
                out.append(("special:%s" % mode, [scaled(i, pf if i < k else qf, mode) for i in range(n)]))
    for fr in SPECIAL:
        for mode in ("plain", "exact"):
            x = [rng.uniform(u, v) for u, v in b]
            i = rng.randrange(n)
            x[i] = scaled(i, fr, mode)
            out.append(("special:single", x))
    if cls.startswith(("UF", "CF")) and cls not in ("UF11", "UF12", "UF13"):
        for x1 in (0.0, 0.25, 0.5, 0.75, 1.0):
            for amp in ("1", "0.8x1", "2x2"):
                for fn in (math.sin, math.cos):
                    x = [scaled(i, 0.5, "plain") for i in range(n)]
                    x[0] = scaled(0, x1, "plain")
                    a = 1.0 if amp == "1" else (0.8 * x[0] if amp == "0.8x1" else 2.0 * x[1])
                    for j in range(2, n + 1):
                        ph = (6.0 if amp != "2x2" else 2.0) * math.pi * x[0] + j * math.pi / n
                        lo, hi = b[j - 1]
                        if not (amp == "2x2" and j == 2):
                            x[j - 1] = min(hi, max(lo, a * fn(ph)))
                    out.append(("special:kink-manifold", x))
    return out


def front_check(cls, f, x):
    """published front inequality of the property statement; returns None or (description)"""
    if cls == "DTLZ1":
        s = sum(f)
        return None if s >= 0.5 - TOL else "sum f = %r < 0.5" % s
    if cls in ("DTLZ2", "DTLZ3", "DTLZ4"):
        s = sum(v * v for v in f)
        return None if s >= 1.0 - TOL else "sum f^2 = %r < 1" % s
    if cls in ("ZDT1", "ZDT4"):
        return None if f[1] >= 1.0 - math.sqrt(f[0]) - TOL else "f2 = %r < 1 - sqrt(f1) = %r (g < 1)" % (f[1], 1.0 - math.sqrt(f[0]))
    if cls in ("ZDT2", "ZDT6"):
        return None if f[1] >= 1.0 - f[0] ** 2 - TOL else "f2 = %r < 1 - f1^2 = %r (g < 1)" % (f[1], 1.0 - f[0] ** 2)
    if cls == "ZDT3":
        fr = 1.0 - math.sqrt(f[0]) - f[0] * math.sin(10.0 * math.pi * f[0])
        return None if f[1] >= fr - TOL else "f2 = %r < value at g = 1: %r" % (f[1], fr)
    if cls in ("WFG4", "WFG5", "WFG6", "WFG7", "WFG8", "WFG9"):
        s = sum((f[i] / (2.0 * (i + 1))) ** 2 for i in range(len(f)))
        return None if s >= 1.0 - TOL else "sum (f_i/2i)^2 = %r < 1" % s
    if cls in ("UF1", "UF2", "UF3", "UF4", "UF7"):
        fr = R.uf_front(cls, f[0])
        return None if fr is None or f[1] >= fr - TOL else "f2 = %r < front(f1) = %r" % (f[1], fr)
    return None


def check_point(ctx, cls, args, p, x, tag="", record=True):
    """all per-evaluation clauses on one in-bounds input; returns list of (key, what)"""
    fails = []
    k = getattr(p, "k", None)
    ref = None
    try:
        ref = R.reference(cls, x, p.nobjs, k, alpha=getattr(p, "alpha", None))
        if ref is not None and not all(math.isfinite(v) for v in ref[0] + ref[1]):
            ref = "undefined"
    except (ZeroDivisionError, ValueError, OverflowError):
        ref = "undefined"      # the published definition itself is undefined here: outside the property
    try:
        f, c = evaluate(p, x)
    except Exception as e:  # noqa: BLE001
        if ref == "undefined":
            return [("undefined", "")]
        return [("%s.evaluate:raises:%s" % (cls, type(e).__name__), "%s%r.evaluate raised %s: %s at x=%r" % (cls, args, type(e).__name__, e, x))]
    if len(f) != p.nobjs:
        fails.append(("%s.evaluate:objective-count" % cls, "%d objectives stored, %d declared" % (len(f), p.nobjs)))
    if len(c) != p.nconstrs:
        fails.append(("%s.evaluate:constraint-count" % cls, "%d constraint values stored, %d declared" % (len(c), p.nconstrs)))
    if ref == "undefined":
        return fails or [("undefined", "")]
    if not all(is_real(v) for v in f):
        fails.append(("%s.evaluate:objective-not-a-finite-real" % cls, "objectives %r" % (f,)))
    if not all(is_real(v) for v in c):
        fails.append(("%s.evaluate:constraint-not-a-finite-real" % cls, "constraints %r" % (c,)))
    if fails:
        return [(kk, "%s%r at x=%r: %s" % (cls, args, x, w)) for kk, w in fails]
    if ref is not None:
        ro, rc = ref
        if len(ro) != len(f) or not all(close(a, b) for a, b in zip(f, ro)):
            fails.append(("%s.evaluate:differs-from-published-formula" % cls, "objectives %r, published formula gives %r" % (f, ro)))
        elif len(rc) != len(c) or not all(close(a, b) for a, b in zip(c, rc)):
            fails.append(("%s.evaluate:constraint-differs-from-published-formula" % cls, "constraints %r, published formula gives %r" % (c, rc)))
    fc = front_check(cls, f, x)
    if fc is not None:
        fails.append(("%s.evaluate:below-published-front" % cls, fc))
    return [(kk, "%s%r at x=%r: %s" % (cls, args, x, w)) for kk, w in fails]


def replay_eval(cls, args, x):
    return {"kind": "eval", "cls": cls, "args": list(args), "x": [repr(v) for v in x]}


# ---------------------------------------------------------------------------------------------- samplers
def dominates_robustly(a, b):
    """a is better than b by more than the slack in EVERY objective: no rounding of either vector can undo it"""
    return all(u < v - TOL for u, v in zip(a, b))


def dominates_with_near_tie(a, b):
    """a dominates b as float vectors by more than the slack in some objective, but at least one objective is tied
    within the slack: cannot be told from rounding (DTLZ4: cos of a tiny angle rounds to exactly 1.0, so (1.0, 1e-20)
    and (1.0, 4e-9) both lie on the unit sphere although one float vector dominates the other) -- counted, not reported"""
    return all(u <= v for u, v in zip(a, b)) and any(u < v - TOL for u, v in zip(a, b)) and not dominates_robustly(a, b)


def front_equation(cls, p, sol):
    f = list(sol.objectives[:])
    if cls == "DTLZ1":
        return abs(sum(f) - 0.5), "sum f = 0.5"
    if cls in ("DTLZ2", "DTLZ3", "DTLZ4"):
        return abs(sum(v * v for v in f) - 1.0), "sum f^2 = 1"
    if cls == "DTLZ7":
        return abs(R.dtlz7_front_residual(f)), "f_M = 2 (M - sum f_i/2 (1 + sin 3 pi f_i))  (g = 1)"
    if cls in ("WFG4", "WFG5", "WFG6", "WFG7", "WFG8", "WFG9"):
        return abs(sum((f[i] / (2.0 * (i + 1))) ** 2 for i in range(len(f))) - 1.0), "sum (f_i/2i)^2 = 1"
    # WFG1-3, UF13: distance-related parameter t_M = 0 (computed by the independent transformation pipeline)
    t = R.wfg_transform(cls, list(sol.variables[:]), p.k, p.nobjs)
    r = abs(t[-1])
    if cls == "WFG3":
        r = max(r, abs(sum(f[i] / (2.0 * (i + 1)) for i in range(len(f))) - 1.0))
        return r, "t_M = 0 and sum f_i/2i = 1"
    return r, "t_M = 0 (distance parameters optimal)"


def check_sampler(ctx, cls, args, seed, batch):
    """returns list of (key, what)"""
    p = make(cls, args)
    st = pyrandom.getstate()
    pyrandom.seed(seed)
    fails = []
    sols = []
    try:
        for _ in range(batch):
            sols.append(p.random())
    except Exception as e:  # noqa: BLE001
        pyrandom.setstate(st)
        return [("%s.random:raises" % cls, "%s%r.random() raised %s: %s (seed %d)" % (cls, args, type(e).__name__, e, seed))], []
    pyrandom.setstate(st)
    b = bounds(p)
    for s in sols:
        v = list(s.variables[:])
        f = list(s.objectives[:])
        if len(v) != p.nvars or not all(is_real(t) and lo <= t <= hi for t, (lo, hi) in zip(v, b)):
            fails.append(("%s.random:out-of-bounds" % cls, "variables %r" % (v,)))
            break
        if len(f) != p.nobjs or not all(is_real(t) for t in f):
            fails.append(("%s.random:objectives-not-finite-reals" % cls, "objectives %r" % (f,)))
            break
        res, eq = front_equation(cls, p, s)
        if not res <= TOL:
            fails.append(("%s.random:off-front" % cls, "front equation %s violated by %r: objectives %r variables %r" % (eq, res, f, v)))
            break
    objs = [list(s.objectives[:]) for s in sols]
    pairs = [(i, j) for i in range(len(objs)) for j in range(len(objs)) if i != j and dominates_robustly(objs[i], objs[j])]
    _TR["near_ties"] = _TR.get("near_ties", 0) + sum(1 for i in range(len(objs)) for j in range(len(objs)) if i != j and dominates_with_near_tie(objs[i], objs[j]))
    if pairs and not any(k.endswith("objectives-not-finite-reals") for k, _ in fails):
        i, j = pairs[0]
        fails.append(("%s.random:batch-not-mutually-nondominated" % cls,
                      "%d dominated ordered pairs among %d samples, e.g. %r dominates %r" % (len(pairs), len(objs), objs[i], objs[j])))
    return [(k, "%s%r.random() seed %d batch %d: %s" % (cls, args, seed, batch, w)) for k, w in fails], objs


# ---------------------------------------------------------------------------------------------- ZDT5 (binary)
def check_zdt5(ctx, n):
    from platypus import Solution
    p = make("ZDT5", ())
    rng = ctx.rng
    fails = []
    sizes = [30] + [5] * 10
    cases = [[[False] * s for s in sizes], [[True] * s for s in sizes]]
    for _ in range(n):
        cases.append([[rng.random() < rng.choice([0.1, 0.5, 0.9]) for _ in range(s)] for s in sizes])
    for bits in cases:
        s = Solution(p)
        s.variables[:] = bits
        ctx.count()
        try:
            p.evaluate(s)
        except Exception as e:  # noqa: BLE001
            fails.append(("ZDT5.evaluate:raises", "%s at %r" % (e, bits)))
            continue
        f = list(s.objectives[:])
        ro, _ = R.zdt5(bits)
        if len(f) != 2 or not all(is_real(v) for v in f):
            fails.append(("ZDT5.evaluate:objective-not-a-finite-real", "objectives %r at %r" % (f, bits)))
        elif not all(close(a, b) for a, b in zip(f, ro)):
            fails.append(("ZDT5.evaluate:differs-from-published-formula", "objectives %r, published %r at %r" % (f, ro, bits)))
        elif f[0] * f[1] < 1.0 - TOL:
            fails.append(("ZDT5.evaluate:below-published-front", "g = f1*f2 = %r < 1 at %r" % (f[0] * f[1], bits)))
        if any(bits[0]) and not all(bits[0]):
            ctx.mark("ZDT5:" + "".join("1" if b else "0" for v in bits for b in v))
    for k, w in fails:
        ctx.violation(k, w, {"kind": "zdt5", "what": w})
    return len(cases)


# ---------------------------------------------------------------------------------------------- run
# corpus (runs first, independent of VERIF_SEED): sampler batches that exhibit the recorded KNOWN findings
#   WFG1.random / UF13.random : off-front (one ulp of rounding in 0.35*2i/(2i) amplified by b_poly(., 0.02); every sample)
#   DTLZ7.random / WFG2.random: disconnected front surface sampled uniformly -> dominated samples in a batch
SAMPLER_CORPUS = [("WFG1", (2,), 360465237, 40), ("UF13", (), 1699183064, 40), ("DTLZ7", (2,), 17584423, 40), ("WFG2", (2,), 455146339, 40)]

SAMPLER_CLASSES = ["DTLZ1", "DTLZ2", "DTLZ3", "DTLZ4", "DTLZ7"] + ["WFG%d" % i for i in range(1, 10)] + ["UF13"]


def run(ctx):
    if not _TR:
        prebuild(ctx)
    res = _TR["results"]
    for name in REQUIRED:
        r = res.get(name, {"ok": False, "error": "not attempted"})
        ctx.obligation("translate:" + name, "translator", r["ok"], r["error"] or "; ".join(r.get("assumptions", [])))
    translator_selftest(ctx)
    with open(GEN_FILE) as f:
        ctx.obligation("gen-file-is-current-translation", "translator", f.read() == _TR["text"] + "\n", "coq/Gen/Problems.v differs from what the translator emits")
    ctx.coverage["translated"] = sorted(k for k, v in res.items() if v["ok"])
    ctx.coverage["not_translated"] = {k: v["error"] for k, v in res.items() if not v["ok"]}
    ctx.coverage["translated_without_theorem"] = sorted(k for k, v in res.items() if v["ok"] and k not in REQUIRED)
    ctx.coverage["translator_assumptions"] = sorted({a for v in res.values() for a in v.get("assumptions", [])})
    ctx.coverage["gen_file_rewritten_this_run"] = bool(_TR["changed"])
    ctx.assumptions += [
        "theorems are over the real numbers; float rounding and libm are not modelled (oracle tolerance 1e-9 relative)",
        "py2coq's reading of the accepted Python subset (see coq/Base/RList.v) is faithful",
        "coq/Model/ProblemsRef.v and harness/props/c18_ref.py state the published formulas (written from the papers)",
        "an input on which the published formula itself is undefined (division by zero, e.g. CF8-10 with f3 = 1) is outside the property",
    ]

    nrand = ctx.scale(40, 1500)
    dist = {}
    undefined = 0
    per_class = {}
    seen_classes = set()
    for cls, args in configs(ctx):
        p = make(cls, args)
        seen_classes.add(cls)
        b = bounds(p)
        for tag, x in points(ctx, b, nrand) + special_points(ctx, cls, p, b):
            ctx.count()
            fails = check_point(ctx, cls, args, p, x, tag)
            dist[tag] = dist.get(tag, 0) + 1
            per_class[cls] = per_class.get(cls, 0) + 1
            if fails and fails[0][0] == "undefined":
                undefined += 1
                continue
            if tag in ("boundary", "random", "corner-random", "corner-alt0", "corner-alt1") or tag.startswith("special"):
                ctx.mark((cls, args, tuple(x)))
            for k, w in fails:
                ctx.violation(k, w, replay_eval(cls, args, x))
        if len(ctx.samples) < 3:
            x = points(ctx, b, 1)[-1][1]
            ctx.sample({"class": cls, "ctor_args": list(args), "x": x, "objectives": evaluate(p, x)[0]})
    nz = check_zdt5(ctx, ctx.scale(60, 3000))
    per_class["ZDT5"] = nz
    seen_classes.add("ZDT5")

    # samplers
    batch = ctx.scale(40, 150)
    sampler_runs = 0
    reported = set()

    def report(fails, rp):
        for k, w in fails:
            if k not in reported:          # one violation per key
                reported.add(k)
                ctx.violation(k, w, rp)
    for cls, args, seed, cb in SAMPLER_CORPUS:
        fails, _objs = check_sampler(ctx, cls, args, seed, cb)
        sampler_runs += 1
        ctx.count(cb)
        ctx.mark(("sampler", cls, args, seed))
        report(fails, {"kind": "sampler", "cls": cls, "args": list(args), "seed": seed, "batch": cb})
    for cls in SAMPLER_CLASSES:
        for M in (ctx.scale((2, 3, 5), (2, 3, 4, 5, 8)) if cls != "UF13" else (5,)):
            args = () if cls == "UF13" else (M,)
            variants = [args] + ([(M, 1.0), (M, 2), (M, 10.0)] if cls == "DTLZ4" else [])
            for args in variants:
              for _rep in range(ctx.scale(1, 5)):
                seed = ctx.rng.getrandbits(31)
                fails, objs = check_sampler(ctx, cls, args, seed, batch)
                sampler_runs += 1
                ctx.count(batch)
                ctx.mark(("sampler", cls, args, seed))
                report(fails, {"kind": "sampler", "cls": cls, "args": list(args), "seed": seed, "batch": batch})
                if cls == "DTLZ2" and M == 3 and _rep == 0 and objs:
                    ctx.sample({"sampler": "DTLZ2(3).random()", "seed": seed, "first_objectives": objs[0]})
    ctx.coverage["classes_exercised"] = len(seen_classes)
    ctx.coverage["evaluations_per_class"] = per_class
    ctx.coverage["input_distribution"] = dist
    ctx.coverage["inputs_where_published_formula_is_undefined"] = undefined
    ctx.coverage["sampler_batches"] = sampler_runs
    ctx.coverage["sampler_batch_size"] = batch
    ctx.coverage["sampler_pairs_dominated_only_up_to_a_near_tie(not reported)"] = _TR.get("near_ties", 0)
    ctx.coverage["reference_tolerance_relative"] = TOL
    ctx.coverage["classes_with_independent_reference"] = 41
    ctx.rule = ("for each of the 43 classes and several supported nobjs/nvars: the corners (all-low, all-high, alternating, first-vs-rest), centre, the WFG optimal-distance point, "
                "random corners, boundary points (coordinates on a bound or one ulp inside), random in-bounds points from ctx.rng; the SPECIAL PARAMETER POINTS of the transformation/shape functions "
                "(fractions 0, 1/4, 1/3, 0.349, 0.35, 0.351, 1/2, 2/3, 0.75, 0.85, 1 of each variable's range: all position variables at p x all distance variables at q, with one-ulp neighbours and the "
                "float that reproduces the fraction exactly after normalisation; single variables at a special value; points on the kink manifolds y_j = 0 of the UF/CF families); ZDT5 on bit strings; "
                "sampler batches seeded from ctx.rng. non-trivial = boundary/random/mixed-corner point (coordinates not all at the same relative position) that the published "
                "formula is defined on, or a sampler batch; distinct by (class, ctor args, full input)")
    ctx.obligation("oracle:all-43-classes-exercised", "oracle", len(seen_classes) == 43, "exercised %d classes" % len(seen_classes))


def replay(ctx, data):
    rp = data.get("replay", {})
    kind = rp.get("kind")
    if kind == "eval":
        cls, args = rp["cls"], tuple(rp["args"])
        x = [float(v) for v in rp["x"]]
        p = make(cls, args)
        ctx.count()
        for k, w in check_point(ctx, cls, args, p, x):
            if k != "undefined":
                ctx.violation(k, "replay: " + w, rp)
    elif kind == "sampler":
        fails, _ = check_sampler(ctx, rp["cls"], tuple(rp["args"]), rp["seed"], rp["batch"])
        ctx.count(rp["batch"])
        for k, w in fails:
            ctx.violation(k, "replay: " + w, rp)
    else:
        prebuild(ctx)
        ok = C.coq_obligations(ctx, PROPS_FILE, COQ_TARGETS, ALLOWED_AXIOMS)  # noqa: F841
        run(ctx)
