"""C06 — variation operators return valid offspring and never modify their parents.

Tie: tape replay.  Every call of a real operator runs under a patched `random` module
(logging wrappers around a seeded / scripted `random.Random` instance) and a wrapped
`platypus.operators.clip` / `magnitude`; the logged tape is replayed by the Coq models
(Model/Operators.v, Model/RealOps.v) which must reproduce the children exactly.
Oracle (independent of the model): domain validity, NaN, parents unchanged (deep snapshots),
flag discipline, object freshness, symmetry, no exception — incl. reachable extreme draws.
"""
import contextlib
import functools
import json
import math
import os
import random as _random
import types as _pytypes
from fractions import Fraction

from vlib import common as C

ID = "C06"
PROPS_FILE = "Props/C06.v"
COQ_TARGETS = ["Harness/H06.vo"]
ALLOWED_AXIOMS = []
# second tie (translator): coq/Gen/Core.v is regenerated from the source text of C.REPO on every run and
# coq/Tie/T06.v proves generated definition = hand model (harness/translate/py2coq_core.py)
EXTRA_PROPS = ["Tie/T06.v"]


def prebuild(ctx):
    import os
    import sys
    sys.path.insert(0, os.path.join(C.VERIF, "harness", "translate"))
    import py2coq_core
    py2coq_core.prebuild(ctx, C, ["clip"])


META = {
    "level_text": "Machine-checked Coq proofs about executable models of all 16 variation operators and the 4 combinators: "
                  "clip_range (every value handed to clip ends in [lb,ub] and is not NaN, for EVERY float/inf/NaN candidate), every real-valued write goes "
                  "through clip (UM: is the uniform(lb,ub) draw), bit strings keep their length, Swap/Insertion/PMX outputs are permutations, Replace/SSX outputs "
                  "are duplicate-free subsets of the declared size, flag discipline (an offspring still marked evaluated is field-equal to the parent it was "
                  "copied from), PCX/UNDX meet no zero divisor for >= 2 parents (exact Q, repaired orthogonalize) and symmetry of HUX/PMX/SSX/SBX; for all tapes "
                  "(= all random-stream outcomes). The models are tied to /repo on every run by tape replay (children reproduced exactly by vm_compute), an AST "
                  "frame check (copy-before-write, evaluated=False with every store into variables, no instance state) and an independent oracle under reachable extreme draws. "
                  "Phase 2: exact-arithmetic models of the GUARDS of the scalar formulas (PM, SBX, NonUniformMutation._delta, SPX exponents) with proofs that for valid inputs "
                  "(lb < ub, lb <= x <= ub, eta >= 0, draws in [0,1)) no division by zero occurs and every power base is non-negative (PM base b in [0,1]; SBX beta in (0,1], "
                  "alpha in [1,2], 2 - alpha*rand > 0 because rand < 1); tied to the real run by tracing the locals of pm_mutation / sbx_crossover / _delta (sys.settrace) and "
                  "checking every traced guard quantity step by step against the model and its proved range in Coq.",
    "level_note": "Trusted: Coq kernel + VM; the harness (random/clip/magnitude wrappers, literal printer); the hand-written models are tied to the code on the sampled "
                  "calls only. pow itself, sqrt and the gauss-scaled vector sums are NOT interpreted (the candidate reaches the operator model as a DVal tape entry; "
                  "the powers t**(eta+1), t**perturbation are Section variables of which only [0,1] -> [0,1] is assumed). The formula-guard theorems are over exact rationals: "
                  "the float-rounding argument (sign / monotonicity of correctly rounded + - * /, Sterbenz) is written in Proofs/RealFormulasProofs.v and exercised by the oracle "
                  "(extreme-only draw streams, parents on bounds, tiny/huge ranges, eta in {0,1e-9,0.5,1,15,20,100,1e6}), not proved; guard traces with a value beyond 1e150 "
                  "(overflow) or with an exception are skipped and counted; DE and UniformMutation contain no partial operation; PCX/UNDX division safety is over exact rationals (rounding-sensitive calls are counted and "
                  "excluded from the replay, still checked by the oracle). 'Parents unchanged' is structural in a functional model and is covered by the frame check "
                  "and the driver's snapshots, not by a theorem. Hypotheses: lb <= ub for clip_range, >= 2 parents for PCX/UNDX, duplicate-free equal-set parents "
                  "for PMX, duplicate-free `elements` for Replace. Rejected configurations (not violations): Real(lb,lb) with PM, PCX/UNDX with one parent, "
                  "Subset(elements,0) with Replace, an int `probability` on a problem without a variable of the operator's type. "
                  "UM on bounds whose width overflows is NOT rejected any more (repaired in f6dc0d6: interpolation lb*(1-r)+ub*r, modelled over exact Q). No axioms.",
    "technique": "Coq proofs over executable operator models with an explicit random tape + tape-replay correspondence (vm_compute) + AST frame check + oracle",
}

EPS = 2.0 ** -52
TOP = 1.0 - 2.0 ** -53
HUGE = 1.7976931348623157e308


# ----------------------------------------------------------------------------
# specs -> real objects
# ----------------------------------------------------------------------------
def elems_of(ts):
    e = ts["elements"]
    if ts.get("ek") == "tuple":
        return [tuple(x) for x in e]
    return list(e)


def build_type(ts):
    from platypus import Real, Binary, Integer, Permutation, Subset
    k = ts["k"]
    if k == "Real":
        return Real(ts["lb"], ts["ub"])
    if k == "Binary":
        return Binary(ts["n"])
    if k == "Integer":
        return Integer(ts["lo"], ts["hi"])
    if k == "Permutation":
        return Permutation(elems_of(ts))
    if k == "Subset":
        return Subset(elems_of(ts), ts["size"])
    raise ValueError(k)


def build_problem(tspecs):
    from platypus import Problem
    p = Problem(len(tspecs), 2)
    for i, ts in enumerate(tspecs):
        p.types[i] = build_type(ts)
    return p


def conv_value(v, ts):
    k = ts["k"]
    if k == "Real":
        return float(v)
    if k in ("Binary", "Integer"):
        return [bool(b) for b in v]
    if ts.get("ek") == "tuple":
        return [tuple(x) for x in v]
    return list(v)


def build_solution(problem, ps, tspecs):
    from platypus import Solution
    s = Solution(problem)
    for i, (v, ts) in enumerate(zip(ps["vars"], tspecs)):
        s.variables[i] = conv_value(v, ts)
    s.objectives[:] = [float(x) for x in ps["objs"]]
    s.constraint_violation = 0.0
    s.feasible = True
    s.evaluated = bool(ps["evaluated"])
    return s


MUTATIONS = ("PM", "UM", "UniformMutation", "NonUniformMutation", "BitFlip", "Swap", "Insertion", "Replace", "CompoundMutation")


def build_op(sp):
    import platypus.operators as O
    n = sp["name"]
    if n == "PM":
        return O.PM(sp["probability"], sp.get("distribution_index", 20.0))
    if n == "UM":
        return O.UM(sp["probability"])
    if n == "UniformMutation":
        return O.UniformMutation(sp["probability"], sp.get("perturbation", 0.5))
    if n == "NonUniformMutation":
        alg = _pytypes.SimpleNamespace(nfe=sp.get("nfe", 100), swarm_size=sp.get("swarm_size", 10))
        return O.NonUniformMutation(sp["probability"], sp.get("perturbation", 0.5), sp.get("max_iterations", 50), alg)
    if n == "SBX":
        return O.SBX(sp["probability"], sp.get("distribution_index", 15.0))
    if n == "DE":
        return O.DifferentialEvolution(sp["probability"], sp.get("step_size", 0.5))
    if n == "PCX":
        return O.PCX(sp["nparents"], sp["noffspring"], sp.get("eta", 0.1), sp.get("zeta", 0.1))
    if n == "UNDX":
        return O.UNDX(sp["nparents"], sp["noffspring"], sp.get("zeta", 0.5), sp.get("eta", 0.35))
    if n == "SPX":
        return O.SPX(sp["nparents"], sp["noffspring"], sp.get("expansion"))
    if n == "BitFlip":
        return O.BitFlip(sp["probability"])
    if n in ("HUX", "Swap", "Insertion", "PMX", "Replace", "SSX"):
        return getattr(O, n)(sp["probability"])
    if n == "GAOperator":
        return O.GAOperator(build_op(sp["variation"]), build_op(sp["mutation"]))
    if n == "CompoundOperator":
        return O.CompoundOperator(*[build_op(v) for v in sp["variators"]])
    if n == "CompoundMutation":
        return O.CompoundMutation(*[build_op(v) for v in sp["variators"]])
    if n == "Multimethod":
        alg = _pytypes.SimpleNamespace()
        mm = O.Multimethod(alg, [build_op(v) for v in sp["variators"]], sp.get("update_frequency", 3))
        mm.next_variator = sp["next"]
        mm.arity = mm.variators[sp["next"]].arity
        return mm
    raise ValueError(n)


def op_arity(sp):
    n = sp["name"]
    if n in ("SBX", "HUX", "PMX", "SSX"):
        return 2
    if n == "DE":
        return 4
    if n in ("PCX", "UNDX", "SPX"):
        return sp["nparents"]
    if n == "GAOperator":
        return op_arity(sp["variation"])
    if n == "CompoundOperator":
        return op_arity(sp["variators"][0])
    if n == "Multimethod":
        return op_arity(sp["variators"][sp["next"]])
    return 1


def op_names(sp):
    out = [sp["name"]]
    for k in ("variation", "mutation"):
        if k in sp:
            out += op_names(sp[k])
    for v in sp.get("variators", []):
        out += op_names(v)
    return out


# ----------------------------------------------------------------------------
# Coq literals
# ----------------------------------------------------------------------------
def fval_lit(x):
    x = float(x)
    if x != x:
        return "FNaN"
    return "(FX %s)" % C.xq_lit(x)


def pxq(p):
    return C.xq_lit(p if isinstance(p, int) and not isinstance(p, bool) else float(p))


def prob_lit(p):
    if isinstance(p, int) and not isinstance(p, bool):
        return "(PInt %s)" % C.z_lit(p)
    return "(PFloat %s)" % C.xq_lit(float(p))


def desc_lit(sp):
    n = sp["name"]
    if n == "PM":
        return "(OPM %s)" % prob_lit(sp["probability"])
    if n == "UM":
        return "(OUM %s)" % prob_lit(sp["probability"])
    if n == "BitFlip":
        return "(OBitFlip %s)" % prob_lit(sp["probability"])
    if n in ("UniformMutation", "NonUniformMutation", "SBX", "DE", "HUX", "Swap", "Insertion", "PMX", "Replace", "SSX"):
        return "(O%s %s)" % (n, pxq(sp["probability"]))
    if n in ("PCX", "UNDX", "SPX"):
        return "(O%s %s %s)" % (n, C.nat_lit(sp["nparents"]), C.nat_lit(sp["noffspring"]))
    if n == "GAOperator":
        return "(OGA %s %s)" % (desc_lit(sp["variation"]), desc_lit(sp["mutation"]))
    if n == "CompoundOperator":
        return "(OCompoundOperator %s)" % C.list_lit([desc_lit(v) for v in sp["variators"]])
    if n == "CompoundMutation":
        return "(OCompoundMutation %s)" % C.list_lit([desc_lit(v) for v in sp["variators"]])
    if n == "Multimethod":
        return "(OMultimethod %s %s)" % (C.list_lit([desc_lit(v) for v in sp["variators"]]), C.nat_lit(sp["next"]))
    raise ValueError(n)


class Interner:
    """distinct elements (by ==) -> small ints"""
    def __init__(self):
        self.items = []

    def __call__(self, e):
        for i, x in enumerate(self.items):
            if type(x) is type(e) and x == e:
                return i
        self.items.append(e)
        return len(self.items) - 1


def type_lit(ts, t, intern):
    k = ts["k"]
    if k == "Real":
        return "(TReal %s %s)" % (C.xq_lit(t.min_value), C.xq_lit(t.max_value))
    if k in ("Binary", "Integer"):
        return "(TBinary %s)" % C.nat_lit(t.nbits)
    if k == "Permutation":
        return "(TPerm %s)" % C.list_lit([C.z_lit(intern(e)) for e in t.elements])
    return "(TSubset %s %s)" % (C.list_lit([C.z_lit(intern(e)) for e in t.elements]), C.nat_lit(t.size))


def var_lit(ts, v, intern):
    k = ts["k"]
    if k == "Real":
        return "(VReal %s)" % fval_lit(v)
    if k in ("Binary", "Integer"):
        return "(VBits %s)" % C.list_lit([C.bool_lit(b) for b in v])
    if k == "Permutation":
        return "(VPerm %s)" % C.list_lit([C.z_lit(intern(e)) for e in v])
    return "(VSub %s)" % C.list_lit([C.z_lit(intern(e)) for e in v])


def ksol_lit(tspecs, intern, variables, evaluated, objs, alias):
    return "(KS %s %s %s %s)" % (
        C.list_lit([var_lit(ts, v, intern) for ts, v in zip(tspecs, variables)]),
        C.bool_lit(evaluated), C.list_lit([C.xq_lit(float(o)) for o in objs]), C.z_lit(alias))


def tape_lit(tape):
    out = []
    for e in tape:
        k = e[0]
        if k == "U":
            out.append("DUnif %s" % C.xq_lit(e[1]))
        elif k == "I":
            out.append("DIdx %s" % C.nat_lit(e[1]))
        elif k == "B":
            out.append("DBit %s" % C.bool_lit(bool(e[1])))
        elif k == "G":
            out.append("DGauss %s" % C.xq_lit(e[1]))
        elif k == "V":
            out.append("DVal %s" % fval_lit(e[1]))
        elif k == "R":
            out.append("DRand %s" % C.xq_lit(e[1]))
        else:
            raise ValueError(k)
    return C.list_lit(out)


# ----------------------------------------------------------------------------
# random sources
# ----------------------------------------------------------------------------
class ScriptedRandom(_random.Random):
    """Extreme outcomes injected at the PRIMITIVE level (random(), getrandbits, _randbelow); CPython's own
    uniform / randrange / gauss derive their results, so only reachable draws occur.  Each primitive call is
    extreme with probability p_ext, genuine otherwise (so `while i == j` redraw loops terminate)."""

    def __init__(self, seed, p_ext, menu):
        super().__init__(seed)
        self._dec = _random.Random(seed * 7919 + 13)
        self.p_ext = p_ext
        self.menu = menu
        self.injected = 0

    def random(self):
        if self._dec.random() < self.p_ext:
            self.injected += 1
            return self._dec.choice(self.menu)
        return super().random()

    def getrandbits(self, k):
        if self._dec.random() < self.p_ext:
            self.injected += 1
            return self._dec.choice([0, (1 << k) - 1])
        return super().getrandbits(k)

    def _randbelow(self, n):
        if self._dec.random() < self.p_ext:
            self.injected += 1
            return self._dec.choice([0, n - 1])
        return _random.Random._randbelow_with_getrandbits(self, n)


def reachable(p):
    """a value random() can return: a multiple of 2^-53 in [0,1)"""
    return isinstance(p, float) and 0.0 <= p < 1.0 and (p * 2.0 ** 53).is_integer()


def make_rng(rs):
    if rs["mode"] == "log":
        return _random.Random(rs["seed"])
    return ScriptedRandom(rs["seed"], rs["p_ext"], [float(x) for x in rs["menu"]])


class Recorder:
    def __init__(self):
        self.tape = []
        self.suppress = 0
        self.iszero = []
        self.clips = []
        self.unexpected = []


@contextlib.contextmanager
def patched(inst, rec):
    import platypus.operators as OPS
    import platypus._math as PMATH
    saved = []

    def setp(obj, name, val):
        saved.append((obj, name, getattr(obj, name)))
        setattr(obj, name, val)

    def w_uniform(a, b):
        r = inst.uniform(a, b)
        if not rec.suppress:
            rec.tape.append(("U", r, a, b))
        return r

    def w_randrange(*a):
        r = inst.randrange(*a)
        if len(a) != 1:
            rec.unexpected.append("randrange%r" % (a,))
        if not rec.suppress:
            rec.tape.append(("I", r, a))
        return r

    def w_getrandbits(k):
        r = inst.getrandbits(k)
        if k != 1:
            rec.unexpected.append("getrandbits(%r)" % (k,))
        if not rec.suppress:
            rec.tape.append(("B", r))
        return r

    def w_gauss(mu=0.0, sigma=1.0):
        r = inst.gauss(mu, sigma)
        if not rec.suppress:
            rec.tape.append(("G", r))
        return r

    def w_other(name):
        def f(*a, **k):
            rec.unexpected.append(name)
            return getattr(inst, name)(*a, **k)
        return f

    def w_random():
        r = inst.random()
        if not rec.suppress:
            rec.tape.append(("R", r))
        return r

    setp(_random, "random", w_random)
    for name in ("randint", "choice", "choices", "shuffle", "sample", "normalvariate", "triangular",
                 "betavariate", "expovariate", "gammavariate", "lognormvariate", "vonmisesvariate", "paretovariate",
                 "weibullvariate", "randbytes"):
        if hasattr(_random, name):
            setp(_random, name, w_other(name))
    setp(_random, "uniform", w_uniform)
    setp(_random, "randrange", w_randrange)
    setp(_random, "getrandbits", w_getrandbits)
    setp(_random, "gauss", w_gauss)
    old_defaults = PMATH.random_vector.__defaults__
    PMATH.random_vector.__defaults__ = (functools.partial(w_gauss, 0.0, 1.0),)

    real_clip = OPS.clip

    def w_clip(value, lo, hi):
        rec.tape.append(("V", value))
        rec.clips.append((value, lo, hi))
        return real_clip(value, lo, hi)
    setp(OPS, "clip", w_clip)

    real_mag = PMATH.magnitude

    def w_mag(x):
        m = real_mag(x)
        rec.tape.append(("V", m))
        return m
    setp(OPS, "magnitude", w_mag)
    setp(PMATH, "magnitude", w_mag)

    real_iz = PMATH.is_zero

    def w_iz(x):
        r = real_iz(x)
        rec.iszero.append(([float(c) for c in x], bool(r)))
        return r
    setp(OPS, "is_zero", w_iz)
    setp(PMATH, "is_zero", w_iz)

    real_roulette = OPS.roulette

    def w_roulette(p):
        rec.suppress += 1
        try:
            r = real_roulette(p)
        finally:
            rec.suppress -= 1
        rec.tape.append(("I", r, (len(p),)))
        return r
    setp(OPS, "roulette", w_roulette)
    try:
        yield
    finally:
        for obj, name, val in reversed(saved):
            setattr(obj, name, val)
        PMATH.random_vector.__defaults__ = old_defaults


# ----------------------------------------------------------------------------
# canonical forms, snapshots
# ----------------------------------------------------------------------------
def canon(v):
    if isinstance(v, bool):
        return ("b", v)
    if isinstance(v, float):
        return ("f", v.hex() if v == v else "nan")
    if isinstance(v, int):
        return ("i", v)
    if isinstance(v, complex):
        return ("c", repr(v))
    if isinstance(v, (list, tuple)):
        return ("l" if isinstance(v, list) else "t",) + tuple(canon(x) for x in v)
    return ("o", repr(v))


def snapshot(s):
    d = {}
    for k, v in s.__dict__.items():
        if k == "problem":
            d[k] = id(v)
        elif hasattr(v, "_data"):
            d[k] = ("FLA", len(v), tuple(canon(x) for x in v._data))
        else:
            d[k] = canon(v)
    return d


def values_of(s, tspecs):
    out = []
    for i, ts in enumerate(tspecs):
        v = s.variables[i]
        out.append(list(v) if isinstance(v, list) else v)
    return out



# ----------------------------------------------------------------------------
# guard traces of the scalar formulas (Model/RealFormulas.v)
# ----------------------------------------------------------------------------
import ast as _ast
import inspect as _inspect
import sys as _sys
import textwrap as _textwrap


class GuardTracer:
    """Records, for every execution of PM.pm_mutation, SBX.sbx_crossover and NonUniformMutation._delta in the REAL run,
    the value each assignment statement gave to its target(s), in execution order (sys.settrace, line events)."""

    _CODES = None      # built once per process from the source of the loaded platypus.operators

    def __init__(self):
        if GuardTracer._CODES is None:
            GuardTracer._CODES = self._build()
        self.codes = GuardTracer._CODES
        self.traces = []

    @staticmethod
    def _build():
        import platypus.operators as O
        codes = {}
        for kind, fn in (("PM", O.PM.pm_mutation), ("SBX", O.SBX.sbx_crossover), ("NUM", O.NonUniformMutation._delta)):
            code = fn.__code__
            src = _textwrap.dedent(_inspect.getsource(fn))
            amap = {}
            for node in _ast.walk(_ast.parse(src)):
                if isinstance(node, (_ast.Assign, _ast.AugAssign)):
                    tl = node.targets if isinstance(node, _ast.Assign) else [node.target]
                    names = []
                    for t in tl:
                        for x in (t.elts if isinstance(t, (_ast.Tuple, _ast.List)) else [t]):
                            if isinstance(x, _ast.Name):
                                names.append(x.id)
                    if names:
                        amap[code.co_firstlineno + node.lineno - 1] = names
            codes[code] = (kind, amap)
        return codes

    def _global(self, frame, event, arg):
        if event != "call" or frame.f_code not in self.codes:
            return None
        kind, amap = self.codes[frame.f_code]
        loc = frame.f_locals
        me = loc.get("self")
        tr = {"kind": kind, "args": {k: v for k, v in loc.items() if k != "self"}, "seq": [], "raised": False}
        if kind in ("PM", "SBX"):
            tr["eta"] = getattr(me, "distribution_index", None)
        else:
            alg = getattr(me, "algorithm", None)
            tr["nfe"], tr["swarm"], tr["maxit"] = getattr(alg, "nfe", None), getattr(alg, "swarm_size", None), getattr(me, "max_iterations", None)
        self.traces.append(tr)
        state = {"prev": None}

        def local(fr, ev, a):
            if ev in ("line", "return", "exception"):
                pl = state["prev"]
                if pl in amap and ev != "exception":
                    for nm in amap[pl]:
                        if nm in fr.f_locals:
                            tr["seq"].append((nm, fr.f_locals[nm]))
                if ev == "exception":
                    tr["raised"] = True
                state["prev"] = fr.f_lineno if ev == "line" else None
            return local
        return local

    def __enter__(self):
        self._old = _sys.gettrace()
        _sys.settrace(self._global)
        return self

    def __exit__(self, *a):
        _sys.settrace(self._old)


def _finite(*vals):
    """finite and far from overflow (the exact model has no overflow: 2.0*(y1 - lb) = inf makes beta = 0.0 in floats)"""
    return all(isinstance(v, (int, float)) and not isinstance(v, bool) and v == v and abs(v) < 1e150 for v in vals)


def guard_cases(tr):
    """-> (list of Coq gcase literals, reason-if-not-usable).  Shape errors (the code no longer assigns what the
    model's steps describe) are reported as ('', 'shape: ...')."""
    q = C.q_lit
    names = [n for n, _v in tr["seq"]]
    vals = tr["seq"]
    if tr["raised"]:
        return [], "raised"
    if tr["kind"] == "PM":
        a = tr["args"]
        d = dict((n, v) for n, v in reversed(vals))        # first assignment of each name
        lo = "bl" in d
        if not ({"u", "dx", "b"} <= set(d)) or not (lo or "bu" in d):
            return [], "shape: PM.pm_mutation assigns %r" % (names,)
        frac = d["bl"] if lo else d["bu"]
        eta = tr["eta"]
        if not _finite(a.get("x"), a.get("lb"), a.get("ub"), d["u"], d["dx"], frac, d["b"], eta):
            return [], "non-finite"
        try:
            pv = pow(1.0 - frac, eta + 1.0)
        except Exception:       # noqa: BLE001
            return [], "non-finite"
        if not _finite(pv):
            return [], "non-finite"
        return ["GPM %s %s %s %s %s %s %s %s %s %s" % (C.bool_lit(lo), q(a["x"]), q(a["lb"]), q(a["ub"]), q(d["u"]), q(eta), q(pv),
                                                       q(d["dx"]), q(frac), q(d["b"]))], None
    if tr["kind"] == "SBX":
        a = tr["args"]
        eta = tr["eta"]
        x1, x2, lb, ub = a.get("x1"), a.get("x2"), a.get("lb"), a.get("ub")
        if not _finite(x1, x2, lb, ub, eta):
            return [], "non-finite"
        if names == ["dx"]:
            return ["GSBX0 %s %s" % (q(x1), q(x2))], None
        if "rand" not in names or names.count("beta") != 2 or "x1" not in names or "y1" not in names or "y2" not in names:
            return [], "shape: SBX.sbx_crossover assigns %r" % (names,)
        i1 = names.index("x1")
        i2 = names.index("x2", i1)
        d = dict((n, v) for n, v in reversed(vals[:i1]))
        y1, y2, rand = d["y1"], d["y2"], d["rand"]
        out = []
        for upper, part in ((False, vals[:i1]), (True, vals[i1:i2])):
            betas = [v for n, v in part if n == "beta"]
            alphas = [v for n, v in part if n == "alpha"]
            if len(betas) != 1 or len(alphas) not in (2, 3):
                return [], "shape: SBX side assigns %r" % ([n for n, _ in part],)
            beta = betas[0]
            if not _finite(y1, y2, rand, beta, *alphas):
                return [], "non-finite"
            first = len(alphas) == 2
            if (Fraction(rand) <= 1 / Fraction(alphas[0])) != (rand <= 1.0 / alphas[0]):
                return [], "inexact-branch"
            try:
                pv = pow(beta, eta + 1.0)
            except Exception:   # noqa: BLE001
                return [], "non-finite"
            out.append("GSIDE %s %s %s %s %s %s %s %s %s %s %s %s %s %s" % (
                C.bool_lit(upper), q(x1), q(x2), q(y1), q(y2), q(ub if upper else lb), q(rand), q(eta), q(pv), C.bool_lit(first),
                q(beta), q(alphas[0]), q(alphas[1]), q(alphas[-1])))
        return out, None
    if tr["kind"] == "NUM":
        d = dict((n, v) for n, v in reversed(vals))
        if "fraction" not in d:
            return [], "shape: NonUniformMutation._delta assigns %r" % (names,)
        if not _finite(tr["nfe"], tr["swarm"], tr["maxit"], d["fraction"]):
            return [], "non-finite"
        return ["GNUM %s %s %s %s" % (q(tr["nfe"]), q(tr["swarm"]), q(tr["maxit"]), q(d["fraction"]))], None
    return [], "shape: unknown kind"


# ----------------------------------------------------------------------------
# one call of a real operator
# ----------------------------------------------------------------------------
def run_call(opspec, tspecs, pspecs, rs, op=None, problem=None):
    """One call of the real operator.  op: an operator INSTANCE to reuse (None = build a fresh one);
    problem: a Problem OBJECT to reuse, its types being re-declared in place (None = a new Problem)."""
    if problem is None or problem.nvars != len(tspecs):
        problem = build_problem(tspecs)
    else:
        for i, ts in enumerate(tspecs):
            problem.types[i] = build_type(ts)
    parents = [build_solution(problem, ps, tspecs) for ps in pspecs]
    inst = make_rng(rs)
    rec = Recorder()
    res = {"exc": None, "children": None, "next": 0}
    with patched(inst, rec):
        if op is None:
            op = build_op(opspec)   # Multimethod's constructor draws: under the seeded source, log discarded
        rec.tape.clear()
        rec.iszero.clear()
        rec.clips.clear()
        before = [snapshot(p) for p in parents]
        containers = [[id(v) for v in p.variables._data if isinstance(v, list)] for p in parents]
        plist = list(parents)
        gt = GuardTracer()
        try:
            with gt:
                out = op.evolve(plist)
        except Exception as e:     # noqa: BLE001 — any exception is an observation for the oracle
            res["exc"] = (type(e).__name__, str(e)[:200])
            out = None
        res["guard_traces"] = gt.traces
        after = [snapshot(p) for p in parents]
        if opspec["name"] == "Multimethod" and res["exc"] is None:
            res["next"] = op.next_variator
    res["op"] = op
    res["tape"] = list(rec.tape)
    res["iszero"] = rec.iszero
    res["clips"] = rec.clips
    res["unexpected"] = rec.unexpected
    res["injected"] = getattr(inst, "injected", 0)
    res["parents"] = parents
    res["problem"] = problem
    res["changed"] = [i for i, (a, b) in enumerate(zip(before, after)) if a != b]
    res["list_order"] = [next((i for i, q in enumerate(parents) if q is p), -1) for p in plist]
    res["containers"] = containers
    res["out"] = out
    return res


# ----------------------------------------------------------------------------
# oracle (independent of the model)
# ----------------------------------------------------------------------------
def value_problem(t, v):
    """None if v is a valid value of type t, else a short description"""
    from platypus import Real, Binary, Permutation, Subset
    if isinstance(t, Real):
        if isinstance(v, bool) or not isinstance(v, (int, float)):
            return "not a real number: %r" % (v,)
        if v != v:
            return "NaN"
        if not (t.min_value <= v <= t.max_value):
            return "out of bounds: %r not in [%r, %r]" % (v, t.min_value, t.max_value)
        return None
    if isinstance(t, Binary):
        if not isinstance(v, list) or len(v) != t.nbits:
            return "bit string of wrong length: %r (declared %d)" % (v, t.nbits)
        if not all(isinstance(b, bool) for b in v):
            return "non-bool bit: %r" % (v,)
        return None
    if isinstance(t, Permutation):
        if not isinstance(v, list) or len(v) != len(t.elements):
            return "permutation of wrong length: %r" % (v,)
        rest = list(t.elements)
        for e in v:
            if e in rest:
                rest.remove(e)
            else:
                return "not a permutation of the declared elements: %r" % (v,)
        return None
    if isinstance(t, Subset):
        if not isinstance(v, list) or len(v) != t.size:
            return "subset of wrong size: %r (declared %d)" % (v, t.size)
        for i, e in enumerate(v):
            if e in v[:i]:
                return "duplicate in subset: %r" % (v,)
            if e not in t.elements:
                return "element not declared: %r" % (e,)
        return None
    return "unknown type"


def same_values(a, b):
    return canon(a) == canon(b)


def oracle_call(opspec, tspecs, pspecs, rs, r, allow_alias=False):
    """list of (key, what) violations observed on this call of the real operator"""
    name = opspec["name"]
    out = []
    if r["exc"] is not None:
        out.append(("%s:raises:%s" % (name, r["exc"][0]), "%s.evolve raised %s: %s" % (name, r["exc"][0], r["exc"][1])))
        if r["changed"]:
            out.append(("%s:parent-modified" % name, "parents %r modified (and the call raised)" % (r["changed"],)))
        return out
    children = r["out"]
    parents = r["parents"]
    problem = r["problem"]
    if not isinstance(children, list) or not all(hasattr(c, "variables") for c in children):
        out.append(("%s:result-not-a-list-of-solutions" % name, "evolve returned %r" % (children,)))
        return out
    if r["changed"]:
        out.append(("%s:parent-modified" % name, "parent(s) %r differ from their snapshot after the call" % (r["changed"],)))
    if sorted(r["list_order"]) != list(range(len(parents))):
        out.append(("%s:parents-list-changed" % name, "the parents list no longer holds the same solutions: %r" % (r["list_order"],)))
    for ci, c in enumerate(children):
        if c.problem is not problem:
            out.append(("%s:child-problem" % name, "child %d has another problem object" % ci))
        for i in range(problem.nvars):
            why = value_problem(problem.types[i], c.variables[i])
            if why is not None:
                kind = "nan" if why == "NaN" else "invalid"
                out.append(("%s:child-%s:%s" % (name, kind, tspecs[i]["k"]), "child %d variable %d (%s): %s" % (ci, i, tspecs[i]["k"], why)))
        is_parent = any(c is p for p in parents)
        if is_parent and not allow_alias:
            out.append(("%s:child-is-parent-object" % name, "child %d is the very object of a parent" % ci))
        if not is_parent:
            for pi, p in enumerate(parents):
                for v in c.variables._data:
                    if isinstance(v, list) and id(v) in r["containers"][pi]:
                        out.append(("%s:child-shares-container" % name, "child %d shares a variable list object with parent %d" % (ci, pi)))
        if c.evaluated:
            ok = False
            for p in parents:
                if (p.evaluated and all(same_values(c.variables[i], p.variables[i]) for i in range(problem.nvars))
                        and canon(list(c.objectives._data)) == canon(list(p.objectives._data))
                        and canon(list(c.constraints._data)) == canon(list(p.constraints._data))):
                    ok = True
            if not ok:
                out.append(("%s:flag-discipline" % name, "child %d is marked evaluated but equals no evaluated parent in variables+objectives" % ci))
    for (value, lo, hi) in r["clips"]:
        if not (isinstance(lo, float) and isinstance(hi, float) and lo <= hi):
            out.append(("%s:clip-bounds" % name, "clip called with bounds %r %r" % (lo, hi)))
    return out


def child_multiset(r, tspecs):
    return sorted(canon([c.variables[i] for i in range(len(tspecs))]) for c in r["out"])


# ----------------------------------------------------------------------------
# exactness of the comparisons the exact model decides (discard, count)
# ----------------------------------------------------------------------------
def count_for(opname, tspecs):
    if opname in ("PM", "UM"):
        return sum(1 for t in tspecs if t["k"] == "Real")
    return None


def inexact_reason(opspec, tspecs, pspecs, r):
    names = op_names(opspec)
    problem = r["problem"]
    if any(isinstance(e[1], float) and (e[1] != e[1] or abs(e[1]) == math.inf) for e in r["tape"] if e[0] in ("U", "R", "G")):
        return "non-finite draw (the primitive itself left the reals)"
    us = [Fraction(e[1]) for e in r["tape"] if e[0] == "U"]

    def chk_int_prob(sp):
        p = sp.get("probability")
        if isinstance(p, int) and not isinstance(p, bool):
            if sp["name"] in ("PM",):
                n = sum(1 for t in tspecs if t["k"] == "Real")
            elif sp["name"] == "BitFlip":
                n = sum(problem.types[i].nbits for i, t in enumerate(tspecs) if t["k"] in ("Binary", "Integer"))
            else:
                return None
            if n == 0:
                return None
            pf = p / float(n) if sp["name"] == "PM" else p / n
            pe = Fraction(p, n)
            for u in us:
                if (u <= Fraction(pf)) != (u <= pe):
                    return "int probability %d/%d: a draw falls between the float quotient and the exact one" % (p, n)
        return None

    def walk(sp):
        w = chk_int_prob(sp)
        if w:
            return w
        for k in ("variation", "mutation"):
            if k in sp:
                w = walk(sp[k])
                if w:
                    return w
        for v in sp.get("variators", []):
            w = walk(v)
            if w:
                return w
        return None
    w = walk(opspec)
    if w:
        return w
    if "UM" in names:
        rs_ = [e[1] for e in r["tape"] if e[0] == "R"]
        for t in tspecs:
            if t["k"] == "Real":
                lb, ub = float(t["lb"]), float(t["ub"])
                ovf = Fraction(ub) - Fraction(lb) >= Fraction(2) ** 1024 - Fraction(2) ** 970
                if math.isinf(ub - lb) != ovf:
                    return "UM: isinf(ub - lb) disagrees with the exact overflow threshold"
                if ovf:
                    for rr in rs_:
                        if Fraction(lb * (1.0 - rr) + ub * rr) != Fraction(lb) * (1 - Fraction(rr)) + Fraction(ub) * Fraction(rr):
                            return "UM: the float interpolation lb*(1-r)+ub*r is not exact"
    if "SBX" in names and len(pspecs) >= 2:
        for i, t in enumerate(tspecs):
            if t["k"] == "Real":
                x1, x2 = float(pspecs[0]["vars"][i]), float(pspecs[1]["vars"][i])
                if (abs(x2 - x1) > EPS) != (abs(Fraction(x2) - Fraction(x1)) > Fraction(EPS)):
                    return "SBX: the float subtraction decides abs(x2-x1) > EPSILON differently from exact arithmetic"
    if "PCX" in names or "UNDX" in names:
        k = len(pspecs)
        grid = all(abs(float(v)) <= 1024 and (float(v) * 2 ** 20).is_integer() for ps in pspecs for v in ps["vars"])
        g_exact = grid
        if grid:
            for j in range(len(tspecs)):
                s = sum(Fraction(float(ps["vars"][j])) for ps in pspecs) / k
                try:
                    if Fraction(float(s)) != s:
                        g_exact = False
                except OverflowError:
                    g_exact = False
        for vec, _res in r["iszero"]:
            m = max([abs(c) for c in vec] or [0.0])
            if m != m or m == math.inf:
                return "PCX/UNDX: non-finite vector"
            if 0.0 < m <= 2.0 ** -20:
                return "PCX/UNDX: an is_zero test on a vector of magnitude %g is rounding-sensitive" % m
            if m == 0.0 and not g_exact:
                return "PCX/UNDX: a float difference is exactly zero while the centroid is inexact"
    return None


# ----------------------------------------------------------------------------
# generators
# ----------------------------------------------------------------------------
BOUNDS = [(0.0, 1.0), (0.0, 1.0), (-1.0, 1.0), (-5.0, 5.0), (0.0, 8.0), (-8.0, -2.0), (0.25, 0.75), (0.1, 0.7),
          (-1e308, 1e308), (-HUGE, HUGE), (0.0, 1e-300), (1.0, 1.0000000000000002), (-3.0, 1e6),
          (0.0, 5e-324), (-1e-300, 1e-300), (1e300, 1.0000001e300), (-2.0 ** -1060, 2.0 ** -1060)]
SMALL_BOUNDS = [(0.0, 1.0), (0.0, 1.0), (-1.0, 1.0), (-4.0, 4.0), (0.0, 8.0), (0.25, 0.75)]
OVERFLOW_BOUNDS = [(-1.7e308, 1.7e308), (-1e308, 1e308), (-HUGE, HUGE), (-2.0 ** 1023, 2.0 ** 1023), (-1.5 * 2.0 ** 1023, 2.0 ** 1023),
                   (-2.0 ** 1023, 1.0), (-HUGE, 2.0 ** 970)]
PROBS = [1.0, 1.0, 0.5, 0.25, 0.3, 0.9, 0.0, 1]
ETAS = [20.0, 15.0, 0.5, 100.0, 0.0, 1e-9, 1e6, 1.0]
ELEMENT_POOLS = [("int", lambda n: list(range(n))),
                 ("int", lambda n: [10 * i + 3 for i in range(n)]),
                 ("str", lambda n: ["e%d" % i for i in range(n)]),
                 ("tuple", lambda n: [[i, i * i] for i in range(n)])]


def t_real(rng, small=False):
    lb, ub = rng.choice(SMALL_BOUNDS if small else BOUNDS)
    return {"k": "Real", "lb": lb, "ub": ub}


def t_binary(rng):
    if rng.random() < 0.25:
        lo = rng.randrange(-5, 5)
        return {"k": "Integer", "lo": lo, "hi": lo + rng.randrange(1, 40)}
    return {"k": "Binary", "n": rng.randrange(1, 9)}


def t_perm(rng):
    ek, f = rng.choice(ELEMENT_POOLS)
    return {"k": "Permutation", "ek": ek, "elements": f(rng.randrange(1, 9))}


def t_subset(rng):
    ek, f = rng.choice(ELEMENT_POOLS)
    n = rng.randrange(1, 8)
    size = n if rng.random() < 0.25 else rng.randrange(1, n + 1)
    return {"k": "Subset", "ek": ek, "elements": f(n), "size": size}


TGEN = {"Real": t_real, "Binary": t_binary, "Permutation": t_perm, "Subset": t_subset}


def _gen_types(rng, own, foreign_ok=True, nmax=4, small=False, n=None):
    n = n or rng.randrange(1, nmax + 1)
    kinds = [rng.choice(own)]
    while len(kinds) < n:
        if foreign_ok and rng.random() < 0.3:
            kinds.append(rng.choice(["Real", "Binary", "Permutation", "Subset"]))
        else:
            kinds.append(rng.choice(own))
    rng.shuffle(kinds)
    return [t_real(rng, small) if k == "Real" else TGEN[k](rng) for k in kinds]


def rand_real(rng, lb, ub, style):
    if style == "bound":
        return rng.choice([lb, ub])
    w = ub - lb
    if w == math.inf or w != w:
        return min(max(rng.choice([lb, ub, 0.0, lb / 2, ub / 2, 1.0, -1e300, 1e300 * rng.random()]), lb), ub)
    if style == "grid":
        return min(max(lb + w * (rng.randrange(0, 65) / 64.0), lb), ub)
    x = lb + w * rng.random()
    return min(max(x, lb), ub)


def nbits_of(ts):
    if ts["k"] == "Binary":
        return ts["n"]
    return int(math.log(int(ts["hi"]) - int(ts["lo"]), 2)) + 1


def rand_value(rng, ts, style):
    k = ts["k"]
    if k == "Real":
        return rand_real(rng, ts["lb"], ts["ub"], style)
    if k in ("Binary", "Integer"):
        n = nbits_of(ts)
        if style == "bound":
            b = rng.random() < 0.5
            return [b] * n
        return [rng.random() < 0.5 for _ in range(n)]
    els = list(ts["elements"])
    if k == "Permutation":
        if style != "bound":
            rng.shuffle(els)
        elif rng.random() < 0.5:
            els.reverse()
        return els
    rng.shuffle(els)
    return els[:ts["size"]]


def gen_parents(rng, tspecs, k, style):
    """style: random / bound / grid / identical / near / complement"""
    ps = []
    for i in range(k):
        if i > 0 and style == "identical":
            vs = json.loads(json.dumps(ps[0]["vars"]))
        elif i > 0 and style == "near":
            vs = []
            for v, ts in zip(ps[0]["vars"], tspecs):
                if ts["k"] == "Real":
                    y = v
                    for _ in range(rng.randrange(0, 3)):
                        y = math.nextafter(y, rng.choice([-math.inf, math.inf]))
                    vs.append(min(max(y, ts["lb"]), ts["ub"]))
                else:
                    vs.append(json.loads(json.dumps(v)))
        elif i > 0 and style == "complement":
            vs = []
            for v, ts in zip(ps[0]["vars"], tspecs):
                if ts["k"] in ("Binary", "Integer"):
                    vs.append([not b for b in v])
                elif ts["k"] == "Subset":
                    rest = [e for e in ts["elements"] if e not in v]
                    rng.shuffle(rest)
                    vs.append((rest + list(v))[:ts["size"]])
                elif ts["k"] == "Permutation":
                    vs.append(list(reversed(v)))
                else:
                    vs.append(rand_value(rng, ts, "random"))
        else:
            st = style if style in ("bound", "grid") else "random"
            vs = [rand_value(rng, ts, st) for ts in tspecs]
        ps.append({"vars": vs, "evaluated": rng.random() < 0.85,
                   "objs": [rng.randrange(-8, 9) / 4.0, float(i)]})
    return ps


def gen_vector_parents(rng, tspecs, k, style):
    """PCX / UNDX / SPX parents (all-real problems): random / grid / identical / centroid / collinear / bound"""
    n = len(tspecs)

    def grid_pt():
        return [t["lb"] + (t["ub"] - t["lb"]) * rng.randrange(0, 33) / 32.0 for t in tspecs]
    if style == "centroid" and k >= 3:
        # last parent = exact mean of the others: pick k-1 grid points whose sum is divisible by k-1
        while True:
            pts = [grid_pt() for _ in range(k - 1)]
            mean = [sum(Fraction(p[j]) for p in pts) / (k - 1) for j in range(n)]
            if all(Fraction(float(m)) == m and tspecs[j]["lb"] <= float(m) <= tspecs[j]["ub"] for j, m in enumerate(mean)) or k - 1 in (1, 2, 4):
                break
        pts.append([float(m) for m in mean])
    elif style == "collinear":
        a, b = grid_pt(), grid_pt()
        pts = []
        for _ in range(k):
            s = Fraction(rng.randrange(0, 9), 8)
            pts.append([float(Fraction(a[j]) + s * (Fraction(b[j]) - Fraction(a[j]))) for j in range(n)])
    elif style == "identical":
        a = grid_pt() if rng.random() < 0.7 else [rand_real(rng, t["lb"], t["ub"], "random") for t in tspecs]
        pts = [list(a) for _ in range(k)]
    elif style == "bound":
        pts = [[rng.choice([t["lb"], t["ub"]]) for t in tspecs] for _ in range(k)]
    elif style == "grid":
        pts = [grid_pt() for _ in range(k)]
    else:
        pts = [[rand_real(rng, t["lb"], t["ub"], "random") for t in tspecs] for _ in range(k)]
    return [{"vars": p, "evaluated": rng.random() < 0.85, "objs": [rng.randrange(-8, 9) / 4.0, float(i)]} for i, p in enumerate(pts)]


def gen_malformed_subsets(rng, tspecs, k):
    ps = gen_parents(rng, tspecs, k, "random")
    for p in ps:
        for i, ts in enumerate(tspecs):
            if ts["k"] == "Subset" and ts["size"] >= 2:
                v = p["vars"][i]
                v[rng.randrange(len(v))] = v[rng.randrange(len(v))]
    return ps


def prob_for(rng, allow_int):
    p = rng.choice(PROBS)
    if isinstance(p, int) and not allow_int:
        return 1.0
    return p


def has(tspecs, *kinds):
    return any(t["k"] in kinds for t in tspecs)


def gen_case(rng, opname, fixed=None, nvars=None):
    """-> (opspec, tspecs, pspecs, style, malformed)
    fixed: the spec of an EXISTING operator instance that is being reused on a new problem (only the problem and
    the parents are generated); nvars: force the number of variables (same shape as the previous problem)."""
    malformed = False
    def gen_types(r, own, **kw):      # local override threading nvars into the module-level generator
        return _gen_types(r, own, n=nvars, **kw)
    if opname in ("PM", "UM"):
        ts = gen_types(rng, ["Real"])
        sp = fixed or {"name": opname, "probability": rng.choice(PROBS + [1, 2])}
        if opname == "PM" and fixed is None:
            sp["distribution_index"] = rng.choice(ETAS)
        if opname == "UM" and nvars is None and rng.random() < 0.5:
            # bounds whose width overflows (um_mutation interpolates with random.random(), fix f6dc0d6)
            ts[rng.randrange(len(ts))] = dict(zip(("k", "lb", "ub"), ("Real",) + rng.choice(OVERFLOW_BOUNDS)))
        st = rng.choice(["random", "bound", "grid"])
        return sp, ts, gen_parents(rng, ts, rng.choice([1, 1, 2]), st), st, malformed
    if opname in ("UniformMutation", "NonUniformMutation"):
        ts = gen_types(rng, ["Real"], foreign_ok=False)
        sp = fixed or {"name": opname, "probability": prob_for(rng, True), "perturbation": rng.choice([0.5, 0.1, 5.0])}
        if opname == "NonUniformMutation" and fixed is None:
            sp.update(nfe=rng.choice([0, 100, 500, 10000]), swarm_size=10, max_iterations=rng.choice([1, 50]))
        st = rng.choice(["random", "bound", "grid"])
        return sp, ts, gen_parents(rng, ts, rng.choice([1, 2]), st), st, malformed
    if opname == "SBX":
        ts = gen_types(rng, ["Real"])
        sp = fixed or {"name": "SBX", "probability": prob_for(rng, True), "distribution_index": rng.choice(ETAS)}
        st = rng.choice(["random", "random", "bound", "identical", "near", "grid"])
        return sp, ts, gen_parents(rng, ts, 2, st), st, malformed
    if opname == "DE":
        ts = gen_types(rng, ["Real"], foreign_ok=False)
        sp = fixed or {"name": "DE", "probability": rng.choice([0.1, 0.5, 1.0, 0.0, 0.25]), "step_size": rng.choice([0.5, 1.0, 2.0])}
        st = rng.choice(["random", "bound", "identical", "grid"])
        return sp, ts, gen_parents(rng, ts, 4, st), st, malformed
    if opname in ("PCX", "UNDX", "SPX"):
        ts = gen_types(rng, ["Real"], foreign_ok=False, nmax=3, small=True)
        k = rng.choice([2, 2, 3, 3, 4, 5]) if opname != "SPX" else rng.choice([1, 2, 3, 4])
        if fixed is not None:
            k = fixed["nparents"]
        sp = fixed or {"name": opname, "nparents": k, "noffspring": rng.choice([1, 2, 3])}
        if opname == "SPX" and fixed is None:
            sp["expansion"] = rng.choice([None, 1.0, 3.0])
        st = rng.choice(["random", "grid", "grid", "identical", "centroid", "collinear", "bound"])
        return sp, ts, gen_vector_parents(rng, ts, k, st), st, malformed
    if opname in ("BitFlip", "HUX"):
        ts = gen_types(rng, ["Binary"])
        sp = fixed or {"name": opname, "probability": rng.choice(PROBS + [1, 3]) if opname == "BitFlip" else prob_for(rng, True)}
        st = rng.choice(["random", "bound", "identical", "complement"])
        return sp, ts, gen_parents(rng, ts, 2 if opname == "HUX" else rng.choice([1, 2]), st), st, malformed
    if opname in ("Swap", "Insertion", "PMX"):
        ts = gen_types(rng, ["Permutation"])
        sp = fixed or {"name": opname, "probability": prob_for(rng, True)}
        st = rng.choice(["random", "random", "bound", "identical", "complement"])
        return sp, ts, gen_parents(rng, ts, 2 if opname == "PMX" else rng.choice([1, 2]), st), st, malformed
    if opname in ("Replace", "SSX"):
        ts = gen_types(rng, ["Subset"])
        sp = fixed or {"name": opname, "probability": prob_for(rng, True)}
        st = rng.choice(["random", "random", "identical", "complement"])
        k = 2 if opname == "SSX" else rng.choice([1, 2])
        if opname == "SSX" and rng.random() < 0.25:
            return sp, ts, gen_malformed_subsets(rng, ts, k), "malformed", True
        return sp, ts, gen_parents(rng, ts, k, st), st, malformed
    if opname == "GAOperator":
        fam = rng.choice(["real", "bin", "perm", "sub", "de"])
        if fixed is not None:
            fam = {"SBX": "real", "DE": "de", "HUX": "bin", "PMX": "perm", "SSX": "sub"}[fixed["variation"]["name"]]
        if fam == "real":
            ts = gen_types(rng, ["Real"])
            sp = fixed or {"name": "GAOperator", "variation": {"name": "SBX", "probability": prob_for(rng, False)},
                  "mutation": {"name": "PM", "probability": rng.choice([1, 0.5, 1.0])}}
        elif fam == "de":
            ts = gen_types(rng, ["Real"], foreign_ok=False)
            sp = fixed or {"name": "GAOperator", "variation": {"name": "DE", "probability": 0.5},
                  "mutation": {"name": "PM", "probability": rng.choice([1, 0.5])}}
        elif fam == "bin":
            ts = gen_types(rng, ["Binary"])
            sp = fixed or {"name": "GAOperator", "variation": {"name": "HUX", "probability": prob_for(rng, False)},
                  "mutation": {"name": "BitFlip", "probability": rng.choice([1, 0.5])}}
        elif fam == "perm":
            ts = gen_types(rng, ["Permutation"])
            sp = fixed or {"name": "GAOperator", "variation": {"name": "PMX", "probability": prob_for(rng, False)},
                  "mutation": {"name": rng.choice(["Swap", "Insertion"]), "probability": rng.choice([0.3, 1.0])}}
        else:
            ts = gen_types(rng, ["Subset"])
            sp = fixed or {"name": "GAOperator", "variation": {"name": "SSX", "probability": prob_for(rng, False)},
                  "mutation": {"name": "Replace", "probability": rng.choice([0.3, 1.0])}}
        st = rng.choice(["random", "bound", "identical"])
        return sp, ts, gen_parents(rng, ts, op_arity(sp), st), st, malformed
    if opname == "CompoundOperator":
        ts = gen_types(rng, ["Real", "Binary", "Permutation", "Subset"], nmax=5)
        if not has(ts, "Real"):
            ts.append(t_real(rng))
        if not has(ts, "Binary", "Integer"):
            ts.append(t_binary(rng))
        vs = [{"name": "SBX", "probability": 1.0}, {"name": "HUX", "probability": 1.0}]
        if rng.random() < 0.6:
            vs.append({"name": "PMX", "probability": 1.0})
        if rng.random() < 0.6:
            vs.append({"name": "SSX", "probability": 1.0})
        vs += [{"name": "PM", "probability": rng.choice([1, 0.5])}, {"name": "BitFlip", "probability": rng.choice([1, 0.5])}]
        if rng.random() < 0.5:
            vs.append({"name": "Swap", "probability": 0.5})
        if rng.random() < 0.5:
            vs.append({"name": "Replace", "probability": 0.5})
        sp = fixed or {"name": "CompoundOperator", "variators": vs}
        st = rng.choice(["random", "bound", "identical"])
        return sp, ts, gen_parents(rng, ts, 2, st), st, malformed
    if opname == "CompoundMutation":
        ts = gen_types(rng, ["Real", "Binary", "Permutation", "Subset"], nmax=5)
        if not has(ts, "Real"):
            ts.append(t_real(rng))
        if not has(ts, "Binary", "Integer"):
            ts.append(t_binary(rng))
        pool = [{"name": "PM", "probability": rng.choice([1, 0.5])}, {"name": "BitFlip", "probability": rng.choice([1, 0.5])},
                {"name": "Swap", "probability": 0.5}, {"name": "Insertion", "probability": 0.5}, {"name": "Replace", "probability": 0.5},
                {"name": "UM", "probability": 0.5}]
        vs = [pool[i] for i in sorted(rng.sample(range(len(pool)), rng.randrange(1, 5)))]
        sp = fixed or {"name": "CompoundMutation", "variators": vs}
        st = rng.choice(["random", "bound"])
        return sp, ts, gen_parents(rng, ts, rng.choice([1, 2]), st), st, malformed
    if opname == "Multimethod":
        ts = gen_types(rng, ["Real"], foreign_ok=False)
        vs = [{"name": "GAOperator", "variation": {"name": "SBX", "probability": 1.0}, "mutation": {"name": "PM", "probability": 1}},
              {"name": "DE", "probability": 0.5},
              {"name": "SPX", "nparents": 3, "noffspring": 2},
              {"name": "UM", "probability": 0.5}]
        vs = vs[:rng.randrange(2, 5)]
        sp = fixed or {"name": "Multimethod", "variators": vs, "next": rng.randrange(len(vs)), "update_frequency": rng.choice([1, 3, 100])}
        st = rng.choice(["random", "bound", "identical"])
        return sp, ts, gen_parents(rng, ts, op_arity(sp), st), st, malformed
    raise ValueError(opname)


ALL_OPS = ["PM", "SBX", "DE", "UM", "UniformMutation", "NonUniformMutation", "PCX", "UNDX", "SPX",
           "BitFlip", "HUX", "Swap", "Insertion", "PMX", "Replace", "SSX",
           "GAOperator", "CompoundOperator", "CompoundMutation", "Multimethod"]


def gen_rng_spec(rng, opspec):
    seed = rng.randrange(1 << 30)
    if rng.random() < 0.55:
        return {"mode": "log", "seed": seed}
    menu = [0.0, 2.0 ** -53, TOP, 0.5]

    def thr(sp):
        p = sp.get("probability")
        if reachable(p):
            menu.append(p)
        for k in ("variation", "mutation"):
            if k in sp:
                thr(sp[k])
        for v in sp.get("variators", []):
            thr(v)
    thr(opspec)
    return {"mode": "script", "seed": seed, "p_ext": rng.choice([0.3, 0.7, 0.9]), "menu": menu}


# ----------------------------------------------------------------------------
# a case end to end
# ----------------------------------------------------------------------------
def case_literal(opspec, tspecs, pspecs, r):
    intern = Interner()
    problem = r["problem"]
    tl = [type_lit(ts, problem.types[i], intern) for i, ts in enumerate(tspecs)]
    parents = r["parents"]
    pl = [ksol_lit(tspecs, intern, values_of(p, tspecs), pspecs[i]["evaluated"], pspecs[i]["objs"], i) for i, p in enumerate(parents)]
    cl = []
    for c in r["out"]:
        alias = next((i for i, p in enumerate(parents) if p is c), -1)
        cl.append(ksol_lit(tspecs, intern, values_of(c, tspecs), c.evaluated, list(c.objectives._data), alias))
    return "K6 %s %s %s %s %s %s" % (desc_lit(opspec), C.list_lit(tl), C.list_lit(pl), tape_lit(r["tape"]),
                                     C.list_lit(cl), C.nat_lit(r["next"]))


def replay_dict(opspec, tspecs, pspecs, rs, r=None, extra=None):
    d = {"kind": "call", "op": opspec, "types": tspecs, "parents": pspecs, "rng": rs}
    if r is not None:
        d["tape"] = [[e[0], (repr(e[1]))] for e in r["tape"]][:200]
        d["exception"] = r["exc"]
        if r.get("out"):
            try:
                d["children"] = [{"variables": [repr(v) for v in c.variables._data], "evaluated": c.evaluated} for c in r["out"]]
            except Exception:   # noqa: BLE001
                pass
    if extra:
        d.update(extra)
    return d


def shippable(r):
    """can this call be written as a Coq case?"""
    if r["exc"] is not None or r["unexpected"]:
        return False
    for e in r["tape"]:
        if e[0] in ("U", "G", "V", "R"):
            if not isinstance(e[1], (int, float)) or isinstance(e[1], bool):
                return False
            if e[0] != "V" and (e[1] != e[1]):
                return False
        if e[0] == "I" and not (isinstance(e[1], int) and 0 <= e[1] < 4000):
            return False
    for c in r["out"]:
        for v in c.variables._data:
            if isinstance(v, complex):
                return False
    return True


SYMMETRIC = ("SBX", "HUX", "PMX", "SSX")
GLITS = []          # guard-trace cases of this run (Coq literals)
GUARD_CAP = 4000


def check_symmetry(ctx, opspec, tspecs, pspecs, rs, r):
    """same random stream, parents exchanged: same multiset of offspring values (one-variable problems)"""
    if opspec["name"] not in SYMMETRIC or len(tspecs) != 1 or r["exc"] is not None:
        return None
    r2 = run_call(opspec, tspecs, [pspecs[1], pspecs[0]], rs)
    ctx.count()
    if r2["exc"] is not None:
        return ("%s:raises:%s" % (opspec["name"], r2["exc"][0]), "exchanged parents: raised %r" % (r2["exc"],), True)
    if child_multiset(r, tspecs) != child_multiset(r2, tspecs):
        return ("%s:asymmetric" % opspec["name"],
                "%s is not symmetric: parents %r give offspring %r, exchanged parents give %r under the same random stream" % (
                    opspec["name"], [p["vars"] for p in pspecs], [list(c.variables._data) for c in r["out"]],
                    [list(c.variables._data) for c in r2["out"]]), True)
    return None


def one_case(ctx, opname, opspec, tspecs, pspecs, rs, style, malformed, stats, lits, litinfo,
             op=None, problem=None, history=None):
    """op / problem: operator instance / Problem object REUSED from earlier calls (history = those calls, so that a
    failing call can be replayed from a fresh instance)."""
    r = run_call(opspec, tspecs, pspecs, rs, op=op, problem=problem)
    hx = {"history": list(history), "same_problem_object": problem is not None} if history is not None else None
    ctx.count()
    st = stats.setdefault(opname, {"calls": 0, "scripted": 0, "wrote": 0, "shipped": 0, "discarded_inexact": 0,
                                   "malformed": 0, "styles": {}, "injected_extremes": 0, "nan_or_inf_candidates": 0})
    st["calls"] += 1
    st["styles"][style] = st["styles"].get(style, 0) + 1
    st["scripted"] += 1 if rs["mode"] == "script" else 0
    st["injected_extremes"] += r["injected"]
    st["nan_or_inf_candidates"] += sum(1 for (v, _a, _b) in r["clips"] if isinstance(v, float) and (v != v or abs(v) == math.inf))
    viols = []
    if not malformed:
        allow_alias = opname == "CompoundMutation" and not opspec["variators"]
        viols = oracle_call(opspec, tspecs, pspecs, rs, r, allow_alias)
        if r["unexpected"]:
            viols.append(("%s:unmodelled-random-primitive" % opname, "the operator called %r" % (r["unexpected"][:3],)))
        sv = check_symmetry(ctx, opspec, tspecs, pspecs, rs, r) if op is None else None
        if sv:
            viols.append(sv[:2])
        for key, what in viols:
            extra = {"symmetry": key.endswith("asymmetric")}
            if hx:
                extra.update(hx)
                what = "reused operator instance (call %d on it): %s" % (len(hx["history"]) + 1, what)
            ctx.violation(key, what, replay_dict(opspec, tspecs, pspecs, rs, r, extra))
    else:
        st["malformed"] += 1
    if op is not None:
        st["reused_instance_calls"] = st.get("reused_instance_calls", 0) + 1
        if problem is not None:
            st["reused_problem_object_calls"] = st.get("reused_problem_object_calls", 0) + 1
    wrote = r["exc"] is None and any((not c.evaluated) for c in r["out"])
    st["wrote"] += 1 if wrote else 0
    if shippable(r):
        why = inexact_reason(opspec, tspecs, pspecs, r)
        if why:
            st["discarded_inexact"] += 1
            stats.setdefault("_inexact_reasons", {}).setdefault(why.split(":")[0], 0)
            stats["_inexact_reasons"][why.split(":")[0]] += 1
        else:
            lits.append(case_literal(opspec, tspecs, pspecs, r))
            litinfo.append((opname, opspec, tspecs, pspecs, rs, malformed or op is not None))
            st["shipped"] += 1
    gs = stats.setdefault("_guard_traces", {"PM": 0, "SBX": 0, "NUM": 0, "cases": 0, "skipped_non_finite": 0, "skipped_raised": 0,
                                            "skipped_inexact_branch": 0, "shape_errors": []})
    if not malformed:
        for tr in r.get("guard_traces", []):
            gl, why = guard_cases(tr)
            gs[tr["kind"]] += 1
            if why is None:
                if len(GLITS) < GUARD_CAP:
                    GLITS.extend(gl)
                    gs["cases"] += len(gl)
            elif why.startswith("shape"):
                if len(gs["shape_errors"]) < 5:
                    gs["shape_errors"].append(why)
            else:
                gs["skipped_" + why.replace("-", "_")] = gs.get("skipped_" + why.replace("-", "_"), 0) + 1
    if wrote or r["injected"] or style in ("identical", "centroid", "collinear", "bound", "near", "malformed"):
        ctx.mark((opname, json.dumps([opspec, tspecs, pspecs], sort_keys=True, default=str), json.dumps(rs, sort_keys=True)))
    return r, viols


# fixed, always-run cases: the recorded defects and the degenerate tuples the property names
def corpus_cases():
    real01 = [{"k": "Real", "lb": 0.0, "ub": 1.0}]

    def ps(*vals):
        return [{"vars": list(v), "evaluated": True, "objs": [0.25, float(i)]} for i, v in enumerate(vals)]
    out = []
    for seed in range(6):
        rs = {"mode": "log", "seed": seed}
        out.append(("SBX", {"name": "SBX", "probability": 1.0}, real01, ps([0.8], [0.2]), rs, "corpus"))
        out.append(("SBX", {"name": "SBX", "probability": 1.0}, real01, ps([0.2], [0.8]), rs, "corpus"))
        out.append(("PCX", {"name": "PCX", "nparents": 3, "noffspring": 2}, real01, ps([0.25], [0.75], [0.5]), rs, "centroid"))
        out.append(("UNDX", {"name": "UNDX", "nparents": 3, "noffspring": 2}, real01 * 2, ps([0.25, 0.5], [0.75, 0.5], [0.5, 0.5]), rs, "centroid"))
        out.append(("UNDX", {"name": "UNDX", "nparents": 2, "noffspring": 1}, real01 * 2, ps([0.5, 0.25], [0.5, 0.25]), rs, "identical"))
        out.append(("PCX", {"name": "PCX", "nparents": 2, "noffspring": 1}, real01 * 2, ps([0.5, 0.25], [0.5, 0.25]), rs, "identical"))
        out.append(("PM", {"name": "PM", "probability": 1}, [{"k": "Real", "lb": -1e308, "ub": 1e308}], ps([0.0]), rs, "corpus"))
        out.append(("Replace", {"name": "Replace", "probability": 1.0},
                    [{"k": "Subset", "ek": "str", "elements": ["a", "b", "c", "d", "e"], "size": 2}], ps([["a", "b"]]), rs, "corpus"))
    return out


def run(ctx):
    from translate import framecheck
    del GLITS[:]
    rng = ctx.rng
    # ---- frame check (AST discipline) on the current tree
    fc = framecheck.check_operators(os.path.join(C.REPO, "platypus", "operators.py"), os.path.join(C.REPO, "platypus", "_math.py"))
    ctx.obligation("framecheck:copy-before-write+flag-discipline(%d functions, %d stores)" % (fc["functions_checked"], fc["stores_checked"]),
                   "framecheck", fc["ok"], "; ".join(fc["failures"]))
    ctx.coverage["framecheck"] = {k: fc[k] for k in ("classes", "functions_checked", "stores_checked", "variable_stores_checked", "accepted", "failures")}
    ctx.trusted.append("harness/translate/framecheck.py (its reading of Python stores/bindings; accepted pattern: PCX.evolve permutes the entries of the parents LIST)")
    ctx.trusted.append("the driver's wrappers of random.*, platypus.operators.clip / magnitude / roulette and CPython's derivation of uniform/randrange/gauss from the scripted primitives")

    stats, lits, litinfo = {}, [], []
    per_op = ctx.scale(200, 3000)
    for (opname, opspec, tspecs, pspecs, rs, style) in corpus_cases():
        one_case(ctx, opname, opspec, tspecs, pspecs, rs, style, False, stats, lits, litinfo)
    for opname in ALL_OPS:
        for _ in range(per_op):
            opspec, tspecs, pspecs, style, malformed = gen_case(rng, opname)
            rs = gen_rng_spec(rng, opspec)
            r, _v = one_case(ctx, opname, opspec, tspecs, pspecs, rs, style, malformed, stats, lits, litinfo)
            if len(ctx.samples) < 3 and r["exc"] is None and r["tape"] and opname in ("SBX", "PMX", "UNDX"):
                ctx.sample({"operator": opspec, "types": tspecs, "parents": pspecs, "random": rs,
                            "tape": [[e[0], repr(e[1])] for e in r["tape"]][:12],
                            "children": [[repr(v) for v in c.variables._data] + [c.evaluated] for c in r["out"]]})
    # ---- long-lived operator instances: ONE instance (and its member instances) reused on a sequence of different
    # problems (same number of variables with other bounds / element sets / sizes / bit widths most of the time; sometimes
    # the same Problem object with its types re-declared in place).  The models have no instance state, so any dependence
    # on an instance's history is a replay mismatch, and the oracle judges every call against its OWN problem.
    nseq, seqlen = ctx.scale(12, 60), 5
    for opname in ALL_OPS:
        for _ in range(nseq):
            base, tspecs, pspecs, style, malformed = gen_case(rng, opname)
            op = problem = None
            history = []
            n0 = len(tspecs)
            for step in range(seqlen):
                cur = base
                if opname == "Multimethod" and op is not None:
                    if op.next_variator is None:
                        break
                    cur = dict(base, next=op.next_variator)
                if step > 0:
                    _sp, tspecs, pspecs, style, malformed = gen_case(rng, opname, fixed=cur, nvars=n0 if rng.random() < 0.75 else None)
                rs = gen_rng_spec(rng, cur)
                same_obj = problem if (step > 0 and problem is not None and problem.nvars == len(tspecs) and rng.random() < 0.4) else None
                r, _v = one_case(ctx, opname, cur, tspecs, pspecs, rs, "reused:" + style, malformed, stats, lits, litinfo,
                                 op=op, problem=same_obj, history=history if step > 0 else None)
                history.append({"op": cur, "types": tspecs, "parents": pspecs, "rng": rs, "same_problem_object": same_obj is not None})
                op, problem = r["op"], r["problem"]
    # ---- the scalar formulas under nothing but extreme reachable draws (every primitive outcome scripted: u in
    # {0, 2^-53, 0.5, 1-2^-53}), parents on the bounds or at random, tiny and huge ranges, eta in ETAS
    for opname in ("PM", "SBX", "NonUniformMutation", "SPX", "UniformMutation", "DE"):
        for _ in range(ctx.scale(60, 1500)):
            opspec, tspecs, pspecs, style, malformed = gen_case(rng, opname)
            if rng.random() < 0.6:
                k = len(pspecs)
                pspecs = gen_parents(rng, tspecs, k, rng.choice(["bound", "bound", "identical", "near"]))
                style = "formula-fuzz"
            rs = {"mode": "script", "seed": rng.randrange(1 << 30), "p_ext": 1.0, "menu": [0.0, 2.0 ** -53, 0.5, TOP]}
            one_case(ctx, opname, opspec, tspecs, pspecs, rs, "extreme-only:" + style, malformed, stats, lits, litinfo)
    # ---- oracle only: inputs the exact model cannot take (PCX/UNDX/SPX on wide and overflowing bounds)
    extra = 0
    for _ in range(ctx.scale(150, 3000)):
        opname = rng.choice(["PCX", "UNDX", "SPX"])
        n = rng.randrange(1, 4)
        tspecs = [t_real(rng) for _ in range(n)]
        k = rng.choice([2, 3, 4])
        sp = {"name": opname, "nparents": k, "noffspring": 2}
        pspecs = gen_parents(rng, tspecs, k, rng.choice(["random", "bound", "identical"]))
        rs = gen_rng_spec(rng, sp)
        r = run_call(sp, tspecs, pspecs, rs)
        ctx.count()
        extra += 1
        for key, what in oracle_call(sp, tspecs, pspecs, rs, r):
            ctx.violation(key, what, replay_dict(sp, tspecs, pspecs, rs, r))
    stats["_oracle_only_wide_bounds_calls"] = extra
    ctx.assumptions += [
        "lb <= ub (finite) for every Real type; Real(lb,lb) with PM divides by zero: rejected configuration",
        "PCX / UNDX are given >= 2 parents (one parent divides by k-1 = 0: rejected input)",
        "Subset(elements, 0) with Replace and Permutation([]) with Swap/Insertion/PMX call randrange(0): rejected configurations",
        "an int `probability` (PM, UM, BitFlip) needs at least one variable of the operator's type, else ZeroDivisionError: rejected configuration (reported to the coordinator)",
        "UM on bounds whose width overflows interpolates lb*(1-r)+ub*r (fix f6dc0d6): modelled over exact Q; replay keeps the calls whose float interpolation is exact (counted), the oracle judges all",
        "PMX parents are duplicate-free permutations of the same declared elements; `elements` of a Subset type is duplicate-free",
        "the scalar float formulas (pow, sqrt, gauss-scaled sums) are not interpreted by the model: their results enter as DVal tape entries; freedom from exceptions inside them rests on the oracle",
        "PCX/UNDX guard structure is modelled over exact rationals; calls whose is_zero tests are rounding-sensitive are excluded from the replay (counted in input_distribution.*.discarded_inexact) and checked by the oracle only",
        "members handed to GAOperator / CompoundOperator / CompoundMutation / Multimethod satisfy the operator contract (op_ok / mut_ok); the shipped operators are proved to",
    ]
    ctx.coverage["parent_snapshots_compared"] = sum(v["calls"] for k, v in stats.items() if isinstance(v, dict) and "calls" in v)
    ctx.coverage["explanation"] = ("parents-unchanged is structural in the functional model; on the implementation it is covered by the frame check obligation "
                                   "and by a deep snapshot of every parent (all fields) before/after each of the calls counted in parent_snapshots_compared")
    ctx.coverage["input_distribution"] = stats
    ctx.rule = ("per operator (16 operators + GAOperator, CompoundOperator, CompoundMutation, Multimethod): structured problems (1-5 variables, own type + foreign types the "
                "operator must skip; bounds incl. adjacent floats and ranges whose width overflows; permutations of 1-8 int/str/tuple elements; subsets incl. size = |elements|) "
                "x operator instance (fresh per call, or ONE long-lived instance reused on 5 successive problems of mostly the same number of variables with other "
                "bounds/elements/sizes/bit widths, sometimes the same Problem object re-declared in place) "
                "x parent tuples (random, on bounds, grid, identical, within EPSILON, complementary, last parent at the centroid, collinear) x random stream (seeded CPython "
                "generator, or primitives scripted to 0, 2^-53, 1-2^-53, 0.5, the operator's own probability, all-zero/all-one bit words, first/last index); "
                "non-trivial = an offspring was written (flag cleared) or an extreme was injected or the parents are degenerate; distinct by (operator, problem, parents, stream)")
    ctx.sample({"coq_case": lits[len(lits) // 2][:1500]})

    # ---- guard traces of the scalar formulas against Model/RealFormulas.v (step by step, ranges included)
    gs = stats.get("_guard_traces", {})
    ctx.obligation("correspondence:guard-trace-shape(PM.pm_mutation, SBX.sbx_crossover, NonUniformMutation._delta)", "correspondence",
                   not gs.get("shape_errors"), "; ".join(gs.get("shape_errors", [])))
    if GLITS:
        gbad = C.run_coq_cases(ctx, "guards", ["Base.Num", "Base.FVal", "Base.Tape", "Model.Operators", "Model.RealOps", "Model.RealFormulas", "Harness.H06"],
                               "gcase", "g06_check", GLITS, shard=400)
        if gbad is not None:
            ctx.obligation("correspondence:formula-guards(%d traced steps: PM %d, SBX %d, NonUniformMutation %d executions)" % (
                len(GLITS), gs.get("PM", 0), gs.get("SBX", 0), gs.get("NUM", 0)), "correspondence", not gbad,
                "a traced guard quantity differs from the model's step or leaves its proved range on %d cases; first: %s" % (
                    len(gbad), GLITS[gbad[0]] if gbad else ""))
            ctx.coverage["guard_cases"] = len(GLITS)
            ctx.coverage["guard_mismatches"] = len(gbad)
            ctx.sample({"guard_case": GLITS[len(GLITS) // 3]}, limit=12)
    bad = C.run_coq_cases(ctx, "replay", ["Base.Num", "Base.FVal", "Base.Tape", "Model.Operators", "Model.RealOps", "Harness.H06"],
                          "c06case", "c06_check", lits, shard=ctx.scale(350, 400))
    if bad is not None:
        by_op = {}
        for i in bad:
            by_op[litinfo[i][0]] = by_op.get(litinfo[i][0], 0) + 1
        ctx.obligation("correspondence:tape-replay(%d calls, %d operators)" % (len(lits), len(ALL_OPS)), "correspondence", not bad,
                       "model and implementation differ on %d calls %r; first: %s" % (len(bad), by_op, lits[bad[0]][:1200] if bad else ""))
        ctx.coverage["correspondence_cases"] = len(lits)
        ctx.coverage["correspondence_mismatches"] = len(bad)
        # search in the neighbourhood of disagreeing calls: same problem/parents, other streams, exchanged parents
        for i in bad[:6]:
            opname, opspec, tspecs, pspecs, rs, malformed = litinfo[i]
            ctx.sample({"model_impl_disagree": {"operator": opspec, "types": tspecs, "parents": pspecs, "random": rs,
                                                "malformed_parents_or_reused_instance(no fresh-instance neighbourhood search)": malformed}}, limit=12)
            if malformed:
                continue      # invalid parents are outside the property: no oracle verdict on them
            for j in range(30):
                rs2 = dict(rs, seed=rs["seed"] + 1 + j)
                ps2 = list(reversed(pspecs)) if j % 2 else pspecs
                r = run_call(opspec, tspecs, ps2, rs2)
                ctx.count()
                for key, what in oracle_call(opspec, tspecs, ps2, rs2, r):
                    ctx.violation(key, what, replay_dict(opspec, tspecs, ps2, rs2, r))
                sv = check_symmetry(ctx, opspec, tspecs, ps2, rs2, r)
                if sv:
                    ctx.violation(sv[0], sv[1], replay_dict(opspec, tspecs, ps2, rs2, r, {"symmetry": True}))


def replay(ctx, data):
    rp = data.get("replay", {})
    if rp.get("kind") != "call":
        return run(ctx)
    opspec, tspecs, pspecs, rs = rp["op"], rp["types"], rp["parents"], rp["rng"]
    op = problem = None
    for h in rp.get("history") or []:      # the earlier calls on the same operator instance, from a fresh instance
        rh = run_call(h["op"], h["types"], h["parents"], h["rng"], op=op, problem=problem if h.get("same_problem_object") else None)
        op, problem = rh["op"], rh["problem"]
        ctx.count()
    r = run_call(opspec, tspecs, pspecs, rs, op=op, problem=problem if rp.get("same_problem_object") else None)
    ctx.count()
    ctx.sample({"replayed": {"operator": opspec, "exception": r["exc"],
                             "children": None if r["out"] is None else [[repr(v) for v in c.variables._data] + [c.evaluated] for c in r["out"]]}})
    for key, what in oracle_call(opspec, tspecs, pspecs, rs, r):
        ctx.violation(key, "replay: " + what, rp)
    sv = check_symmetry(ctx, opspec, tspecs, pspecs, rs, r) if not rp.get("history") else None
    if sv:
        ctx.violation(sv[0], "replay: " + sv[1], rp)
    ctx.coverage["explanation"] = "replay of one recorded call of the real operator under the recorded random source; oracle only"
    ctx.obligation("replay-executed", "harness", True, "")
