"""C01 — every exposed solution carries the objectives of its own decision variables."""
import os
import random
from collections import Counter
from concurrent.futures import ProcessPoolExecutor

from vlib import common as C
from vlib import trace as T

ID = "C01"
PROPS_FILE = "Props/C01.v"
COQ_TARGETS = ["Harness/H01.vo"]
ALLOWED_AXIOMS = []
# second tie (translator): coq/Gen/Core.v is regenerated from the source text of C.REPO on every run and
# coq/Tie/T01.v proves generated definition = hand model (harness/translate/py2coq_core.py)
EXTRA_PROPS = ["Tie/T01.v"]


def prebuild(ctx):
    import os
    import sys
    sys.path.insert(0, os.path.join(C.VERIF, "harness", "translate"))
    import py2coq_core
    py2coq_core.prebuild(ctx, C, ["Problem.__call__"])


META = {
    "level_text": "Machine-checked proof (Coq) about an executable model of Problem.__call__, Solution.__deepcopy__ and "
                  "Algorithm.evaluate_all (for ANY user function, ANY constraint functions, ANY evaluator that returns jobs in "
                  "order either evaluated in place or as evaluated copies) and of a nondeterministic skeleton of an algorithm step: "
                  "if every exposed solution is consistent (evaluated, objectives/constraints/violation/feasibility those of its own "
                  "decoded variables) before a step it is after it, at every step boundary of every trace; an executable trace checker "
                  "`accepts` is proved sound; literal data-flow models of the step functions of all 15 algorithms (incl. restart injection) are "
                  "proved to be instances of that skeleton. Tie to /repo on every run: all 15 shipped algorithms are run on small problems "
                  "(5 variable types, constrained or not, min/max, explicit/default operators, serial/copying/thread[/process] evaluators, "
                  "seeds and scripted extreme primitive draws), instrumented from outside; each logged run is shipped to Coq with exact "
                  "float values and must be accepted by the proved checker; an independent oracle re-calls the raw user function for "
                  "every exposed solution at every step boundary.",
    "level_note": "Tie/T01.v also states clause 1 about the Problem.__call__ GENERATED from the source text (tie_c01_generated_problem_call_good). Trusted: Coq kernel + VM; the harness (monkey-patched evaluate_all / __deepcopy__ / run callback, literal printer, shard runner). "
                  "Design theorem 5: step MODELS of all 15 algorithms (Model/AlgSteps.v: selection/variation randomness = tapes, operators / "
                  "survival / archive insertion = abstract functions with stated contracts 'flag discipline', 'flag clear', 'output subset of "
                  "input') are proved to be instances of the skeleton (c01_<alg>_step_ok); that the real code follows these models is "
                  "established on the sampled traces only (generic skeleton check + attribute-wise data-flow rules of the algorithm's model at "
                  "step boundaries; the ORDER of archive updates relative to evaluation inside a step is not observed). The per-operator flag discipline (design theorem 2) is a premise of the skeleton that the checker tests on every "
                  "submitted solution and an oracle tests per operator, it is proved in C06 not here. The evaluator contract (results in job "
                  "order, in place or copies) is a hypothesis (C12's theorem). The user function is a finite table of the calls logged in the "
                  "run (theorems hold for any function). Constraint-violation sums are modelled exactly; traces whose float sums are inexact "
                  "are only checked by the oracle (counted in coverage). Integer bit strings use a local structural Gray model (literal loop "
                  "model: C17). '<' and '>' constraints and callable constraints: oracle only. User functions with side effects: out of scope. "
                  "No axioms.",
    "technique": "Coq proof (invariant of a transition system + sound executable trace checker) + trace validation of real runs (vm_compute) + independent oracle",
}

IMPORTS = ["Base.Num", "Model.Evaluate", "Model.AlgSkeleton", "Model.AlgSteps", "Harness.H01"]
NWORKERS = max(2, min(8, (os.cpu_count() or 4) // 2))


def work(cfg):
    """run one configuration in a worker process; returns a slim, picklable summary + the Coq literal"""
    r = T.run_config(cfg)
    out = {k: r.get(k) for k in ("cfg", "status", "why", "exc", "exc_type", "tb", "c01_fail", "c07_fail", "steps", "evaluations",
                                 "n_batches", "n_exposed", "n_evaluated_copies_submitted", "extreme_draws", "nfe")}
    out["lit"] = None
    out["coq_skip"] = None
    out["alias"] = r.get("alias") or []
    if r["status"] == "ok" and r.get("trace"):
        if cfg.get("light"):
            out["coq_skip"] = "particle-swarm stress run (oracle and aliasing check only)"
        elif cfg.get("cons") == "strict":
            out["coq_skip"] = "strict/callable constraints (oracle only)"
        elif cfg.get("kind") == "scaled":
            out["coq_skip"] = "user-defined variable type ScaledReal (oracle only: the executable Coq carrier has the five shipped types)"
        elif not T.cv_exact(r):
            out["coq_skip"] = "inexact float sum in constraint_violation"
        else:
            out["lit"] = T.c01_case_lit(r)
            if out["lit"] is None:
                out["coq_skip"] = "trace too large / user function not functional"
        tr = r["trace"]
        if tr["steps"] and not cfg.get("light"):
            b, e = tr["steps"][min(1, len(tr["steps"]) - 1)]
            out["sample"] = {"cfg": cfg, "step": 1, "batches(before,provenance,after)": repr(b)[:300],
                             "exposed_snapshot": repr(tr["table"][e[0]]) if e else None}
    return out


def configs(ctx):
    rng = ctx.rng
    grid = T.all_configs()
    cfgs = []
    if ctx.thorough:
        for rep in range(4):
            for g in grid:
                cfgs.append(T.finalize(g, rng))
    else:
        # quick: a third of the grid, rotated by the seed (every algorithm x type is still hit)
        for i, g in enumerate(grid):
            if (i + ctx.seed) % 3 == 0:
                # shorter runs in the quick tier keep the Coq literals small (the stress runs below are the long ones)
                cfgs.append(T.finalize(dict(g, steps=6 if g["alg"] == "MOEAD" else 8), rng))
    # specials, every run
    for alg in T.ALGORITHMS:
        kinds = [k for k in T.KINDS if T.applicable(alg, k)]
        k = rng.choice(kinds)
        base = {"alg": alg, "kind": k, "maximize": False, "variator": "default"}
        cfgs.append(T.finalize(dict(base, cons="strict", evaluator="copy"), rng))                  # '<', '>' and callable constraints
        cfgs.append(T.finalize(dict(base, cons="cmp", evaluator="copy", script=0.5), rng))         # heavy extreme draws
        if ctx.thorough:
            cfgs.append(T.finalize(dict(base, cons="cmp", evaluator="process", subclass=False), rng))
            cfgs.append(T.finalize(dict(base, cons="none", evaluator="process", subclass=True, variator="explicit" if alg not in ("OMOPSO", "CMAES") else "default"), rng))
    # particle swarms whose bounded leader archive really truncates (small leader_size, larger swarm, 40-60 steps)
    cfgs += T.pso_stress_configs(rng, ctx.scale(48, 400))
    for k in T.KINDS:                                                                               # restarts on every type
        cfgs.append(T.finalize({"alg": "EpsNSGAII", "kind": k, "cons": "cmp", "maximize": False, "variator": "default", "restart": True,
                                "evaluator": "copy"}, rng))
        cfgs.append(T.finalize({"alg": "NSGAII", "kind": k, "cons": "none", "maximize": True, "variator": "explicit", "archive": True,
                                "restart": True, "inject": True}, rng))
    return cfgs


def token(cfg):
    return "%s|%s|%s|%s|%s|%s|%s|%s|%s|%s" % (cfg["alg"], cfg["kind"], cfg.get("cons"), cfg.get("maximize"), cfg.get("variator"),
                                              cfg.get("evaluator"), cfg.get("script"), cfg.get("seed"), bool(cfg.get("inject")), bool(cfg.get("restart")))


def run(ctx):
    import time
    phase = {}
    t0 = time.time()
    cfgs = configs(ctx)
    with ProcessPoolExecutor(max_workers=NWORKERS, initializer=C.child_process_guard) as ex:
        results = list(ex.map(work, cfgs, chunksize=4))
    phase["real_runs_s"] = round(time.time() - t0, 1)
    t0 = time.time()
    dist = {"algorithm": Counter(), "type": Counter(), "evaluator": Counter(), "constraints": Counter(), "direction": Counter(),
            "operator": Counter(), "scripted_extreme": Counter(), "status": Counter(), "inject": 0, "restart": 0, "subclass_problem": 0}
    lits, lit_cfg = [], []
    skipped = Counter()
    rejected, candidates, unexpected = [], [], []
    steps = exposed = batches = copies = 0
    aliased = []
    for r in results:
        cfg = r["cfg"]
        ctx.count()
        if r.get("alias"):
            aliased.append((cfg, r["alias"][0]))
        dist["status"][r["status"]] += 1
        if r["status"] == "rejected":
            rejected.append({"cfg": "%s/%s" % (cfg["alg"], cfg["kind"]), "why": r.get("why")})
            continue
        if r["status"] == "exception":
            known = T.is_known_rejected(r)
            if known:
                candidates.append({"input": cfg, "exception": r["exc"], "note": known, "step": r.get("steps")})
            elif r.get("exc_type") == "PlatypusError":
                rejected.append({"cfg": cfg, "why": "library raised " + r["exc"]})
            else:
                unexpected.append(r)
        elif r["status"] == "timeout":
            unexpected.append(r)
        for f in r["c01_fail"]:
            ctx.violation("%s:%s" % (f.get("key", "exposed-solution-inconsistent"), cfg["alg"]),
                          "%s (%s variables, evaluator %s, seed %d): step %d, %s: %s" % (cfg["alg"], cfg["kind"], cfg.get("evaluator"), cfg["seed"],
                                                                                   f["step"], f["where"], f["what"]),
                          {"kind": "run", "cfg": cfg, "step": f["step"], "where": f["where"]})
        if r["status"] != "ok":
            continue
        for name, key in (("algorithm", "alg"), ("type", "kind"), ("evaluator", "evaluator"), ("constraints", "cons"), ("direction", "maximize")):
            dist[name][str(cfg.get(key))] += 1
        dist["operator"]["default" if cfg.get("variator") == "default" else "explicit"] += 1
        dist["scripted_extreme"][str(cfg.get("script"))] += 1
        dist["inject"] += bool(cfg.get("inject"))
        dist["restart"] += bool(cfg.get("restart"))
        dist["subclass_problem"] += bool(cfg.get("subclass"))
        steps += r["steps"]
        exposed += r["n_exposed"] or 0
        batches += r["n_batches"] or 0
        copies += r["n_evaluated_copies_submitted"] or 0
        if r["steps"] >= 3 and ((r["n_batches"] or 0) >= 3 or cfg.get("light")):
            ctx.mark(token(cfg))
        if r["lit"]:
            lits.append(r["lit"])
            lit_cfg.append(cfg)
        else:
            skipped[r["coq_skip"]] += 1
        if r.get("sample"):
            ctx.sample(r["sample"], limit=3)
    # an object that the step model says is NEW (particles / CMA-ES samples / PESA2 offspring are fresh copies) was already
    # exposed before the step: the implementation moves exposed solutions in place.  That is a model/implementation
    # disagreement; the search for an input on which the PROPERTY fails = more runs of the affected algorithms.
    search_runs = 0
    if aliased:
        algs = sorted(set(c["alg"] for c, _ in aliased))
        extra = []
        if any(a in ("OMOPSO", "SMPSO") for a in algs):
            extra += T.pso_stress_configs(ctx.rng, 160)
        for a in algs:
            if a not in ("OMOPSO", "SMPSO"):
                for g in [g for g in T.all_configs() if g["alg"] == a][:40]:
                    extra.append(T.finalize(dict(g, steps=30), ctx.rng))
        with ProcessPoolExecutor(max_workers=NWORKERS, initializer=C.child_process_guard) as ex:
            more = list(ex.map(work, extra, chunksize=4))
        search_runs = len(more)
        for r in more:
            ctx.count()
            for f in r["c01_fail"][:1]:
                cfg = r["cfg"]
                ctx.violation("%s:%s" % (f.get("key", "exposed-solution-inconsistent"), cfg["alg"]),
                              "%s (%s variables, swarm %s / leaders %s, seed %d): step %d, %s: %s" % (
                                  cfg["alg"], cfg["kind"], cfg.get("size"), cfg.get("leader_size"), cfg["seed"], f["step"], f["where"], f["what"]),
                              {"kind": "run", "cfg": cfg, "step": f["step"], "where": f["where"]})
    ctx.obligation("no-exposed-solution-moved-in-place(%d runs)" % len(results), "correspondence", not aliased,
                   "objects that the algorithm's step model says are new were already exposed at the previous boundary: " +
                   "; ".join("%s seed %d (swarm %s, leaders %s) step %d %s sid %d" % (c["alg"], c["seed"], c.get("size"), c.get("leader_size"),
                                                                                    a["step"], a["attr"], a["sid"]) for c, a in aliased[:5]) +
                   (" | searched %d more runs for an exposed solution that contradicts the property" % search_runs if aliased else ""))
    ctx.obligation("traced-runs-complete(%d runs)" % len(results), "harness", not unexpected,
                   "; ".join("%s -> %s %s" % (u["cfg"], u["status"], u.get("exc")) for u in unexpected[:4]))
    for u in unexpected[:3]:
        ctx.sample({"unexpected": u["cfg"], "status": u["status"], "exc": u.get("exc"), "tb": u.get("tb")})

    # function-level oracles: flag discipline of every operator, deepcopy
    rng = ctx.rng
    nflag = ctx.scale(150, 1500)
    opstats = {}
    for kind in T.KINDS:
        for opname in T.operator_catalog(kind):
            tot = chg = 0
            for _ in range(nflag):
                seed = rng.randrange(10 ** 9)
                ctx.count()
                try:
                    n, c, bad = T.flag_case(kind, opname, seed)
                except Exception as e:      # operator raised on valid parents: C06's business, recorded only
                    opstats.setdefault("raised", []).append("%s/%s seed %d: %s" % (kind, opname, seed, e))
                    continue
                tot += n
                chg += c
                if bad:
                    ctx.violation("operator-flag-discipline:%s" % opname.split("(")[0],
                                  "%s on %s variables (seed %d): %s" % (opname, kind, seed, bad),
                                  {"kind": "operator-flag", "type": kind, "op": opname, "seed": seed})
                    break
            opstats["%s/%s" % (kind, opname)] = {"children": tot, "changed": chg}
            if chg:
                ctx.mark("op|%s|%s" % (kind, opname))
        for _ in range(ctx.scale(20, 200)):
            seed = rng.randrange(10 ** 9)
            ctx.count()
            bad = T.deepcopy_case(kind, seed)
            if bad:
                ctx.violation("deepcopy-loses-consistency", "%s (%s variables, seed %d)" % (bad, kind, seed),
                              {"kind": "deepcopy", "type": kind, "seed": seed})
                break

    phase["function_oracles_s"] = round(time.time() - t0, 1)
    t0 = time.time()
    # trace validation in Coq
    bad = C.run_coq_cases(ctx, "traces", IMPORTS, "c01case", "c01_check_both", lits, shard=ctx.scale(8, 12), timeout=1500)
    bad_flow = []
    if bad is not None:
        detail = detail_flow = ""
        bad_skel = []
        if bad:
            # which of the two checks failed, and (model first) is some exposed snapshot of the trace not Good in the model?
            terms = []
            for i in bad[:12]:
                terms += ["c01_check (%s)" % lits[i], "c01_flow_check (%s)" % lits[i], "c01_exposed_good (%s)" % lits[i]]
            res, _ = C.coq_eval(ctx, "search", IMPORTS, terms)
            verdicts = []
            for j, i in enumerate(bad[:12]):
                r3 = res[3 * j:3 * j + 3] if res else ["?", "?", "?"]
                sk, fl, gd = [("true" in x.split(":")[0]) if x != "?" else None for x in r3]
                if sk is not True:
                    bad_skel.append(i)
                if fl is not True:
                    bad_flow.append(i)
                verdicts.append("%s seed %s: skeleton=%s flow=%s all-exposed-Good-in-model=%s" % (lit_cfg[i]["alg"], lit_cfg[i]["seed"], sk, fl, gd))
            if len(bad) > 12:
                bad_skel += bad[12:]
                bad_flow += bad[12:]
            detail = "rejected traces: " + "; ".join(repr(lit_cfg[i]) for i in bad_skel[:4]) + " | " + " | ".join(verdicts[:6])
            detail_flow = ("logged steps that do not have the data flow of the algorithm's step model (Model/AlgSteps.v iter_rules): " +
                           "; ".join(repr(lit_cfg[i]) for i in bad_flow[:4]) + " | " + " | ".join(verdicts[:6]))
            for i in bad[:3]:
                ctx.sample({"rejected_trace_of": lit_cfg[i]})
        ctx.obligation("correspondence:traces-accepted-by-skeleton(%d traces)" % len(lits), "correspondence", not bad_skel, detail)
        ctx.obligation("correspondence:steps-follow-algorithm-model(%d traces)" % len(lits), "correspondence", not bad_flow, detail_flow)
    phase["coq_traces_s"] = round(time.time() - t0, 1)
    ctx.coverage.update({
        "phase_seconds": phase,
        "traces_validated_against_impl": len(lits),
        "traces_rejected_by_model": len(bad or []),
        "traces_not_following_algorithm_model": len(bad_flow),
        "traces_oracle_only": dict(skipped),
        "pso_stress_runs": sum(1 for r in results if r["cfg"].get("light")),
        "runs_with_exposed_object_moved_in_place": len(aliased),
        "search_runs_after_aliasing": search_runs,
        "step_boundaries_checked": steps,
        "exposed_solutions_checked_by_oracle": exposed,
        "evaluate_all_batches_logged": batches,
        "submitted_solutions_with_flag_set(untouched copies)": copies,
        "input_distribution": {k: (dict(v) if isinstance(v, Counter) else v) for k, v in dist.items()},
        "operator_flag_oracle": opstats,
        "rejected_configurations": rejected[:40],
        "rejected_configurations_count": len(rejected),
        "finding_candidates": candidates[:10],
        "finding_candidates_count": len(candidates),
        "grid_points_total": len(T.all_configs()),
    })
    ctx.rule = ("runs: the grid algorithm(15) x variable type(10 incl. mixed Binary+Integer, very narrow and very wide Real ranges, power-of-two Integer ranges, a user-defined ScaledReal type; Real only for GDE3/OMOPSO/SMPSO/CMAES) x {unconstrained, "
                "constrained} x {min, max/mixed} x {default, explicit operator} (quick: a third of the grid rotated by the seed; thorough: all x4), "
                "evaluator/seed/size/scripted-extreme-probability/inject/subclass drawn from ctx.rng, plus restart, injected-population, strict-"
                "constraint and heavy-extreme-draw specials, plus OMOPSO/SMPSO stress runs (swarm 12-30, leader archive 2-5, six variables with a "
                "ZDT-like front, 40-60 steps; oracle + aliasing check, not shipped to Coq); non-trivial run = completed >= 3 step boundaries with >= 3 evaluate_all batches, "
                "distinct by full configuration incl. seed; operator cases: non-trivial = the operator changed a variable at least once")
    ctx.assumptions += ["the user function is deterministic and side-effect free",
                        "evaluators return finished jobs in job order, each either the submitted object or an evaluated copy (C12)",
                        "rejected configurations (DESIGN section 7): size parameters 0, Integer(a,a), Real(lb,lb), Subset(...,0); MAXIMIZE with NSGAIII/MOEAD "
                        "(constructor raises); IBEA on a constrained problem with an infeasible member raises AttributeError (recorded under "
                        "coverage.finding_candidates, not a C01 violation); IBEA 'objective with empty range' (PlatypusError)"]


def replay(ctx, data):
    rp = data.get("replay", {})
    kind = rp.get("kind")
    if kind == "run":
        r = T.run_config(rp["cfg"])
        ctx.count()
        ctx.coverage["replay_status"] = r["status"]
        for f in r["c01_fail"][:1]:
            ctx.violation(data.get("key", "replay"), "replay: step %d %s: %s" % (f["step"], f["where"], f["what"]), rp)
    elif kind == "operator-flag":
        n, c, bad = T.flag_case(rp["type"], rp["op"], rp["seed"])
        ctx.count()
        if bad:
            ctx.violation(data.get("key", "replay"), "replay: " + bad, rp)
    elif kind == "deepcopy":
        bad = T.deepcopy_case(rp["type"], rp["seed"])
        ctx.count()
        if bad:
            ctx.violation(data.get("key", "replay"), "replay: " + bad, rp)
    else:
        run(ctx)
    ctx.mark("replay")
    ctx.mark("replay-2")
