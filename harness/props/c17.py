"""C17 — Integer variables round-trip through Gray-coded bits and never leave range."""
import itertools
from vlib import common as C

ID = "C17"
PROPS_FILE = "Props/C17.v"
COQ_TARGETS = ["Harness/H17.vo"]
ALLOWED_AXIOMS = []
META = {
    "level_text": "Machine-checked proof (Coq) about the literal model of platypus/types.py int2bin/bin2int/bin2gray/gray2bin and Integer.__init__/encode/decode "
                  "(bits = list bool MSB first, integers = Z, so every range min<max and every width, no 2^32 bound): the conversions are mutually inverse for every "
                  "length, every bit string of the variable's length decodes into [min,max] (single wrap-around subtraction), decode(encode v) = v, decode is onto "
                  "[min,max], consecutive integers have encodings at Hamming distance 1, min>=max is rejected.  The model is tied to /repo on every run by exact "
                  "differential correspondence (all values and all bit strings for every width <= 64 (thorough <= 256) and 2^k, 2^k+-1 up to 2^10 (2^13), samples up to "
                  "2^32, evaluated in Coq by vm_compute) and an independent oracle of the English statement on the real code.",
    "level_note": "The model replaces the float expression int(math.log(w,2))+1 by Z.log2 w + 1; this is NOT proved, it is tied by correspondence only: exhaustively "
                  "for w <= 2^10 (thorough 2^16), for every 2^k, 2^k-1, 2^k+1 with k <= 32 at seven offsets (negative, zero-crossing, max=0), and random widths < 2^32 "
                  "(the float expression first goes wrong at w = 2^48-1, outside the property; the run records the sweep).  gray2bin([]) raises IndexError and "
                  "int2bin(n<0) does not terminate in the code: both are None in the model, so Gray inversion is stated for length >= 1 and int2bin for n >= 0 "
                  "(Integer never has 0 bits and encode is only given value >= min).  Trusted: Coq kernel + VM, the harness literal printer/shard runner; the model "
                  "is tied to the code only on the enumerated/sampled inputs.  No axioms (all theorems closed under the global context).",
    "technique": "Coq proof over Z / list bool + exact model/implementation correspondence (vm_compute) + oracle on the real code",
}


# ----------------------------------------------------------------------------
# literals
# ----------------------------------------------------------------------------
def bl(bits):
    return C.list_lit([C.bool_lit(bool(b)) for b in bits])


def optz(x):
    return C.opt_lit(x, C.z_lit)


def optbl(x):
    return C.opt_lit(x, bl)


def isbits(x):
    return isinstance(x, list) and all(isinstance(b, (bool, int)) and b in (0, 1) for b in x)


def call(f, *a):
    """run the real code; an exception is the outcome None (the model's None)"""
    try:
        return f(*a), None
    except Exception as e:  # noqa: BLE001
        return None, type(e).__name__


def own_bits(n, k):
    """driver-side bit string (only used to choose interesting inputs)"""
    return [bool((n >> (k - 1 - i)) & 1) for i in range(k)]


def own_gray_bits(n, k):
    return own_bits(n ^ (n >> 1), k)


def ham(a, b):
    return sum(1 for x, y in zip(a, b) if bool(x) != bool(y)) + abs(len(a) - len(b))


# ----------------------------------------------------------------------------
# oracle: the English statement, directly on the real code
# ----------------------------------------------------------------------------
def oracle_range(ctx, mn, mx, values, bitstrings, exhaustive, where="run"):
    """values: in-range integers to round-trip (and v+1 adjacency); bitstrings: strings of length nbits (None = all)."""
    from platypus import Integer
    rp = {"kind": "range", "min": mn, "max": mx, "exhaustive": bool(exhaustive),
          "values": None if exhaustive else [int(v) for v in values]}
    t, err = call(Integer, mn, mx)
    if t is None:
        ctx.violation("integer-constructor-raises", "Integer(%d,%d) raised %s for min<max" % (mn, mx, err), rp)
        return
    nb = t.nbits
    if exhaustive:
        values = range(mn, mx + 1)
        bitstrings = [list(b) for b in itertools.product([False, True], repeat=nb)] if nb <= 16 else []
    rp["bits"] = None if exhaustive else [[int(bool(x)) for x in b] for b in bitstrings]
    seen = set()
    for v in values:
        e, err = call(t.encode, v)
        if e is None:
            ctx.violation("encode-raises", "Integer(%d,%d).encode(%d) raised %s" % (mn, mx, v, err), dict(rp, value=v))
            return
        if len(e) != nb:
            ctx.violation("encode-length", "Integer(%d,%d): encode(%d) has %d bits, the variable has nbits=%d (value not produced by any string of the variable's length)"
                          % (mn, mx, v, len(e), nb), dict(rp, value=v))
        d, err = call(t.decode, e)
        if d != v:
            ctx.violation("decode-encode-roundtrip", "Integer(%d,%d): decode(encode(%d)) = %r (%s)" % (mn, mx, v, d, err), dict(rp, value=v))
        if v < mx:
            e2, err = call(t.encode, v + 1)
            if e2 is None or ham(e, e2) != 1:
                ctx.violation("gray-adjacency", "Integer(%d,%d): encode(%d) and encode(%d) differ in %s bits" % (mn, mx, v, v + 1, "?" if e2 is None else ham(e, e2)),
                              dict(rp, value=v))
    for b in bitstrings:
        d, err = call(t.decode, list(b))
        if d is None:
            ctx.violation("decode-raises", "Integer(%d,%d).decode(%r) raised %s" % (mn, mx, b, err), dict(rp, bitstring=[int(bool(x)) for x in b]))
            continue
        seen.add(d)
        if not (mn <= d <= mx):
            ctx.violation("decode-out-of-range", "Integer(%d,%d).decode(%s) = %d is outside [%d,%d]" % (mn, mx, "".join("1" if x else "0" for x in b), d, mn, mx),
                          dict(rp, bitstring=[int(bool(x)) for x in b]))
    if exhaustive and bitstrings:
        missing = [v for v in range(mn, mx + 1) if v not in seen]
        if missing:
            ctx.violation("decode-not-surjective", "Integer(%d,%d): no %d-bit string decodes to %r" % (mn, mx, nb, missing[:5]), rp)


def oracle_bits(ctx, b):
    from platypus.types import int2bin, bin2int, bin2gray, gray2bin
    b = [bool(x) for x in b]
    rp = {"kind": "bits", "bits": [int(x) for x in b]}
    n, err = call(bin2int, b)
    back, err2 = (None, None) if n is None else call(int2bin, n, len(b))
    if back is None or [bool(x) for x in back] != b:
        ctx.violation("int2bin-bin2int-not-inverse", "int2bin(bin2int(b), len(b)) = %r for b=%r" % (back, b), rp)
    if len(b) >= 1:
        g, err = call(bin2gray, b)
        bb, err2 = (None, None) if g is None else call(gray2bin, g)
        if g is None or len(g) != len(b) or bb is None or [bool(x) for x in bb] != b:
            ctx.violation("gray2bin-bin2gray-not-inverse", "gray2bin(bin2gray(b)) = %r for b=%r" % (bb, b), rp)
        u, err = call(gray2bin, b)
        gg, err2 = (None, None) if u is None else call(bin2gray, u)
        if u is None or len(u) != len(b) or gg is None or [bool(x) for x in gg] != b:
            ctx.violation("bin2gray-gray2bin-not-inverse", "bin2gray(gray2bin(b)) = %r for b=%r" % (gg, b), rp)


def oracle_i2b(ctx, n, k):
    from platypus.types import int2bin, bin2int
    rp = {"kind": "i2b", "n": n, "k": k}
    b, err = call(int2bin, n, k)
    if b is None:
        ctx.violation("int2bin-raises", "int2bin(%d,%d) raised %s" % (n, k, err), rp)
        return
    m, err = call(bin2int, b)
    if m != n:
        ctx.violation("bin2int-int2bin-not-inverse", "bin2int(int2bin(%d,%d)) = %r" % (n, k, m), rp)
    if n < (1 << k) and len(b) != k:
        ctx.violation("int2bin-length", "int2bin(%d,%d) has %d bits" % (n, k, len(b)), rp)


# ----------------------------------------------------------------------------
# case generation (real code runs here)
# ----------------------------------------------------------------------------
def offsets(w):
    """min values: zero-based, zero-crossing, max = 0, all-negative, small positive, large positive, large negative"""
    return [0, -(w // 2) - 1, -w, -w - 5, 1, 12345, -(1 << 31)]


def nbits_case(mn, mx):
    from platypus import Integer
    t, err = call(Integer, mn, mx)
    return "KNbits %s %s %s" % (C.z_lit(mn), C.z_lit(mx), optz(None if t is None else t.nbits)), (None if t is None else t.nbits)


def run(ctx):
    from platypus import Integer
    from platypus.types import int2bin, bin2int, bin2gray, gray2bin
    rng = ctx.rng
    imports = ["Base.Num", "Model.Gray", "Harness.H17"]
    dist = {}

    # ---- 1. bit count: float logarithm vs Z.log2 ------------------------------------------
    lits = []
    meta = []
    wmax = ctx.scale(1 << 10, 1 << 16)
    for w in range(1, wmax + 1):
        mn = offsets(w)[w % 7]
        lit, nb = nbits_case(mn, mn + w)
        lits.append(lit); meta.append((mn, mn + w)); ctx.count()
        if nb != w.bit_length():
            oracle_range(ctx, mn, mn + w, [mn, mn + w, mn + w - 1, mn + w // 2], [], False)
    nb_pow = 0
    for k in range(0, 33):
        for d in (-1, 0, 1):
            w = (1 << k) + d
            if w < 1 or w >= (1 << 32) + 2:
                continue
            for mn in offsets(w):
                lit, nb = nbits_case(mn, mn + w)
                lits.append(lit); meta.append((mn, mn + w)); ctx.count(); nb_pow += 1
                ctx.mark(("nbits-boundary", k, d, mn))
    nrand = ctx.scale(600, 20000)
    for _ in range(nrand):
        w = rng.randrange(1, 1 << rng.randrange(1, 33))
        mn = rng.choice(offsets(w) + [rng.randrange(-(1 << 33), 1 << 33)])
        lit, nb = nbits_case(mn, mn + w)
        lits.append(lit); meta.append((mn, mn + w)); ctx.count()
    nrej = 0
    for mn, mx in [(0, 0), (5, 5), (-3, -3), (1, 0), (7, -7), (1 << 40, 1 << 40)]:
        lit, nb = nbits_case(mn, mx)   # rejected by the constructor (math domain error): None on both sides
        lits.append(lit); meta.append((mn, mx)); ctx.count(); nrej += 1
    dist["nbits"] = {"exhaustive_widths_upto": wmax, "pow2_boundary_cases(k<=32, d in -1,0,1, 7 offsets)": nb_pow, "random_widths_below_2^32": nrand, "rejected_ranges": nrej}
    # informational: where the float expression first leaves Z.log2 (outside the property's 2^32 bound)
    first_bad = None
    for k in range(33, 80):
        for d in (-1, 0, 1):
            w = (1 << k) + d
            t, err = call(Integer, 0, w)
            if first_bad is None and (t is None or t.nbits != w.bit_length()):
                first_bad = "w=2^%d%+d: nbits=%s, exact %d" % (k, d, None if t is None else t.nbits, w.bit_length())
    ctx.coverage["float_log_first_wrong_beyond_property_bound"] = first_bad or "none up to 2^79"
    bad = C.run_coq_cases(ctx, "nbits", imports, "c17case", "c17_check", lits, shard=3000)
    if bad is not None:
        ctx.obligation("correspondence:nbits=Z.log2+1(%d ranges)" % len(lits), "correspondence", not bad,
                       "Integer.nbits differs from Z.log2 w + 1 on %r; first: %s" % (bad[:10], lits[bad[0]] if bad else ""))
        for i in bad[:20]:
            mn, mx = meta[i]
            if mn < mx:
                w = mx - mn
                oracle_range(ctx, mn, mx, sorted({mn, mx, mx - 1, mn + w // 2, mn + 1}), [], False)
                t, err = call(Integer, mn, mx)
                if t is not None and t.nbits <= 14:
                    oracle_range(ctx, mn, mx, None, None, True)
                elif t is not None:
                    k = t.nbits
                    oracle_range(ctx, mn, mx, [mn, mx], [[True] * k, own_gray_bits((1 << k) - 1, k), own_gray_bits(min(w + 1, (1 << k) - 1), k)], False)
    ncorr = len(lits)

    # ---- 2. whole ranges, exhaustively: every value and EVERY bit string --------------------
    lits = []
    meta = []
    widths = list(range(1, ctx.scale(64, 256) + 1))
    for k in range(7, ctx.scale(10, 13) + 1):
        widths += [(1 << k) - 1, 1 << k, (1 << k) + 1]
    widths = sorted(set(widths))
    nstrings = 0
    nwrap = 0
    for w in widths:
        offs = [0, -(w // 2) - 1, -w - 17] if w <= 256 else [(-(w // 2) - 1, 0, -w - 17)[w % 3]]
        for mn in offs:
            mx = mn + w
            t, err = call(Integer, mn, mx)
            if t is None:
                ctx.violation("integer-constructor-raises", "Integer(%d,%d) raised %s" % (mn, mx, err), {"kind": "range", "min": mn, "max": mx, "exhaustive": True})
                continue
            nb = t.nbits
            if nb > 16:
                oracle_range(ctx, mn, mx, [mn, mx], [], False)
                continue
            encs = [call(t.encode, v)[0] for v in range(mn, mx + 1)]
            allb = [list(b) for b in itertools.product([False, True], repeat=nb)]
            decs = [call(t.decode, list(b))[0] for b in allb]
            ctx.count(len(encs) + len(decs))
            nstrings += len(decs)
            if any(not isbits(e) for e in encs) or any(not isinstance(d, int) for d in decs):
                # an exception inside the sweep: ship call by call so that the model's None can be compared
                for v, e in zip(range(mn, mx + 1), encs):
                    lits.append("KEnc %s %s %s %s" % (C.z_lit(mn), C.z_lit(mx), C.z_lit(v), optbl(e if isbits(e) else None))); meta.append((mn, mx))
                for b, d in zip(allb, decs):
                    lits.append("KDec %s %s %s %s" % (C.z_lit(mn), C.z_lit(mx), bl(b), optz(d if isinstance(d, int) else None))); meta.append((mn, mx))
            else:
                lits.append("KRange %s %s %s %s %s" % (C.z_lit(mn), C.z_lit(mx), C.z_lit(nb), C.list_lit([bl(e) for e in encs]), C.list_lit([C.z_lit(d) for d in decs])))
                meta.append((mn, mx))
            # which strings take the wrap-around branch (value > max-min): those are the non-trivial decodes
            wraps = (1 << nb) - 1 - w if (1 << nb) - 1 > w else 0
            nwrap += wraps
            for j in range(wraps):
                ctx.mark(("wrap", mn, mx, j))
            if wraps == 0:
                ctx.mark(("full-range", mn, mx))
            oracle_range(ctx, mn, mx, None, None, True)
            if w in (5, 10) and mn != 0 and mn > -w:
                ctx.sample({"range": [mn, mx], "nbits": nb, "encode(min..)": ["".join("1" if x else "0" for x in e) for e in encs[:6]],
                            "decode(all strings)": decs[:16]})
    dist["exhaustive_ranges"] = {"widths": "1..%d and 2^k,2^k+-1 for k<=%d" % (ctx.scale(64, 256), ctx.scale(10, 13)), "ranges": len(meta),
                                 "bit_strings_decoded": nstrings, "strings_taking_wraparound": nwrap}
    bad = C.run_coq_cases(ctx, "ranges", imports, "c17case", "c17_check", lits, shard=ctx.scale(12, 40))
    if bad is not None:
        ctx.obligation("correspondence:encode/decode-exhaustive(%d ranges, %d bit strings)" % (len(lits), nstrings), "correspondence", not bad,
                       "model and Integer.encode/decode differ on ranges %r" % ([meta[i] for i in bad[:10]],))
        for i in bad[:5]:
            ctx.sample({"model_impl_disagree_range": meta[i]})   # the oracle already ran exhaustively on these ranges
    ncorr += len(lits)

    # ---- 3. wide ranges (up to 2^32), sampled values and bit strings --------------------------
    lits = []
    meta = []
    wide = []
    for k in range(11, 33):
        for d in (-1, 0, 1):
            w = (1 << k) + d
            if w < (1 << 32):
                wide.append((offsets(w)[(k + d) % 7], w))
    for _ in range(ctx.scale(120, 3000)):
        w = rng.randrange(257, 1 << rng.randrange(9, 33))
        wide.append((rng.choice(offsets(w) + [rng.randrange(-(1 << 33), 1 << 33)]), w))
    nsv = nsb = 0
    for mn, w in wide:
        mx = mn + w
        t, err = call(Integer, mn, mx)
        if t is None:
            ctx.violation("integer-constructor-raises", "Integer(%d,%d) raised %s" % (mn, mx, err), {"kind": "range", "min": mn, "max": mx, "exhaustive": False, "values": [], "bits": []})
            continue
        k = t.nbits
        vals = sorted({mn, mn + 1, mx - 1, mx, mn + w // 2, mn + (1 << (max(k, 2) - 2)), mn + min(w, (1 << (max(k, 1) - 1))), mn + min(w, (1 << (max(k, 1) - 1)) - 1)}
                      | {mn + rng.randrange(0, w + 1) for _ in range(4)})
        vals = [v for v in vals if mn <= v <= mx]
        top = (1 << k) - 1
        ns = {0, top, min(w, top), min(w + 1, top), min(w + 2, top), (w + top) // 2, 1 << (k - 1), (1 << (k - 1)) - 1} | {rng.randrange(0, top + 1) for _ in range(4)}
        strings = [own_gray_bits(n, k) for n in sorted(ns)] + [[True] * k, [False] * k, [True] + [False] * (k - 1)]
        for v in vals:
            e, err = call(t.encode, v)
            lits.append("KEnc %s %s %s %s" % (C.z_lit(mn), C.z_lit(mx), C.z_lit(v), optbl(e if isbits(e) else None))); meta.append((mn, mx, vals, strings))
            ctx.count(); nsv += 1
        for b in strings:
            d, err = call(t.decode, list(b))
            lits.append("KDec %s %s %s %s" % (C.z_lit(mn), C.z_lit(mx), bl(b), optz(d if isinstance(d, int) else None))); meta.append((mn, mx, vals, strings))
            ctx.count(); nsb += 1
        ctx.mark(("wide", mn, mx))
        oracle_range(ctx, mn, mx, vals, strings, False)
    if wide:
        ctx.sample({"wide_range": [wide[-1][0], wide[-1][0] + wide[-1][1]], "coq_case": lits[-1]})
    dist["sampled_wide_ranges"] = {"ranges": len(wide), "values_encoded": nsv, "bit_strings_decoded": nsb, "max_width": max(w for _, w in wide)}
    bad = C.run_coq_cases(ctx, "wide", imports, "c17case", "c17_check", lits, shard=600)
    if bad is not None:
        ctx.obligation("correspondence:encode/decode-sampled(%d calls on %d wide ranges)" % (len(lits), len(wide)), "correspondence", not bad,
                       "model and Integer.encode/decode differ; first: %s" % (lits[bad[0]] if bad else ""))
        done = set()
        for i in bad[:10]:
            mn, mx, vals, strings = meta[i]
            if (mn, mx) in done:
                continue
            done.add((mn, mx))
            # neighbourhood of the disagreeing range: denser sample
            more = sorted({min(mx, max(mn, v + dv)) for v in vals for dv in (-2, -1, 0, 1, 2)})
            oracle_range(ctx, mn, mx, more, strings, False)
            ctx.sample({"model_impl_disagree": lits[i]})
    ncorr += len(lits)

    # ---- 4. the four conversion functions -----------------------------------------------------
    lits = []
    meta = []
    kmax = ctx.scale(10, 13)
    for k in range(0, kmax + 1):
        allb = [list(b) for b in itertools.product([False, True], repeat=k)]
        b2i = [call(bin2int, list(b))[0] for b in allb]
        b2g = [call(bin2gray, list(b))[0] for b in allb]
        g2b = [call(gray2bin, list(b))[0] for b in allb]
        ctx.count(3 * len(allb))
        if all(isinstance(x, int) for x in b2i) and all(isbits(x) for x in b2g):
            lits.append("KConvAll %s %s %s %s" % (C.z_lit(k), C.list_lit([C.z_lit(x) for x in b2i]), C.list_lit([bl(x) for x in b2g]),
                                                  C.list_lit([optbl(x if isbits(x) else None) for x in g2b])))
            meta.append(("all", k))
        else:
            for b, x in zip(allb, b2i):
                lits.append("KB2I %s %s" % (bl(b), C.z_lit(x if isinstance(x, int) else -1))); meta.append(("bits", b))
            for b, x in zip(allb, b2g):
                lits.append("KB2G %s %s" % (bl(b), bl(x if isbits(x) else []))); meta.append(("bits", b))
        for b in allb:
            oracle_bits(ctx, b)
            if k >= 2:
                ctx.mark(("conv", k, tuple(b)))
    nlong = ctx.scale(400, 5000)
    for _ in range(nlong):
        k = rng.randrange(kmax + 1, 100)
        style = rng.randrange(4)
        if style == 0:
            b = [rng.random() < 0.5 for _ in range(k)]
        elif style == 1:
            b = [False] * rng.randrange(0, k) ; b = b + [True] * (k - len(b))
        elif style == 2:
            b = [i % 2 == 0 for i in range(k)]
        else:
            b = [rng.random() < 0.1 for _ in range(k)]
        x, _e = call(bin2int, list(b)); lits.append("KB2I %s %s" % (bl(b), C.z_lit(x if isinstance(x, int) else -1))); meta.append(("bits", b))
        x, _e = call(bin2gray, list(b)); lits.append("KB2G %s %s" % (bl(b), bl(x if isbits(x) else []))); meta.append(("bits", b))
        x, _e = call(gray2bin, list(b)); lits.append("KG2B %s %s" % (bl(b), optbl(x if isbits(x) else None))); meta.append(("bits", b))
        ctx.count(3)
        ctx.mark(("conv", k, tuple(b)))
        oracle_bits(ctx, b)
    ni2b = 0
    for n in range(0, ctx.scale(1 << 10, 1 << 13) + 1):
        for k in sorted({0, n.bit_length(), n.bit_length() + 3, max(0, n.bit_length() - 1)}):
            x, _e = call(int2bin, n, k)
            lits.append("KI2B %s %s %s" % (C.z_lit(n), C.z_lit(k), optbl(x if isbits(x) else None))); meta.append(("i2b", n, k))
            ctx.count(); ni2b += 1
            oracle_i2b(ctx, n, k)
    for _ in range(ctx.scale(300, 5000)):
        n = rng.randrange(0, 1 << rng.randrange(1, 90))
        k = rng.choice([n.bit_length(), n.bit_length() + rng.randrange(0, 8), rng.randrange(0, 100)])
        x, _e = call(int2bin, n, k)
        lits.append("KI2B %s %s %s" % (C.z_lit(n), C.z_lit(k), optbl(x if isbits(x) else None))); meta.append(("i2b", n, k))
        ctx.count(); ni2b += 1
        oracle_i2b(ctx, n, k)
    dist["conversions"] = {"all_bit_strings_of_length_0_to": kmax, "random_long_bit_strings(len<100)": nlong, "int2bin_calls": ni2b,
                           "note": "int2bin with n<0 is never run (does not terminate in the code; None in the model)"}
    ctx.sample({"coq_case": lits[len(lits) // 2][:300]})
    bad = C.run_coq_cases(ctx, "conv", imports, "c17case", "c17_check", lits, shard=1500)
    if bad is not None:
        ctx.obligation("correspondence:int2bin/bin2int/bin2gray/gray2bin(%d cases)" % len(lits), "correspondence", not bad,
                       "model and conversion functions differ; first: %s" % (lits[bad[0]][:400] if bad else ""))
        for i in bad[:10]:
            m = meta[i]
            if m[0] == "bits":       # neighbourhood: the string, its prefixes/suffixes and one-bit flips
                b = list(m[1])
                for nb_ in [b, b[1:], b[:-1]] + [b[:j] + [not b[j]] + b[j + 1:] for j in range(min(len(b), 8))]:
                    oracle_bits(ctx, nb_)
            elif m[0] == "i2b":
                for dn in (-1, 0, 1):
                    if m[1] + dn >= 0:
                        oracle_i2b(ctx, m[1] + dn, m[2])
            ctx.sample({"model_impl_disagree": lits[i][:300]})
    ncorr += len(lits)

    ctx.coverage["input_distribution"] = dist
    ctx.coverage["correspondence_cases"] = ncorr
    ctx.coverage["exhaustive"] = False
    ctx.rule = ("ranges: every width 1..%d at three offsets (zero-based, zero-crossing, negative) and 2^k, 2^k+-1 up to 2^%d, each with ALL values encoded and ALL "
                "2^nbits strings decoded; %d wider ranges below 2^32 (every 2^k, 2^k+-1, random) with sampled values/strings (ends, middle, around max-min, all-ones, random); "
                "nbits for every width <= %d, all 2^k/2^k+-1 (k<=32) x 7 offsets, random; conversions on all strings of length <= %d and random longer ones.  "
                "non-trivial & distinct = (range, string) pairs that take the wrap-around branch, ranges whose strings all map directly, nbits boundary cases "
                "(k, +-1, offset), wide ranges, conversion inputs of length >= 2; each counted once by its full input"
                % (ctx.scale(64, 256), ctx.scale(10, 13), len(wide), wmax, kmax))


def replay(ctx, data):
    rp = data.get("replay", {})
    kind = rp.get("kind")
    if kind == "range":
        if rp.get("exhaustive"):
            oracle_range(ctx, rp["min"], rp["max"], None, None, True, where="replay")
        else:
            vals = list(rp.get("values") or [])
            if "value" in rp:
                vals.append(rp["value"])
            strings = [[bool(x) for x in b] for b in (rp.get("bits") or [])]
            if "bitstring" in rp:
                strings.append([bool(x) for x in rp["bitstring"]])
            oracle_range(ctx, rp["min"], rp["max"], vals, strings, False, where="replay")
        ctx.count()
    elif kind == "bits":
        oracle_bits(ctx, rp["bits"])
        ctx.count()
    elif kind == "i2b":
        oracle_i2b(ctx, rp["n"], rp["k"])
        ctx.count()
    else:
        run(ctx)
