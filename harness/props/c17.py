"""C17 — Integer variables round-trip through Gray-coded bits and never leave range."""
import itertools
from vlib import common as C

ID = "C17"
PROPS_FILE = "Props/C17.v"
COQ_TARGETS = ["Harness/H17.vo"]
ALLOWED_AXIOMS = []
# second tie (translator): coq/Gen/Core.v is regenerated from the source text of C.REPO on every run and
# coq/Tie/T17.v proves generated definition = hand model (harness/translate/py2coq_core.py)
EXTRA_PROPS = ["Tie/T17.v"]


def prebuild(ctx):
    import os
    import sys
    sys.path.insert(0, os.path.join(C.VERIF, "harness", "translate"))
    import py2coq_core
    py2coq_core.prebuild(ctx, C, ["Integer.decode", "Integer.encode", "bin2int", "gray2bin", "bin2gray", "int2bin"])


META = {
    "level_text": "Machine-checked proof (Coq) about the literal model of platypus/types.py int2bin/bin2int/bin2gray/gray2bin and Integer.__init__/encode/decode "
                  "(bits = list bool MSB first, integers = Z, so every range min<max and every width, no 2^32 bound): the conversions are mutually inverse for every "
                  "length, every bit string of the variable's length decodes into [min,max] (single wrap-around subtraction), decode(encode v) = v, decode is onto "
                  "[min,max], consecutive integers have encodings at Hamming distance 1, min>=max is rejected.  The model is tied to /repo on every run by exact "
                  "differential correspondence (all values and all bit strings for every width <= 64 (thorough <= 256) and 2^k, 2^k+-1 up to 2^10 (2^13), samples up to "
                  "2^32, and operation sequences on long-lived Integer instances in which returned bit strings are modified in place and the same value is encoded again; "
                  "all evaluated in Coq by vm_compute) and an independent oracle of the English statement on the real code.",
    "level_note": "Tie/T17.v also states range and round trip about the encode/decode path (six routines) GENERATED from the source text (tie_c17_generated_*). The model replaces the float expression int(math.log(w,2))+1 by Z.log2 w + 1; this is NOT proved, it is tied by correspondence only: exhaustively "
                  "for w <= 2^10 (thorough 2^16), for every 2^k, 2^k-1, 2^k+1 with k <= 32 at 15 offsets (negative, zero-crossing, max=0, and offsets beyond 2^53, 2^63, 10^18, 2^100 that no double represents), and random widths < 2^32 "
                  "(the float expression first goes wrong at w = 2^48-1, outside the property; the run records the sweep).  gray2bin([]) raises IndexError and "
                  "int2bin(n<0) does not terminate in the code: both are None in the model, so Gray inversion is stated for length >= 1 and int2bin for n >= 0 "
                  "(Integer never has 0 bits and encode is only given value >= min).  The model is functional: that encode/rand/the conversions hand out fresh lists and leave their "
                  "arguments alone is a frame obligation checked dynamically (in-place modification of every returned list, then the same request again), not a theorem.  Trusted: Coq kernel + VM, the harness literal printer/shard runner; the model "
                  "is tied to the code only on the enumerated/sampled inputs.  No axioms (all theorems closed under the global context).",
    "technique": "Coq proof over Z / list bool + exact model/implementation correspondence (vm_compute) + oracle on the real code",
}


# ----------------------------------------------------------------------------
# literals
# ----------------------------------------------------------------------------
def bl(bits):
    return C.list_lit([C.bool_lit(bool(b)) for b in bits])


def optz(x):
    return C.opt_lit(x, C.z_lit)


def optbl(x):
    return C.opt_lit(x, bl)


def isbits(x):
    return isinstance(x, list) and all(isinstance(b, (bool, int)) and b in (0, 1) for b in x)


class _CallTimeout(Exception):
    pass


class TooManyHangs(Exception):
    pass


_HANGS = {"n": 0}


def _on_alarm(signum, frame):
    raise _CallTimeout()


def call(f, *a):
    """run the real code; an exception is the outcome None (the model's None).
    int2bin loops forever on a negative argument (e.g. when a changed Integer moves its lower bound above a requested value):
    every call runs under a watchdog (5 s for the first hang, 1 s afterwards); after 8 hangs the run is abandoned
    (the violations recorded so far are reported)."""
    # CPU-time watchdog (wall-clock backstop 30x): wall-clock limits raise false alarms on a loaded machine
    try:
        with C.cpu_time_limit(5.0 if _HANGS["n"] == 0 else 1.0, exc=_CallTimeout):
            r = f(*a)
        return r, None
    except _CallTimeout:
        _HANGS["n"] += 1
        if _HANGS["n"] >= 8:
            raise TooManyHangs("%d calls of the code under test did not return within the watchdog time; last: %s%r" % (_HANGS["n"], getattr(f, "__name__", f), a))
        return None, "no result within the watchdog time (does not terminate?)"
    except Exception as e:  # noqa: BLE001
        return None, type(e).__name__


def own_bits(n, k):
    """driver-side bit string (only used to choose interesting inputs)"""
    return [bool((n >> (k - 1 - i)) & 1) for i in range(k)]


def own_gray_bits(n, k):
    return own_bits(n ^ (n >> 1), k)


def ham(a, b):
    return sum(1 for x, y in zip(a, b) if bool(x) != bool(y)) + abs(len(a) - len(b))


# ----------------------------------------------------------------------------
# oracle: the English statement, directly on the real code
# ----------------------------------------------------------------------------
def oracle_range(ctx, mn, mx, values, bitstrings, exhaustive, where="run"):
    """values: in-range integers to round-trip (and v+1 adjacency); bitstrings: strings of length nbits (None = all)."""
    from platypus import Integer
    rp = {"kind": "range", "min": mn, "max": mx, "exhaustive": bool(exhaustive),
          "values": None if exhaustive else [int(v) for v in values]}
    t, err = call(Integer, mn, mx)
    if t is None:
        ctx.violation("integer-constructor-raises", "Integer(%d,%d) raised %s for min<max" % (mn, mx, err), rp)
        return
    nb = t.nbits
    if exhaustive:
        values = range(mn, mx + 1)
        bitstrings = [list(b) for b in itertools.product([False, True], repeat=nb)] if nb <= 16 else []
    rp["bits"] = None if exhaustive else [[int(bool(x)) for x in b] for b in bitstrings]
    seen = set()
    for v in values:
        e, err = call(t.encode, v)
        if e is None:
            ctx.violation("encode-raises", "Integer(%d,%d).encode(%d) raised %s" % (mn, mx, v, err), dict(rp, value=v))
            return
        if len(e) != nb:
            ctx.violation("encode-length", "Integer(%d,%d): encode(%d) has %d bits, the variable has nbits=%d (value not produced by any string of the variable's length)"
                          % (mn, mx, v, len(e), nb), dict(rp, value=v))
        d, err = call(t.decode, e)
        if d != v:
            ctx.violation("decode-encode-roundtrip", "Integer(%d,%d): decode(encode(%d)) = %r (%s)" % (mn, mx, v, d, err), dict(rp, value=v))
        if v < mx:
            e2, err = call(t.encode, v + 1)
            if e2 is None or ham(e, e2) != 1:
                ctx.violation("gray-adjacency", "Integer(%d,%d): encode(%d) and encode(%d) differ in %s bits" % (mn, mx, v, v + 1, "?" if e2 is None else ham(e, e2)),
                              dict(rp, value=v))
    for b in bitstrings:
        d, err = call(t.decode, list(b))
        if d is None:
            ctx.violation("decode-raises", "Integer(%d,%d).decode(%r) raised %s" % (mn, mx, b, err), dict(rp, bitstring=[int(bool(x)) for x in b]))
            continue
        seen.add(d)
        if not (mn <= d <= mx):
            ctx.violation("decode-out-of-range", "Integer(%d,%d).decode(%s) = %d is outside [%d,%d]" % (mn, mx, "".join("1" if x else "0" for x in b), d, mn, mx),
                          dict(rp, bitstring=[int(bool(x)) for x in b]))
    if exhaustive and bitstrings:
        missing = [v for v in range(mn, mx + 1) if v not in seen]
        if missing:
            ctx.violation("decode-not-surjective", "Integer(%d,%d): no %d-bit string decodes to %r" % (mn, mx, nb, missing[:5]), rp)


def oracle_bits(ctx, b):
    from platypus.types import int2bin, bin2int, bin2gray, gray2bin
    b = [bool(x) for x in b]
    rp = {"kind": "bits", "bits": [int(x) for x in b]}
    n, err = call(bin2int, b)
    back, err2 = (None, None) if n is None else call(int2bin, n, len(b))
    if back is None or [bool(x) for x in back] != b:
        ctx.violation("int2bin-bin2int-not-inverse", "int2bin(bin2int(b), len(b)) = %r for b=%r" % (back, b), rp)
    if len(b) >= 1:
        g, err = call(bin2gray, b)
        bb, err2 = (None, None) if g is None else call(gray2bin, g)
        if g is None or len(g) != len(b) or bb is None or [bool(x) for x in bb] != b:
            ctx.violation("gray2bin-bin2gray-not-inverse", "gray2bin(bin2gray(b)) = %r for b=%r" % (bb, b), rp)
        u, err = call(gray2bin, b)
        gg, err2 = (None, None) if u is None else call(bin2gray, u)
        if u is None or len(u) != len(b) or gg is None or [bool(x) for x in gg] != b:
            ctx.violation("bin2gray-gray2bin-not-inverse", "bin2gray(gray2bin(b)) = %r for b=%r" % (gg, b), rp)


def oracle_i2b(ctx, n, k):
    from platypus.types import int2bin, bin2int
    rp = {"kind": "i2b", "n": n, "k": k}
    b, err = call(int2bin, n, k)
    if b is None:
        ctx.violation("int2bin-raises", "int2bin(%d,%d) raised %s" % (n, k, err), rp)
        return
    m, err = call(bin2int, b)
    if m != n:
        ctx.violation("bin2int-int2bin-not-inverse", "bin2int(int2bin(%d,%d)) = %r" % (n, k, m), rp)
    if n < (1 << k) and len(b) != k:
        ctx.violation("int2bin-length", "int2bin(%d,%d) has %d bits" % (n, k, len(b)), rp)


# ----------------------------------------------------------------------------
# operation sequences on ONE long-lived Integer instance: encodings handed out are modified in place
# (what a bit-flip operator does to the list it received) and the same value is requested again
# ----------------------------------------------------------------------------
def mutate_inplace(obj, how):
    """modify a returned object in place; False if it is immutable (then nothing can be corrupted through it)"""
    try:
        if how == "flipall":
            for j in range(len(obj)):
                obj[j] = not obj[j]
        elif how == "clear":
            del obj[:]
        elif how == "extend":
            obj.extend([True, False, True])
        else:
            for j in how:
                if j < len(obj):
                    obj[j] = not obj[j]
        return True
    except (TypeError, AttributeError):
        return False


def bstr(b):
    return "".join("1" if x else "0" for x in b)


def run_sequence(ctx, mn, mx, ops, lits=None, frame=None):
    """ops (JSON): ["enc", v] | ["mut", i, how] | ["dec", i] | ["adj", v] | ["rand", seed]; i indexes the lists returned so far.
    Every call is checked against the English statement on the spot; (input, output) pairs go to `lits` for the Coq model
    (which is stateless: the same value must give the same encoding whatever happened before)."""
    import random as _random
    from platypus import Integer
    done = []

    def rp():
        return {"kind": "sequence", "min": mn, "max": mx, "ops": [list(o) for o in done]}

    t, err = call(Integer, mn, mx)
    if t is None:
        ctx.violation("integer-constructor-raises", "Integer(%d,%d) raised %s" % (mn, mx, err), rp())
        return
    nb = t.nbits
    ret = []                 # [object as returned, snapshot at return time]
    state = {"mut": False}

    def register(obj):
        if isinstance(obj, list) and any(obj is r[0] for r in ret):
            if frame is not None:
                frame.append("Integer(%d,%d): a call returned the very list object handed out by an earlier call (after %d ops)" % (mn, mx, len(done)))
        ret.append([obj, [bool(x) for x in obj] if isbits(obj) else None])

    def after():
        return " after an earlier returned bit string was modified in place" if state["mut"] else ""

    def enc(v, keybase):
        e, err = call(t.encode, v)
        if e is None or not isbits(e):
            ctx.violation("encode-raises", "Integer(%d,%d) (one long-lived instance)%s: encode(%d) -> %r %s" % (mn, mx, after(), v, e, err), rp())
            if lits is not None:
                lits.append("KEnc %s %s %s None" % (C.z_lit(mn), C.z_lit(mx), C.z_lit(v)))
            return None
        register(e)
        snap = [bool(x) for x in e]
        if lits is not None:
            lits.append("KEnc %s %s %s %s" % (C.z_lit(mn), C.z_lit(mx), C.z_lit(v), optbl(snap)))
        ctx.count()
        what = None
        if len(snap) != nb:
            what = "has %d bits (nbits=%d)" % (len(snap), nb)
        else:
            d, err = call(t.decode, list(snap))
            if d != v:
                what = "decodes to %r" % (d,)
        if what:
            ctx.violation(("encode-after-inplace-mutation" if state["mut"] else keybase),
                          "Integer(%d,%d) (one long-lived instance)%s: encode(%d) = %s %s" % (mn, mx, after(), v, bstr(snap), what), rp())
        return snap

    for op in ops:
        done.append(op)
        kind = op[0]
        if kind == "enc":
            enc(op[1], "decode-encode-roundtrip")
        elif kind == "mut":
            if ret and mutate_inplace(ret[op[1] % len(ret)][0], op[2]):
                state["mut"] = True
        elif kind == "dec":
            if not ret:
                continue
            obj = ret[op[1] % len(ret)][0]
            if not (isbits(obj) and len(obj) == nb):
                continue
            before = [bool(x) for x in obj]
            d, err = call(t.decode, obj)
            ctx.count()
            if [bool(x) for x in obj] != before and frame is not None:
                frame.append("Integer(%d,%d).decode modified its argument %s" % (mn, mx, bstr(before)))
            if lits is not None:
                lits.append("KDec %s %s %s %s" % (C.z_lit(mn), C.z_lit(mx), bl(before), optz(d if isinstance(d, int) else None)))
            if not isinstance(d, int):
                ctx.violation("decode-raises", "Integer(%d,%d).decode(%s) raised %s" % (mn, mx, bstr(before), err), rp())
            elif not (mn <= d <= mx):
                ctx.violation("decode-out-of-range", "Integer(%d,%d).decode(%s) = %d is outside the range" % (mn, mx, bstr(before), d), rp())
        elif kind == "adj":
            v = op[1]
            if not (mn <= v < mx):
                continue
            e1 = enc(v, "decode-encode-roundtrip")
            e2 = enc(v + 1, "decode-encode-roundtrip")
            if e1 is not None and e2 is not None and ham(e1, e2) != 1:
                ctx.violation("adjacency-after-inplace-mutation" if state["mut"] else "gray-adjacency",
                              "Integer(%d,%d) (one long-lived instance)%s: encode(%d)=%s and encode(%d)=%s differ in %d bits"
                              % (mn, mx, after(), v, bstr(e1), v + 1, bstr(e2), ham(e1, e2)), rp())
        elif kind == "rand":
            _random.seed(op[1])
            r1, err = call(t.rand)
            ctx.count()
            if r1 is None or not isbits(r1):
                ctx.violation("rand-raises", "Integer(%d,%d).rand() -> %r %s" % (mn, mx, r1, err), rp())
                continue
            register(r1)
            s1 = [bool(x) for x in r1]
            d, err = (None, None) if len(s1) != nb else call(t.decode, list(s1))
            if len(s1) != nb or not isinstance(d, int) or not (mn <= d <= mx):
                ctx.violation("rand-after-inplace-mutation" if state["mut"] else "rand-outside-range",
                              "Integer(%d,%d) (one long-lived instance)%s: rand() = %s (nbits=%d) decodes to %r" % (mn, mx, after(), bstr(s1), nb, d), rp())
                continue
            if lits is not None:
                lits.append("KDec %s %s %s %s" % (C.z_lit(mn), C.z_lit(mx), bl(s1), optz(d)))
            # the caller now flips the genome it was given; the same random state must give the same genome again
            if mutate_inplace(r1, "flipall"):
                state["mut"] = True
            _random.seed(op[1])
            r2, err = call(t.rand)
            if r2 is not None and isbits(r2):
                register(r2)
            if r2 is None or [bool(x) for x in r2] != s1:
                ctx.violation("rand-after-inplace-mutation",
                              "Integer(%d,%d) (one long-lived instance): random.seed(%d); rand() gave %s; after flipping that list in place, random.seed(%d); rand() gives %s"
                              % (mn, mx, op[1], bstr(s1), op[1], "?" if r2 is None else bstr(r2)), rp())


def gen_sequence(rng, mn, mx, nb, length):
    ops = []
    nret = 0
    hot = [rng.randrange(mn, mx + 1) for _ in range(3)] + [mn, mx]
    while len(ops) < length:
        v = rng.choice(hot)
        ops.append(["enc", v]); i = nret; nret += 1
        how = rng.choice(["flipall", "clear", "extend", sorted(rng.sample(range(nb), rng.randrange(1, nb + 1))), sorted(rng.sample(range(nb), 1))])
        ops.append(["mut", i, how])
        if how not in ("clear", "extend"):
            ops.append(["dec", i])
        ops.append(["enc", v]); nret += 1
        if v < mx and rng.random() < 0.7:
            ops.append(["adj", v]); nret += 2
        if rng.random() < 0.25:
            ops.append(["rand", rng.randrange(10000)]); nret += 2
    return ops


def conv_sharing(ctx, fname, args, frame):
    """a conversion function must give the same answer again after the list it returned was modified in place,
    and must leave its argument alone; afterwards the inverse laws are re-checked on the same input"""
    from platypus import types as T
    f = getattr(T, fname)
    a1 = [list(x) if isinstance(x, list) else x for x in args]
    r1, err = call(f, *a1)
    ctx.count()
    if not isinstance(r1, list):
        return
    s1 = list(r1)
    if [list(x) if isinstance(x, list) else x for x in a1] != [list(x) if isinstance(x, list) else x for x in args]:
        frame.append("%s%r modified its argument" % (fname, tuple(args)))
    if any(r1 is x for x in a1):
        frame.append("%s%r returned its own argument object" % (fname, tuple(args)))
    mutate_inplace(r1, "flipall"); mutate_inplace(r1, "extend")
    for again in (a1, [list(x) if isinstance(x, list) else x for x in args]):     # same argument objects, then fresh copies
        r2, err = call(f, *again)
        if not isinstance(r2, list) or list(r2) != s1:
            frame.append("%s%r returned %r, and after that list was modified in place the same call returns %r" % (fname, tuple(args), s1, r2))
            break
    if fname == "int2bin":
        oracle_i2b(ctx, args[0], args[1])
    else:
        oracle_bits(ctx, args[0])


# ----------------------------------------------------------------------------
# case generation (real code runs here)
# ----------------------------------------------------------------------------
# the property bounds the WIDTH (< 2^32), not the offset: bounds far beyond 2^53 (not representable as doubles), 2^63, 10^18, 2^100
HUGE_OFFS = [(1 << 53) + 1, (1 << 53) - 1, -(1 << 63) - 5, 10 ** 18 + 1, 1 << 100, -(1 << 100) - 7, -(10 ** 18) - 1001, -(1 << 53) - 9]
HUGE_RANGES = [((1 << 53) - 1, (1 << 53) + 1), ((1 << 53) + 1, (1 << 53) + 9), (-(1 << 63) - 5, -(1 << 63) + 5), (10 ** 18 + 1, 10 ** 18 + 1000),
               (1 << 100, (1 << 100) + (1 << 20) + 3), (-(1 << 53) - 1, -(1 << 53) + 1), (-(1 << 53) - 9, -(1 << 53) - 1), (-(10 ** 18) - 1000, -(10 ** 18) - 1),
               (-(1 << 100) - (1 << 20) - 3, -(1 << 100)), ((1 << 63) - 3, (1 << 63) + 4), (-(1 << 31) + 1, (1 << 31) - 3), ((1 << 64) + 1, (1 << 64) + 130)]


def offsets(w):
    """min values: zero-based, zero-crossing, max = 0, all-negative, small positive, large positive, large negative, then offsets beyond 2^53 / 2^63 / 2^100"""
    return [0, -(w // 2) - 1, -w, -w - 5, 1, 12345, -(1 << 31)] + HUGE_OFFS


def nbits_case(mn, mx):
    from platypus import Integer
    t, err = call(Integer, mn, mx)
    return "KNbits %s %s %s" % (C.z_lit(mn), C.z_lit(mx), optz(None if t is None else t.nbits)), (None if t is None else t.nbits)


def run(ctx):
    from platypus import Integer
    from platypus.types import int2bin, bin2int, bin2gray, gray2bin
    rng = ctx.rng
    imports = ["Base.Num", "Model.Gray", "Harness.H17"]
    dist = {}

    # ---- 1. bit count: float logarithm vs Z.log2 ------------------------------------------
    lits = []
    meta = []
    wmax = ctx.scale(1 << 10, 1 << 16)
    for w in range(1, wmax + 1):
        mn = offsets(w)[w % len(offsets(w))]
        lit, nb = nbits_case(mn, mn + w)
        lits.append(lit); meta.append((mn, mn + w)); ctx.count()
        if nb != w.bit_length():
            oracle_range(ctx, mn, mn + w, [mn, mn + w, mn + w - 1, mn + w // 2], [], False)
    nb_pow = 0
    for k in range(0, 33):
        for d in (-1, 0, 1):
            w = (1 << k) + d
            if w < 1 or w >= (1 << 32) + 2:
                continue
            for mn in offsets(w):
                lit, nb = nbits_case(mn, mn + w)
                lits.append(lit); meta.append((mn, mn + w)); ctx.count(); nb_pow += 1
                ctx.mark(("nbits-boundary", k, d, mn))
    for mn, mx in HUGE_RANGES:
        lit, nb = nbits_case(mn, mx)
        lits.append(lit); meta.append((mn, mx)); ctx.count()
        ctx.mark(("nbits-huge-offset", mn, mx))
    nrand = ctx.scale(600, 20000)
    for _ in range(nrand):
        w = rng.randrange(1, 1 << rng.randrange(1, 33))
        mn = rng.choice(offsets(w) + [rng.randrange(-(1 << 33), 1 << 33)])
        lit, nb = nbits_case(mn, mn + w)
        lits.append(lit); meta.append((mn, mn + w)); ctx.count()
    nrej = 0
    for mn, mx in [(0, 0), (5, 5), (-3, -3), (1, 0), (7, -7), (1 << 40, 1 << 40)]:
        lit, nb = nbits_case(mn, mx)   # rejected by the constructor (math domain error): None on both sides
        lits.append(lit); meta.append((mn, mx)); ctx.count(); nrej += 1
    dist["nbits"] = {"exhaustive_widths_upto": wmax, "pow2_boundary_cases(k<=32, d in -1,0,1, 15 offsets incl. beyond 2^53/2^63/2^100)": nb_pow, "random_widths_below_2^32": nrand, "rejected_ranges": nrej}
    # informational: where the float expression first leaves Z.log2 (outside the property's 2^32 bound)
    first_bad = None
    for k in range(33, 80):
        for d in (-1, 0, 1):
            w = (1 << k) + d
            t, err = call(Integer, 0, w)
            if first_bad is None and (t is None or t.nbits != w.bit_length()):
                first_bad = "w=2^%d%+d: nbits=%s, exact %d" % (k, d, None if t is None else t.nbits, w.bit_length())
    ctx.coverage["float_log_first_wrong_beyond_property_bound"] = first_bad or "none up to 2^79"
    bad = C.run_coq_cases(ctx, "nbits", imports, "c17case", "c17_check", lits, shard=3000)
    if bad is not None:
        ctx.obligation("correspondence:nbits=Z.log2+1(%d ranges)" % len(lits), "correspondence", not bad,
                       "Integer.nbits differs from Z.log2 w + 1 on %r; first: %s" % (bad[:10], lits[bad[0]] if bad else ""))
        for i in bad[:20]:
            mn, mx = meta[i]
            if mn < mx:
                w = mx - mn
                oracle_range(ctx, mn, mx, sorted({mn, mx, mx - 1, mn + w // 2, mn + 1}), [], False)
                t, err = call(Integer, mn, mx)
                if t is not None and t.nbits <= 14:
                    oracle_range(ctx, mn, mx, None, None, True)
                elif t is not None:
                    k = t.nbits
                    oracle_range(ctx, mn, mx, [mn, mx], [[True] * k, own_gray_bits((1 << k) - 1, k), own_gray_bits(min(w + 1, (1 << k) - 1), k)], False)
    ncorr = len(lits)

    # ---- 2. whole ranges, exhaustively: every value and EVERY bit string --------------------
    lits = []
    meta = []
    widths = list(range(1, ctx.scale(64, 256) + 1))
    for k in range(7, ctx.scale(10, 13) + 1):
        widths += [(1 << k) - 1, 1 << k, (1 << k) + 1]
    widths = sorted(set(widths))
    nstrings = 0
    nwrap = 0
    todo = []
    for w in widths:
        offs = [0, -(w // 2) - 1, -w - 17, HUGE_OFFS[w % len(HUGE_OFFS)]] if w <= 256 else [(-(w // 2) - 1, 0, -w - 17, HUGE_OFFS[w % len(HUGE_OFFS)])[w % 4]]
        todo += [(mn, mn + w) for mn in offs]
    todo += [(mn, mx) for mn, mx in HUGE_RANGES if mx - mn < (1 << 13)]
    if True:
        for mn, mx in todo:
            w = mx - mn
            t, err = call(Integer, mn, mx)
            if t is None:
                ctx.violation("integer-constructor-raises", "Integer(%d,%d) raised %s" % (mn, mx, err), {"kind": "range", "min": mn, "max": mx, "exhaustive": True})
                continue
            nb = t.nbits
            if nb > 16:
                oracle_range(ctx, mn, mx, [mn, mx], [], False)
                continue
            encs = [call(t.encode, v)[0] for v in range(mn, mx + 1)]
            allb = [list(b) for b in itertools.product([False, True], repeat=nb)]
            decs = [call(t.decode, list(b))[0] for b in allb]
            ctx.count(len(encs) + len(decs))
            nstrings += len(decs)
            if any(not isbits(e) for e in encs) or any(not isinstance(d, int) for d in decs):
                # an exception inside the sweep: ship call by call so that the model's None can be compared
                for v, e in zip(range(mn, mx + 1), encs):
                    lits.append("KEnc %s %s %s %s" % (C.z_lit(mn), C.z_lit(mx), C.z_lit(v), optbl(e if isbits(e) else None))); meta.append((mn, mx))
                for b, d in zip(allb, decs):
                    lits.append("KDec %s %s %s %s" % (C.z_lit(mn), C.z_lit(mx), bl(b), optz(d if isinstance(d, int) else None))); meta.append((mn, mx))
            else:
                lits.append("KRange %s %s %s %s %s" % (C.z_lit(mn), C.z_lit(mx), C.z_lit(nb), C.list_lit([bl(e) for e in encs]), C.list_lit([C.z_lit(d) for d in decs])))
                meta.append((mn, mx))
            # which strings take the wrap-around branch (value > max-min): those are the non-trivial decodes
            wraps = (1 << nb) - 1 - w if (1 << nb) - 1 > w else 0
            nwrap += wraps
            for j in range(wraps):
                ctx.mark(("wrap", mn, mx, j))
            if wraps == 0:
                ctx.mark(("full-range", mn, mx))
            oracle_range(ctx, mn, mx, None, None, True)
            if (w in (5, 10) and mn != 0 and -w < mn < 100) or (mn, mx) == HUGE_RANGES[0]:
                ctx.sample({"range": [mn, mx], "nbits": nb, "encode(min..)": ["".join("1" if x else "0" for x in e) for e in encs[:6]],
                            "decode(all strings)": decs[:16]})
    dist["exhaustive_ranges"] = {"widths": "1..%d and 2^k,2^k+-1 for k<=%d" % (ctx.scale(64, 256), ctx.scale(10, 13)), "ranges": len(meta),
                                 "bit_strings_decoded": nstrings, "strings_taking_wraparound": nwrap}
    bad = C.run_coq_cases(ctx, "ranges", imports, "c17case", "c17_check", lits, shard=ctx.scale(12, 40))
    if bad is not None:
        ctx.obligation("correspondence:encode/decode-exhaustive(%d ranges, %d bit strings)" % (len(lits), nstrings), "correspondence", not bad,
                       "model and Integer.encode/decode differ on ranges %r" % ([meta[i] for i in bad[:10]],))
        for i in bad[:5]:
            ctx.sample({"model_impl_disagree_range": meta[i]})   # the oracle already ran exhaustively on these ranges
    ncorr += len(lits)

    # ---- 3. wide ranges (up to 2^32), sampled values and bit strings --------------------------
    lits = []
    meta = []
    wide = []
    for k in range(11, 33):
        for d in (-1, 0, 1):
            w = (1 << k) + d
            if w < (1 << 32):
                wide.append((offsets(w)[(k + d) % len(offsets(w))], w))
    wide += [(mn, mx - mn) for mn, mx in HUGE_RANGES if mx - mn >= 256]
    for _ in range(ctx.scale(120, 3000)):
        w = rng.randrange(257, 1 << rng.randrange(9, 33))
        wide.append((rng.choice(offsets(w) + [rng.randrange(-(1 << 33), 1 << 33)]), w))
    nsv = nsb = 0
    for mn, w in wide:
        mx = mn + w
        t, err = call(Integer, mn, mx)
        if t is None:
            ctx.violation("integer-constructor-raises", "Integer(%d,%d) raised %s" % (mn, mx, err), {"kind": "range", "min": mn, "max": mx, "exhaustive": False, "values": [], "bits": []})
            continue
        k = t.nbits
        vals = sorted({mn, mn + 1, mx - 1, mx, mn + w // 2, mn + (1 << (max(k, 2) - 2)), mn + min(w, (1 << (max(k, 1) - 1))), mn + min(w, (1 << (max(k, 1) - 1)) - 1)}
                      | {mn + rng.randrange(0, w + 1) for _ in range(4)})
        vals = [v for v in vals if mn <= v <= mx]
        top = (1 << k) - 1
        ns = {0, top, min(w, top), min(w + 1, top), min(w + 2, top), (w + top) // 2, 1 << (k - 1), (1 << (k - 1)) - 1} | {rng.randrange(0, top + 1) for _ in range(4)}
        strings = [own_gray_bits(n, k) for n in sorted(ns)] + [[True] * k, [False] * k, [True] + [False] * (k - 1)]
        for v in vals:
            e, err = call(t.encode, v)
            lits.append("KEnc %s %s %s %s" % (C.z_lit(mn), C.z_lit(mx), C.z_lit(v), optbl(e if isbits(e) else None))); meta.append((mn, mx, vals, strings))
            ctx.count(); nsv += 1
        for b in strings:
            d, err = call(t.decode, list(b))
            lits.append("KDec %s %s %s %s" % (C.z_lit(mn), C.z_lit(mx), bl(b), optz(d if isinstance(d, int) else None))); meta.append((mn, mx, vals, strings))
            ctx.count(); nsb += 1
        ctx.mark(("wide", mn, mx))
        oracle_range(ctx, mn, mx, vals, strings, False)
    if wide:
        ctx.sample({"wide_range": [wide[-1][0], wide[-1][0] + wide[-1][1]], "coq_case": lits[-1]})
    dist["sampled_wide_ranges"] = {"ranges": len(wide), "values_encoded": nsv, "bit_strings_decoded": nsb, "max_width": max(w for _, w in wide)}
    bad = C.run_coq_cases(ctx, "wide", imports, "c17case", "c17_check", lits, shard=600)
    if bad is not None:
        ctx.obligation("correspondence:encode/decode-sampled(%d calls on %d wide ranges)" % (len(lits), len(wide)), "correspondence", not bad,
                       "model and Integer.encode/decode differ; first: %s" % (lits[bad[0]] if bad else ""))
        done = set()
        for i in bad[:10]:
            mn, mx, vals, strings = meta[i]
            if (mn, mx) in done:
                continue
            done.add((mn, mx))
            # neighbourhood of the disagreeing range: denser sample
            more = sorted({min(mx, max(mn, v + dv)) for v in vals for dv in (-2, -1, 0, 1, 2)})
            oracle_range(ctx, mn, mx, more, strings, False)
            ctx.sample({"model_impl_disagree": lits[i]})
    ncorr += len(lits)

    # ---- 4. the four conversion functions -----------------------------------------------------
    lits = []
    meta = []
    kmax = ctx.scale(10, 13)
    for k in range(0, kmax + 1):
        allb = [list(b) for b in itertools.product([False, True], repeat=k)]
        b2i = [call(bin2int, list(b))[0] for b in allb]
        b2g = [call(bin2gray, list(b))[0] for b in allb]
        g2b = [call(gray2bin, list(b))[0] for b in allb]
        ctx.count(3 * len(allb))
        if all(isinstance(x, int) for x in b2i) and all(isbits(x) for x in b2g):
            lits.append("KConvAll %s %s %s %s" % (C.z_lit(k), C.list_lit([C.z_lit(x) for x in b2i]), C.list_lit([bl(x) for x in b2g]),
                                                  C.list_lit([optbl(x if isbits(x) else None) for x in g2b])))
            meta.append(("all", k))
        else:
            for b, x in zip(allb, b2i):
                lits.append("KB2I %s %s" % (bl(b), C.z_lit(x if isinstance(x, int) else -1))); meta.append(("bits", b))
            for b, x in zip(allb, b2g):
                lits.append("KB2G %s %s" % (bl(b), bl(x if isbits(x) else []))); meta.append(("bits", b))
        for b in allb:
            oracle_bits(ctx, b)
            if k >= 2:
                ctx.mark(("conv", k, tuple(b)))
    nlong = ctx.scale(400, 5000)
    for _ in range(nlong):
        k = rng.randrange(kmax + 1, 100)
        style = rng.randrange(4)
        if style == 0:
            b = [rng.random() < 0.5 for _ in range(k)]
        elif style == 1:
            b = [False] * rng.randrange(0, k) ; b = b + [True] * (k - len(b))
        elif style == 2:
            b = [i % 2 == 0 for i in range(k)]
        else:
            b = [rng.random() < 0.1 for _ in range(k)]
        x, _e = call(bin2int, list(b)); lits.append("KB2I %s %s" % (bl(b), C.z_lit(x if isinstance(x, int) else -1))); meta.append(("bits", b))
        x, _e = call(bin2gray, list(b)); lits.append("KB2G %s %s" % (bl(b), bl(x if isbits(x) else []))); meta.append(("bits", b))
        x, _e = call(gray2bin, list(b)); lits.append("KG2B %s %s" % (bl(b), optbl(x if isbits(x) else None))); meta.append(("bits", b))
        ctx.count(3)
        ctx.mark(("conv", k, tuple(b)))
        oracle_bits(ctx, b)
    ni2b = 0
    for n in range(0, ctx.scale(1 << 10, 1 << 13) + 1):
        for k in sorted({0, n.bit_length(), n.bit_length() + 3, max(0, n.bit_length() - 1)}):
            x, _e = call(int2bin, n, k)
            lits.append("KI2B %s %s %s" % (C.z_lit(n), C.z_lit(k), optbl(x if isbits(x) else None))); meta.append(("i2b", n, k))
            ctx.count(); ni2b += 1
            oracle_i2b(ctx, n, k)
    # powers of two and their neighbours up to 2^99 (all-ones / one-hot patterns: where a float logarithm rounds)
    edge = []
    for e in range(1, 100):
        for n in ((1 << e) - 1, 1 << e, (1 << e) + 1):
            edge.append((n, n.bit_length()))
            edge.append((n, n.bit_length() + 1))
    for n, k in edge:
        x, _e = call(int2bin, n, k)
        lits.append("KI2B %s %s %s" % (C.z_lit(n), C.z_lit(k), optbl(x if isbits(x) else None))); meta.append(("i2b", n, k))
        ctx.count(); ni2b += 1
        oracle_i2b(ctx, n, k)
    for e in range(1, 100):
        for b in ([True] * e, [True] + [False] * (e - 1), [False] + [True] * (e - 1)):
            oracle_bits(ctx, list(b))
    for _ in range(ctx.scale(300, 5000)):
        n = rng.randrange(0, 1 << rng.randrange(1, 90))
        k = rng.choice([n.bit_length(), n.bit_length() + rng.randrange(0, 8), rng.randrange(0, 100)])
        x, _e = call(int2bin, n, k)
        lits.append("KI2B %s %s %s" % (C.z_lit(n), C.z_lit(k), optbl(x if isbits(x) else None))); meta.append(("i2b", n, k))
        ctx.count(); ni2b += 1
        oracle_i2b(ctx, n, k)
    dist["conversions"] = {"all_bit_strings_of_length_0_to": kmax, "random_long_bit_strings(len<100)": nlong, "int2bin_calls": ni2b,
                           "note": "int2bin with n<0 is never run (does not terminate in the code; None in the model)"}
    ctx.sample({"coq_case": lits[len(lits) // 2][:300]})
    bad = C.run_coq_cases(ctx, "conv", imports, "c17case", "c17_check", lits, shard=1500)
    if bad is not None:
        ctx.obligation("correspondence:int2bin/bin2int/bin2gray/gray2bin(%d cases)" % len(lits), "correspondence", not bad,
                       "model and conversion functions differ; first: %s" % (lits[bad[0]][:400] if bad else ""))
        for i in bad[:10]:
            m = meta[i]
            if m[0] == "bits":       # neighbourhood: the string, its prefixes/suffixes and one-bit flips
                b = list(m[1])
                for nb_ in [b, b[1:], b[:-1]] + [b[:j] + [not b[j]] + b[j + 1:] for j in range(min(len(b), 8))]:
                    oracle_bits(ctx, nb_)
            elif m[0] == "i2b":
                for dn in (-1, 0, 1):
                    if m[1] + dn >= 0:
                        oracle_i2b(ctx, m[1] + dn, m[2])
            ctx.sample({"model_impl_disagree": lits[i][:300]})
    ncorr += len(lits)

    # ---- 5. operation sequences on long-lived instances; results modified in place --------------
    lits = []
    frame = []
    seqs = []
    ranges5 = [(0, 5), (-3, 4), (-7, -2), (0, 16), (-100, 155), (10, 1000), (0, 1), (-1, 0), (0, 255), (0, 256), (-(1 << 31), (1 << 31) - 2)]
    ranges5 += HUGE_RANGES
    for _ in range(ctx.scale(30, 300)):
        w = rng.randrange(1, 1 << rng.randrange(1, 13))
        ranges5.append((rng.choice([0, -(w // 2) - 1, -w - 9, 3]), w))
        ranges5[-1] = (ranges5[-1][0], ranges5[-1][0] + w)
    nops = 0
    for mn, mx in ranges5:
        t, err = call(Integer, mn, mx)
        if t is None:
            continue
        ops = gen_sequence(rng, mn, mx, t.nbits, ctx.scale(40, 80))
        nops += len(ops)
        seqs.append((mn, mx, ops))
        run_sequence(ctx, mn, mx, ops, lits, frame)
        ctx.mark(("sequence", mn, mx, len(ops)))
    if seqs:
        ctx.sample({"sequence_on_one_instance": {"range": [seqs[0][0], seqs[0][1]], "ops": seqs[0][2][:9]}})
    nconv = 0
    for _ in range(ctx.scale(150, 1500)):
        k = rng.randrange(1, 40)
        b = [rng.random() < 0.5 for _ in range(k)]
        n = rng.randrange(0, 1 << k)
        conv_sharing(ctx, "bin2gray", [b], frame)
        conv_sharing(ctx, "gray2bin", [b], frame)
        conv_sharing(ctx, "int2bin", [n, rng.choice([k, k + 2])], frame)
        nconv += 3
    dist["sequences_on_long_lived_instances"] = {"instances": len(seqs), "operations": nops, "calls_shipped_to_coq": len(lits),
                                                 "conversion_calls_with_result_modified_in_place": nconv,
                                                 "ops": "enc v / modify a returned list in place (flip all, flip some, clear, extend) / decode it / enc v again / adjacency v,v+1 / rand twice from one random state"}
    ctx.obligation("frame:results-not-shared-arguments-not-modified(%d sequences, %d conversion calls)" % (len(seqs), nconv), "frame", not frame,
                   "%d observations; first: %s" % (len(frame), "; ".join(frame[:3])))
    bad = C.run_coq_cases(ctx, "seq", imports, "c17case", "c17_check", lits, shard=800)
    if bad is not None:
        ctx.obligation("correspondence:encode/decode-in-sequences(%d calls on %d long-lived instances)" % (len(lits), len(seqs)), "correspondence", not bad,
                       "the (stateless) model and the implementation differ inside an operation sequence; first: %s" % (lits[bad[0]] if bad else ""))
        for i in bad[:3]:
            ctx.sample({"model_impl_disagree_in_sequence": lits[i]})   # every call of a sequence is checked by the oracle on the spot
    ncorr += len(lits)

    ctx.coverage["input_distribution"] = dist
    ctx.coverage["correspondence_cases"] = ncorr
    ctx.coverage["exhaustive"] = False
    ctx.rule = ("ranges: every width 1..%d at four offsets (zero-based, zero-crossing, negative, one beyond 2^53/2^63/10^18/2^100) plus fixed huge-offset ranges such as (2^53-1, 2^53+1), (-2^63-5, -2^63+5) and 2^k, 2^k+-1 up to 2^%d, each with ALL values encoded and ALL "
                "2^nbits strings decoded; %d wider ranges below 2^32 (every 2^k, 2^k+-1, random) with sampled values/strings (ends, middle, around max-min, all-ones, random); "
                "nbits for every width <= %d, all 2^k/2^k+-1 (k<=32) x 15 offsets (incl. beyond 2^53, 2^63, 2^100), random; conversions on all strings of length <= %d and random longer ones.  "
                "plus operation sequences on long-lived instances (returned lists modified in place, value re-encoded, rand).  non-trivial & distinct = (range, string) pairs that take the wrap-around branch, operation sequences, ranges whose strings all map directly, nbits boundary cases "
                "(k, +-1, offset), wide ranges, conversion inputs of length >= 2; each counted once by its full input"
                % (ctx.scale(64, 256), ctx.scale(10, 13), len(wide), wmax, kmax))


def replay(ctx, data):
    rp = data.get("replay", {})
    kind = rp.get("kind")
    if kind == "range":
        if rp.get("exhaustive"):
            oracle_range(ctx, rp["min"], rp["max"], None, None, True, where="replay")
        else:
            vals = list(rp.get("values") or [])
            if "value" in rp:
                vals.append(rp["value"])
            strings = [[bool(x) for x in b] for b in (rp.get("bits") or [])]
            if "bitstring" in rp:
                strings.append([bool(x) for x in rp["bitstring"]])
            oracle_range(ctx, rp["min"], rp["max"], vals, strings, False, where="replay")
        ctx.count()
    elif kind == "sequence":
        run_sequence(ctx, rp["min"], rp["max"], rp["ops"], None, [])
        ctx.count()
    elif kind == "bits":
        oracle_bits(ctx, rp["bits"])
        ctx.count()
    elif kind == "i2b":
        oracle_i2b(ctx, rp["n"], rp["k"])
        ctx.count()
    else:
        run(ctx)
