"""C03 — a Pareto archive always equals the non-dominated subset of all it was offered."""
import itertools
import math
from vlib import common as C
from vlib import plat

ID = "C03"
PROPS_FILE = "Props/C03.v"
COQ_TARGETS = ["Harness/H03.vo"]
ALLOWED_AXIOMS = []
# second tie (translator): coq/Gen/Core.v is regenerated from the source text of C.REPO on every run and
# coq/Tie/T03.v proves generated definition = hand model (harness/translate/py2coq_core.py)
EXTRA_PROPS = ["Tie/T03.v"]


def prebuild(ctx):
    import os
    import sys
    sys.path.insert(0, os.path.join(C.VERIF, "harness", "translate"))
    import py2coq_core
    py2coq_core.prebuild(ctx, C, ["Archive.add"])


META = {
    "level_text": "Machine-checked proof (Coq) about a literal model of Archive.add/append/extend/__iadd__ and nondominated(): for EVERY offered list "
                  "(any length, duplicates, twins, the same object offered twice) the archive contents equal, as a list, the offered list with exactly "
                  "the dominated entries deleted (archive_char); add returns True iff no current member dominates the newcomer; rejection leaves the "
                  "archive unchanged; members are pairwise non-dominated after every history; membership is independent of insertion order; "
                  "nondominated() returns the same list. Proved for any comparator obeying the Dominance contract and instantiated, by C02's theorems, "
                  "for Pareto dominance with any number of objectives, any directions, with and without constraint violations. The model is tied to /repo "
                  "on every run by an operation-sequence correspondence (return value and full contents compared after every operation, in Coq by "
                  "vm_compute) and a brute-force oracle on the real Archive with history shrinking.",
    "level_note": "Tie/T03.v also states the characterisation about the Archive.add GENERATED from the source text (tie_c03_generated_archive_char). Trusted: Coq kernel + VM; the harness (literal printer, shard runner); the hand-written model is tied to the code only on the sampled "
                  "histories of the correspondence (random histories of 0-60 operations over {0..4}^m, m<=3, plus all add-histories of length <=3 (quick) / <=5 "
                  "(thorough) over {0,1,2}^2). Theorems assume well-formed solutions (as many objectives as the problem has, violation >= 0) and the "
                  "default ParetoDominance; NaN objectives are outside the property. Archive.remove and the bounded subclasses are not part of C03. "
                  "The same object offered twice is stored twice (the theorem is about lists, so this shows in it; as a set the statement holds). "
                  "No axioms (all theorems closed under the global context).",
    "technique": "Coq proof over an abstract dominance comparator instantiated with C02's Pareto theorems + exact operation-sequence correspondence (vm_compute) + brute-force oracle",
}

INF = math.inf
KINDS = ["add", "append", "extend", "iadd_list", "iadd_one"]
WIDE = [-INF, -1.0, -0.0, 0.0, 0.5, 1.0, 1.0000000000000002, 1e300, INF, 2 ** 60, 2 ** 60 + 1, -(2 ** 60 + 1), 2 ** 53 + 1]   # incl. exact ints beyond 2**53


# ----------------------------------------------------------------------------
# independent definition of dominance (English statement of C02)
# ----------------------------------------------------------------------------
def spec_dominates(con, dirs, a, b):
    """a, b = (objectives, violation).  True iff a dominates b."""
    (oa, ca), (ob, cb) = a, b
    if con and ca != cb:
        return ca < cb
    xa = [-v if mx else v for v, mx in zip(oa, dirs)]
    xb = [-v if mx else v for v, mx in zip(ob, dirs)]
    return all(x <= y for x, y in zip(xa, xb)) and any(x < y for x, y in zip(xa, xb))


# ----------------------------------------------------------------------------
# running a history on the real Archive
# ----------------------------------------------------------------------------
class Hist:
    """con: 0/1 constraints; dirs: list of bool (True = maximise); pool: [(objs, cv)]; ops: [(kind, [sid])]"""

    def __init__(self, con, dirs, pool, ops):
        self.con, self.dirs, self.pool, self.ops = con, list(dirs), [(list(o), c) for o, c in pool], [(k, list(s)) for k, s in ops]

    def to_json(self):
        return {"kind": "history", "con": self.con, "dirs": self.dirs,
                "pool": [[[repr(v) for v in o], repr(c)] for o, c in self.pool],
                "ops": [[KINDS[k], s] for k, s in self.ops]}

    @staticmethod
    def from_json(d):
        return Hist(d["con"], d["dirs"], [([plat.parse_num(v) for v in o], float(c)) for o, c in d["pool"]],
                    [(KINDS.index(k), s) for k, s in d["ops"]])

    def token(self):
        return repr((self.con, self.dirs, self.pool, self.ops))


def _as_iterable(lst, k):
    """The bulk entry points and nondominated() take any iterable of solutions: rotate through a list, a tuple,
    a one-shot iterator and a generator (the last two can be walked only once)."""
    k %= 4
    if k == 0:
        return lst
    if k == 1:
        return tuple(lst)
    if k == 2:
        return iter(lst)
    return (x for x in lst)


def run_real(h):
    """-> (trace, objs) ; trace[i] = (returned value or None, [sid of contents])"""
    from platypus import Archive
    p = plat.mk_problem_sticky(len(h.dirs), h.dirs, nconstrs=h.con)
    objs = [plat.mk_solution(p, o, c) for o, c in h.pool]
    sid = {id(s): i for i, s in enumerate(objs)}
    a = Archive()
    trace = []
    for kind, ids in h.ops:
        ret = None
        if kind == 0:
            ret = a.add(objs[ids[0]])
            if not isinstance(ret, bool):
                ret = bool(ret)
        elif kind == 1:
            a.append(objs[ids[0]])
        elif kind == 2:
            a.extend(_as_iterable([objs[i] for i in ids], len(trace)))
        elif kind == 3:
            a += _as_iterable([objs[i] for i in ids], len(trace) + 1)
        else:
            a += objs[ids[0]]
        trace.append((ret, [sid[id(s)] for s in a]))
    return trace, objs


def run_nondominated(h, order=None):
    from platypus import nondominated
    p = plat.mk_problem(len(h.dirs), h.dirs, nconstrs=h.con)
    objs = [plat.mk_solution(p, o, c) for o, c in h.pool]
    sid = {id(s): i for i, s in enumerate(objs)}
    offered = [i for _, ids in h.ops for i in ids] if order is None else order
    return [sid[id(s)] for s in nondominated(_as_iterable([objs[i] for i in offered], len(offered)))]


def oracle(h, trace, nd_out):
    """The property statement evaluated directly.  Returns list of (key, what)."""
    out = []
    n = len(h.pool)
    used = sorted({i for _, ids in h.ops for i in ids})
    D = {(i, j): spec_dominates(h.con, h.dirs, h.pool[i], h.pool[j]) for i in used for j in used}
    dom = lambda i, j: D[(i, j)]
    offered = []
    offered_set = set()
    before = []
    for step, ((kind, ids), (ret, contents)) in enumerate(zip(h.ops, trace)):
        if kind == 0:
            expect = not any(dom(m, ids[0]) for m in before)
            if ret != expect:
                out.append(("add-return-wrong", "op %d: add(sid %d) returned %r but %s current member dominates it (members %r)" % (
                    step, ids[0], ret, "no" if expect else "a", before)))
            if ret is False and contents != before:
                out.append(("reject-modified-archive", "op %d: rejected add(sid %d) changed the archive %r -> %r" % (step, ids[0], before, contents)))
        offered += ids
        offered_set |= set(ids)
        kept = {x for x in offered_set if not any(dom(y, x) for y in offered_set)}
        if set(contents) != kept:
            missing = sorted(kept - set(contents))
            extra = sorted(set(contents) - kept)
            key = "archive-keeps-dominated" if extra else "archive-lost-nondominated"
            out.append((key, "after op %d (%s %r): archive holds %r, non-dominated offered = %r (missing %r, extra %r)" % (
                step, KINDS[kind], ids, contents, sorted(kept), missing, extra)))
        for x, y in itertools.combinations(sorted(set(contents)), 2):
            if dom(x, y) or dom(y, x):
                out.append(("members-not-pairwise-nondominated", "after op %d members %d and %d are comparable" % (step, x, y)))
                break
        before = contents
    kept = {x for x in offered_set if not any(dom(y, x) for y in offered_set)}
    if set(nd_out) != kept:
        out.append(("nondominated-filter-differs", "nondominated(offered) = %r but the non-dominated offered solutions are %r" % (nd_out, sorted(kept))))
    return out


def order_oracle(h, rng, final_contents):
    """membership does not depend on the insertion order (or on the entry points used)"""
    offered = [i for _, ids in h.ops for i in ids]
    perm = list(offered)
    rng.shuffle(perm)
    ops = []
    i = 0
    while i < len(perm):
        k = rng.randrange(5)
        n = 1 if k in (0, 1, 4) else rng.randrange(0, 4)
        ops.append((k, perm[i:i + n]))
        i += n
    h2 = Hist(h.con, h.dirs, h.pool, ops)
    tr, _ = run_real(h2)
    got = set(tr[-1][1]) if tr else set()
    if got != set(final_contents):
        return h2, [("order-dependent", "same offered multiset, order %r gives members %r, order %r gives %r" % (
            offered, sorted(set(final_contents)), perm, sorted(got)))]
    return h2, []


def check_hist(h, rng=None):
    trace, _ = run_real(h)
    nd_out = run_nondominated(h)
    fails = oracle(h, trace, nd_out)
    return trace, nd_out, fails


def shrink(h, key):
    """greedy delta-debugging: drop operations, then offered entries, while the same clause still fails"""
    def still(hh):
        try:
            return any(k == key for k, _ in check_hist(hh)[2])
        except Exception:
            return False
    cur = h
    changed = True
    while changed:
        changed = False
        for i in range(len(cur.ops) - 1, -1, -1):
            cand = Hist(cur.con, cur.dirs, cur.pool, cur.ops[:i] + cur.ops[i + 1:])
            if still(cand):
                cur, changed = cand, True
        for i in range(len(cur.ops)):
            k, ids = cur.ops[i]
            if k in (2, 3):
                for j in range(len(ids) - 1, -1, -1):
                    cand = Hist(cur.con, cur.dirs, cur.pool, cur.ops[:i] + [(k, cur.ops[i][1][:j] + cur.ops[i][1][j + 1:])] + cur.ops[i + 1:])
                    if still(cand):
                        cur, changed = cand, True
    # renumber the pool to the objects still used
    used = sorted({i for _, ids in cur.ops for i in ids})
    ren = {o: n for n, o in enumerate(used)}
    return Hist(cur.con, cur.dirs, [cur.pool[i] for i in used], [(k, [ren[i] for i in ids]) for k, ids in cur.ops])


# ----------------------------------------------------------------------------
# generation
# ----------------------------------------------------------------------------
def gen_history(rng, maxops=60):
    m = rng.randrange(1, 4)
    dirs = [rng.random() < 0.35 for _ in range(m)]
    con = 1 if rng.random() < 0.35 else 0
    wide = rng.random() < 0.1
    side = rng.choice([2, 3, 5, 5])
    npool = rng.randrange(1, 41)
    pool = []
    for _ in range(npool):
        if pool and rng.random() < 0.25:           # forced twin: same values, new object
            o, c = rng.choice(pool)
            pool.append((list(o), c))
            continue
        if wide:
            o = [rng.choice(WIDE) for _ in range(m)]
        else:
            o = [float(rng.randrange(side)) for _ in range(m)]
        # violations incl. tiny ones (1e-17, 5e-324: not zero, and closer together than machine epsilon), equal pairs,
        # and -- on UNCONSTRAINED problems -- a stale non-zero attribute that dominance must ignore
        c = rng.choice([0.0, 0.0, 0.0, 0.5, 0.5, 1.0, 1e-17, 5e-324, 1.0000000000000002]) if con else rng.choice([0.0, 0.0, 0.0, 0.25, 1e-17])
        pool.append((o, c))
    nops = rng.choice([0, 1, 2, 3]) if rng.random() < 0.08 else rng.randrange(0, maxops + 1)
    ops = []
    recent = []
    for _ in range(nops):
        k = rng.randrange(5)
        n = 1 if k in (0, 1, 4) else rng.choice([0, 1, 2, 3, 4, 5])
        ids = []
        for _ in range(n):
            if recent and rng.random() < 0.2:      # the same object offered again
                ids.append(rng.choice(recent))
            else:
                ids.append(rng.randrange(npool))
        recent = (recent + ids)[-6:]
        ops.append((k, ids))
    return Hist(con, dirs, pool, ops)


def exhaustive_histories(maxlen):
    pts = [(float(a), float(b)) for a in range(3) for b in range(3)]
    for n in range(0, maxlen + 1):
        for seq in itertools.product(range(9), repeat=n):
            pool = [(list(pts[i]), 0.0) for i in seq]          # every offer is a distinct object (twins when the point repeats)
            yield Hist(0, [False, False], pool, [(0, [i]) for i in range(n)])


def nats(l):
    assert all(0 <= i < 5000 for i in l)
    return "[" + ";".join("%d" % i for i in l) + "]%nat"


def case_lit(h, trace, nd_out):
    pool = C.list_lit(["(%s, %s)" % (C.list_lit([C.xq_lit(v) for v in o]), C.xq_lit(c)) for o, c in h.pool])
    ops = C.list_lit(["(%s, %s)" % (C.nat_lit(k), nats(ids)) for k, ids in h.ops])
    impl = C.list_lit(["(%s, %s)" % (C.opt_lit(r, C.bool_lit), nats(cont)) for r, cont in trace])
    return "C3 %s %s %s %s %s %s" % (C.bool_lit(bool(h.con)), C.list_lit([C.bool_lit(d) for d in h.dirs]), pool, ops, impl,
                                     nats(nd_out))


def classify(h, trace):
    """features of a history used for the non-triviality rule and the distribution"""
    rejected = sum(1 for (k, _), (r, _) in zip(h.ops, trace) if k == 0 and r is False)
    evict = 0
    prev = []
    for (_, ids), (_, cont) in zip(h.ops, trace):
        if len(set(prev) - set(cont)) > 0:
            evict += 1
        prev = cont
    offered = [i for _, ids in h.ops for i in ids]
    repeated = len(offered) != len(set(offered))
    vals = [repr(h.pool[i]) for i in set(offered)]
    twins = len(vals) != len(set(vals))
    return rejected, evict, repeated, twins


def report(ctx, h, fails, shrink_it=True):
    seen = ctx.extra.setdefault("reported_keys", set())      # one (shrunk) witness per failing clause is enough
    for key, what in fails:
        if key in seen:
            continue
        seen.add(key)
        hh = h
        if shrink_it:
            try:
                hh = shrink(h, key)
                w2 = [w for k, w in check_hist(hh)[2] if k == key]
                what = (w2[0] if w2 else what) + "  [shrunk from %d to %d operations]" % (len(h.ops), len(hh.ops))
            except Exception:
                hh = h
        ctx.violation(key, what, hh.to_json())


def run(ctx):
    rng = ctx.rng
    hists = list(exhaustive_histories(ctx.scale(3, 5)))
    nexh = len(hists)
    nrand = ctx.scale(1500, 50000)
    for _ in range(nrand):
        hists.append(gen_history(rng))
    lits = []
    dist = {"histories_exhaustive_adds_over_{0,1,2}^2": nexh, "histories_random": nrand, "ops_total": 0, "op_kinds": {k: 0 for k in KINDS},
            "length_hist": {}, "n_objs": {}, "constrained": 0, "maximised_some": 0, "adds_rejected": 0, "ops_evicting": 0,
            "hist_with_same_object_twice": 0, "hist_with_twins": 0, "max_archive_size": 0, "order_independence_checked": 0}
    for idx, h in enumerate(hists):
        trace, nd_out, fails = check_hist(h)
        ctx.count()
        lits.append(case_lit(h, trace, nd_out))
        rejected, evict, repeated, twins = classify(h, trace)
        dist["ops_total"] += len(h.ops)
        for k, _ in h.ops:
            dist["op_kinds"][KINDS[k]] += 1
        b = "%d-%d" % (len(h.ops) // 10 * 10, len(h.ops) // 10 * 10 + 9)
        dist["length_hist"][b] = dist["length_hist"].get(b, 0) + 1
        dist["n_objs"][len(h.dirs)] = dist["n_objs"].get(len(h.dirs), 0) + 1
        dist["constrained"] += h.con
        dist["maximised_some"] += 1 if any(h.dirs) else 0
        dist["adds_rejected"] += rejected
        dist["ops_evicting"] += evict
        dist["hist_with_same_object_twice"] += 1 if repeated else 0
        dist["hist_with_twins"] += 1 if twins else 0
        dist["max_archive_size"] = max([dist["max_archive_size"]] + [len(c) for _, c in trace])
        if evict and (repeated or twins) and (rejected or any(k != 0 for k, _ in h.ops)):
            ctx.mark(h.token())
        if idx >= nexh and (idx - nexh) % 3 == 0 and h.ops:
            h2, f2 = order_oracle(h, rng, trace[-1][1])
            dist["order_independence_checked"] += 1
            ctx.count()
            if f2:
                ctx.violation("order-dependent", f2[0][1], {"kind": "order", "a": h.to_json(), "b": h2.to_json()})
        if fails:
            report(ctx, h, fails)
        if idx in (nexh + 1, nexh + 2):
            ctx.sample({"history": h.to_json(), "trace(returned, contents as sids)": [[r, c] for r, c in trace][:12], "nondominated(offered)": nd_out})
    ctx.sample({"coq_case": lits[nexh][:1500]})
    ctx.coverage["input_distribution"] = dist
    ctx.rule = ("histories: all sequences of <=%d single adds of fresh objects over the lattice {0,1,2}^2 (exhaustive), plus random histories of 0-60 operations "
                "mixing add/append/extend/+=list/+=solution over pools of 1-40 objects on {0..side-1}^m (side 2,3,5; m 1-3; 10%% over a wide pool incl. +-inf, -0.0, "
                "adjacent floats), random directions, 35%% constrained with violations {0,.5,1}, forced twins and re-offers of the same object; "
                "non-trivial = a history in which a member was evicted AND a twin or the same object was offered more than once AND (an add was rejected or a "
                "bulk/append entry point was used); distinct by full history") % ctx.scale(3, 5)
    bad = C.run_coq_cases(ctx, "hist", ["Base.Num", "Model.Dominance", "Model.Archive", "Harness.H03"], "c03case", "c03_check", lits, shard=150)
    if bad is not None:
        ctx.obligation("correspondence:archive-histories(%d histories, %d operations; return value + contents after every operation; nondominated())" % (
            len(lits), dist["ops_total"]), "correspondence", not bad,
            "model and implementation differ on histories %r; first: %s" % (bad[:10], lits[bad[0]][:1200] if bad else ""))
        ctx.coverage["correspondence_cases"] = len(lits)
        ctx.coverage["correspondence_mismatches"] = len(bad)
        # search: the oracle has already been evaluated on every history (above); additionally explore the
        # neighbourhood of each disagreeing history (all prefixes, each single operation dropped)
        for i in bad[:5]:
            h = hists[i]
            ctx.sample({"model_impl_disagree": h.to_json()})
            for j in range(len(h.ops)):
                for hh in (Hist(h.con, h.dirs, h.pool, h.ops[:j + 1]), Hist(h.con, h.dirs, h.pool, h.ops[:j] + h.ops[j + 1:])):
                    ctx.count()
                    f = check_hist(hh)[2]
                    if f:
                        report(ctx, hh, f)
                        break


def replay(ctx, data):
    rp = data.get("replay", {})
    if rp.get("kind") == "history":
        h = Hist.from_json(rp)
        trace, nd_out, fails = check_hist(h)
        ctx.count()
        ctx.sample({"history": rp, "trace": [[r, c] for r, c in trace], "nondominated": nd_out})
        for key, what in fails:
            ctx.violation(key, "replay: " + what, rp)
    elif rp.get("kind") == "order":
        a, b = Hist.from_json(rp["a"]), Hist.from_json(rp["b"])
        ta, _ = run_real(a)
        tb, _ = run_real(b)
        ctx.count(2)
        sa = set(ta[-1][1]) if ta else set()
        sb = set(tb[-1][1]) if tb else set()
        if sa != sb:
            ctx.violation("order-dependent", "replay: members %r vs %r for the same offered multiset" % (sorted(sa), sorted(sb)), rp)
    else:
        run(ctx)
