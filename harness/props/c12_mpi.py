"""C12 helper: run the REAL platypus.mpipool.MPIPool on the simulated mpi4py (c12_fakempi) under an
explicit schedule, enumerate schedules, and print the event traces as Coq literals for MPI.v."""
import functools
import importlib
import sys

from props import c12_fakempi as fake

_MPIPOOL = None


def mpipool_module():
    """import the real platypus.mpipool against the simulated mpi4py (never a real one)"""
    global _MPIPOOL
    if _MPIPOOL is None:
        m = sys.modules.get("mpi4py")
        if m is None or not getattr(m, "__fake__", False):
            fake.install()
        sys.modules.pop("platypus.mpipool", None)
        _MPIPOOL = importlib.import_module("platypus.mpipool")
        assert getattr(_MPIPOOL.MPI, "__fake__", False)
    return _MPIPOOL


def task_fn(g, t):
    """pool function number g (g >= 1); MPI.v's harness instance computes the same"""
    return g * 100003 + 7 * t + 1


FNS = {g: functools.partial(task_fn, g) for g in range(1, 6)}


class Chooser:
    """a schedule: follows `prefix` (choice indices), afterwards `rng` if given else option 0;
    records (chosen, number_of_options) of every decision"""

    def __init__(self, prefix=(), rng=None):
        self.prefix = list(prefix)
        self.rng = rng
        self.made = []
        self.frozen = False      # set once the last batch has returned: the shutdown traffic is not branched on

    def __call__(self, opts):
        if self.frozen:
            return 0
        p = len(self.made)
        if p < len(self.prefix):
            k = self.prefix[p]
            if k >= len(opts):
                k = len(opts) - 1
        elif self.rng is not None:
            k = self.rng.randrange(len(opts))
        else:
            k = 0
        self.made.append((k, len(opts)))
        return k


def run_session(W, lb, batches, chooser, eager=True, default_comm=False, workers_call_map=False, master_body=None, key=None):
    """One pool; the master maps the given batches [(g, tasks)] one after the other on it (or runs
    master_body(pool) which may call pool.map any number of times), then close().
    Every pool.map call of the master is recorded in out["calls"] as (function, tasks, returned) — with
    key(.) applied to every task / returned item AT THAT MOMENT when a key function is given — and
    marked in the trace by ("R",).  Returns dict(rets, calls, trace, error, deadlock, cut)."""
    mp = mpipool_module()
    world = fake.World(W + 1, chooser, eager_sends=eager)
    rets = []
    calls = []

    def master(comm):
        pool = mp.MPIPool(loadbalance=lb) if default_comm else mp.MPIPool(comm=comm, loadbalance=lb)
        orig = pool.map

        def logged_map(function, tasks, callback=None):
            r = orig(function, tasks, callback)
            world.trace.append(("R",))
            if key is None:
                calls.append((function, list(tasks), r))
            else:
                calls.append((function, [key(t) for t in tasks], [None if x is None else key(x) for x in (r or [])]))
            return r

        pool.map = logged_map
        if master_body is not None:
            master_body(pool)
        else:
            for (g, tasks) in batches:
                rets.append(pool.map(FNS[g], list(tasks)))
        try:
            chooser.frozen = True
        except AttributeError:
            pass
        pool.close()

    def worker(comm):
        pool = mp.MPIPool(loadbalance=lb) if default_comm else mp.MPIPool(comm=comm, loadbalance=lb)
        if workers_call_map and comm.Get_rank() % 2 == 1:
            pool.map(FNS[1], [])         # non-master ranks calling map just wait (mpipool.py:145-147)
        else:
            pool.wait()

    out = {"rets": rets, "calls": calls, "trace": world.trace, "error": None, "deadlock": None, "cut": False}
    try:
        world.run([master] + [worker] * W)
    except fake.Deadlock as d:
        out["deadlock"] = repr(d.args[0])
    out["cut"] = world.cut
    if world.errors:
        out["error"] = world.errors[0][1] + "\n" + world.errors[0][2][-800:]
    return out


def split_trace(trace, nbatches):
    """events per batch (each ending with its ("R",)); close traffic dropped; what follows the last
    return (late function-wrapper receives) is attached to the last batch"""
    per = [[] for _ in range(nbatches)]
    b = 0
    for e in trace:
        if e[0] == "C" or (e[0] == "w" and e[2] == "close"):
            continue
        per[min(b, nbatches - 1)].append(e)
        if e[0] == "R":
            b += 1
    return per


def ev_lit(e):
    k = e[0]
    if k == "F":
        return "eF %d" % e[1]
    if k == "S":
        return "eS %d %d" % (e[1], e[2])
    if k == "m":
        return "eM %d %d" % (e[1], e[2])
    if k == "R":
        return "eR"
    if k == "w":
        return "eWf %d" % e[1] if e[2] is None else "eWt %d %d" % (e[1], e[2])
    if k == "r":
        return "eA %d %d" % (e[1], e[2])
    raise ValueError(e)


def res_lit(r):
    if r is None:
        return "None"
    return "(Some %s)" % ("(%d)" % r if r < 0 else "%d" % r)


def session_lit(W, lb, batches, out, rets=None):
    """Coq literal `Sess W lb [Bt g tasks evs ret; ...]` of one executed session.
    batches = [(g, integer tasks)], rets = what each map returned (default out["rets"])."""
    per = split_trace(out["trace"], max(1, len(batches)))
    rets = out["rets"] if rets is None else rets
    bl = []
    for (g, tasks), evs, ret in zip(batches, per, rets):
        bl.append("Bt %d [%s] [%s] [%s]" % (
            g, "; ".join("(%d)" % t if t < 0 else "%d" % t for t in tasks),
            "; ".join(ev_lit(e) for e in evs),
            "; ".join(res_lit(r) for r in (ret if ret is not None else []))))
    return "Sess %d %s [%s]" % (W, "true" if lb else "false", "; ".join(bl))


def label_calls(calls):
    """For sessions whose payloads are objects (run_session(key=...)): number the functions 1,2,.. in order of
    first use, label the tasks of each call 0..n-1 and express every returned item as task_fn(g, j) where j is
    the position of the task it was computed from (matched by key); an unmatched item shows up as None.
    Returns (batches, rets) for session_lit."""
    fids = {}
    batches, rets = [], []
    for (fn, keys, rkeys) in calls:
        g = fids.setdefault(id(fn), len(fids) + 1)
        batches.append((g, list(range(len(keys)))))
        rets.append([task_fn(g, keys.index(k)) if k in keys else None for k in rkeys])
    return batches, rets


def enumerate_schedules(W, lb, batches, eager=True, limit=None, on_run=None):
    """depth-first enumeration of ALL schedules of one session (stateless: re-executes from the start
    with a longer choice prefix).  Returns (number of executions, exhausted?)."""
    prefix = []
    runs = 0
    while True:
        ch = Chooser(prefix)
        out = run_session(W, lb, batches, ch, eager=eager)
        runs += 1
        if on_run is not None:
            on_run(out, ch)
        made = ch.made
        # next prefix: last decision that still has an untried alternative
        i = len(made) - 1
        while i >= 0 and made[i][0] + 1 >= made[i][1]:
            i -= 1
        if i < 0:
            return runs, True
        prefix = [k for (k, _) in made[:i]] + [made[i][0] + 1]
        if limit is not None and runs >= limit:
            return runs, False


# ---- partial-order reduced enumeration (sleep sets) -----------------------------------------------
def independent(t1, t2):
    """Options are (rank, kind, src).  With eager sends the only scheduling points are receives.
    Two receives of different workers commute (each reads only its own inbox, appends only to its own
    outbox).  The master's receive from worker s and a step of worker w commute unless s == w (the
    master's subsequent sends append to the TAIL of inboxes, a worker pops the HEAD).  Two options of the
    same rank are alternatives of one receive: dependent."""
    if t1[0] == t2[0]:
        return False
    a, b = (t1, t2) if t1[0] == 0 else (t2, t1)
    if a[0] != 0:
        return True                  # two different workers
    if a[1] != "recv":
        return False                 # (non-eager sends are not used with the reduction)
    return a[2] != b[0]


class PorChooser:
    def __init__(self, frames):
        self.frames = frames
        self.depth = 0
        self.frozen = False
        self.blocked = False

    def __call__(self, opts):
        if self.frozen:
            return 0
        d = self.depth
        if d < len(self.frames):
            fr = self.frames[d]
        else:
            if d:
                par = self.frames[d - 1]
                sleep = {t for t in (par["sleep"] | set(par["done"])) if independent(t, par["cur"])}
            else:
                sleep = set()
            cand = [t for t in opts if t not in sleep]
            if not cand:
                self.blocked = True
                return None
            fr = {"enabled": list(opts), "sleep": sleep, "done": [], "cur": cand[0]}
            self.frames.append(fr)
        self.depth += 1
        return opts.index(fr["cur"])


def enumerate_por(W, lb, batches, limit=None, on_run=None):
    """one complete execution per Mazurkiewicz trace (plus sleep-set-blocked partial runs).
    Returns (complete executions, blocked partial executions, exhausted?)."""
    frames = []
    full = blocked = 0
    while True:
        ch = PorChooser(frames)
        out = run_session(W, lb, batches, ch, eager=True)
        if ch.blocked:
            blocked += 1
        else:
            full += 1
            if on_run is not None:
                on_run(out, ch)
        while frames:
            fr = frames[-1]
            fr["done"].append(fr["cur"])
            cand = [t for t in fr["enabled"] if t not in fr["sleep"] and t not in fr["done"]]
            if cand:
                fr["cur"] = cand[0]
                break
            frames.pop()
        if not frames:
            return full, blocked, True
        if limit is not None and full + blocked >= limit:
            return full, blocked, False
