"""C09 — elitist algorithms never lose their best solutions."""
import math
import random
import traceback
from fractions import Fraction

from vlib import common as C
from vlib import algos

ID = "C09"
PROPS_FILE = "Props/C09.v"
COQ_TARGETS = ["Harness/H09.vo"]
# only the three statements about REAL arithmetic (c09_spea2_fitness_*_is_real, c09_spea2_fitness_never_one) use them
ALLOWED_AXIOMS = [
    "ClassicalDedekindReals.sig_forall_dec",
    "ClassicalDedekindReals.sig_not_dec",
    "FunctionalExtensionality.functional_extensionality_dep",
]
# second tie (translator): coq/Gen/Core.v is regenerated from the source text of C.REPO on every run and
# coq/Tie/T09.v proves generated definition = hand model (harness/translate/py2coq_core.py)
EXTRA_PROPS = ["Tie/T09.v"]


def prebuild(ctx):
    import os
    import sys
    sys.path.insert(0, os.path.join(C.VERIF, "harness", "translate"))
    import py2coq_core
    py2coq_core.prebuild(ctx, C, ["GeneticAlgorithm.iterate", "EvolutionaryStrategy.iterate", "GDE3.survival"])


META = {
    "level_text": "Machine-checked proof (Coq) about literal step models of the survival selection of NSGA-II, eps-NSGA-II, GDE3, NSGA-III and SPEA2 "
                  "(built on the finished models of ParetoDominance.compare, Archive.add, nondominated_sort/truncate/split/prune and EpsilonBoxArchive.add): "
                  "exactly min(n,|U|) members of U = offspring + parents survive, the non-dominated front F0(U) (C03's filter) survives entirely when |F0(U)| <= n "
                  "and otherwise every survivor is in F0(U) (NSGA-II from truncation's rank monotonicity and rank 0 = non-dominated; GDE3 because the pairwise stage "
                  "only discards a solution its kept partner dominates, so F0 is unchanged; NSGA-III for EVERY sequence of picks of the niche filling; SPEA2 from "
                  "'raw fitness 0 <=> non-dominated', proved from the strength / raw-fitness loops, with the thinning loop's DistanceMatrix modelled literally); "
                  "archives only improve: every member of an earlier archive is a member of every later one or is dominated (in the archive's own relation) by one, "
                  "and members are mutually non-dominated (Pareto archives for any comparator with C03's contract, EpsilonBoxArchive and Archive(EpsilonDominance) "
                  "from C05's invariant); GA / ES: the new best is beaten by no parent and no offspring, over any number of generations, for any comparator that is a "
                  "strict weak order, which ParetoDominance on one objective (violation first, then the objective in its direction) is proved to be. Tied to /repo on "
                  "every run by step-level correspondence: real runs of NSGAII, NSGAIII, SPEA2, GDE3, EpsNSGAII, EpsMOEA, GA, ES, OMOPSO, CMAES, NSGAII(archive) "
                  "are observed at the iterate() boundary (parents, evaluated offspring batch, survivors, every archive.add) with object identities, and the Coq "
                  "models must return the same identity lists (vm_compute); plus an independent brute-force oracle of the property statement on every step.",
    "level_note": "Tie/T09.v also states single-objective elitism about the GeneticAlgorithm.iterate / EvolutionaryStrategy.iterate GENERATED from the source text (tie_c09_generated_*). Trusted: Coq kernel + VM; the harness (instance-level wrappers of iterate/evaluate_all/archive.add, literal printer, shard runner, the float-exactness "
                  "monitor XF); the hand-written models are tied to the code only on the sampled runs (population sizes 1-9, 1-5 objectives). Arithmetic models are "
                  "exact rational arithmetic: IEEE rounding in crowding distances, epsilon boxes and SPEA2 distances is not modelled; the arithmetic correspondences run "
                  "on integer-valued lattice problems where every float operation is checked exact with fractions.Fraction (inexact steps are discarded from the "
                  "correspondence, counted, and still checked by the oracle); comparison-only models (GA, ES, NSGA-III's front part, Pareto archives) are also run on "
                  "arbitrary-float problems. SPEA2's Euclidean distance is modelled by its square and fitness = raw + 1/(d_k+2) by the pair (raw, d_k^2): same order in "
                  "real arithmetic because the density is strictly decreasing in d_k and lies in (0, 1/2]; two different squared distances rounding to the same sqrt "
                  "are not covered (the driver checks the float order against the exact one and discards the step otherwise). NSGA-III's normalisation / reference-point "
                  "arithmetic is abstracted: the model takes the logged sequence of appended solutions and checks the loop's frame (picks are distinct members of the "
                  "cut front, stop exactly at n); the theorem quantifies over all pick sequences. Theorems assume well-formed solutions (one objective per direction, "
                  "violation >= 0), no object listed twice in offspring + parents, GDE3: |offspring| = |parents| = n. Error/fuel values: a Python exception is an "
                  "explicit result, SPEA2's thinning loop is proved never to run out of fuel. The oracle clause 'archive-member-never-in-population' goes beyond the "
                  "literal property text (it pins the anchored mechanism 'archive extended with survivors'). Nothing is left *_partial. "
                  "Axioms: none (closed under the global context) for every theorem except c09_spea2_fitness_order_is_real, c09_spea2_fitness_lt1_is_real and c09_spea2_fitness_never_one, "
                  "which state that in REAL arithmetic raw + 1/(sqrt(d2)+2) orders like the model's pair (raw, d2) and is < 1 iff raw = 0; these three use the "
                  "standard library's real-number axioms (ClassicalDedekindReals.sig_forall_dec, sig_not_dec, FunctionalExtensionality.functional_extensionality_dep).",
    "technique": "Coq proof (counting lemma over rank-monotone selections, generic comparators, exact Q arithmetic) + step-level correspondence on real runs (vm_compute) "
                 "+ per-step brute-force oracle",
}

INF = math.inf


# ----------------------------------------------------------------------------
# a float that carries the EXACT value of the same computation (a shadow execution in fractions.Fraction):
#   XF.inexact   counts arithmetic results that were rounded,
#   XF.diverged  counts DECISIONS (comparisons, floor) on which the float execution and the exact one differ.
# A step whose decisions all agree is a step on which the implementation computed what the exact model computes.
# ----------------------------------------------------------------------------
def exact_of(v):
    v = float(v)
    if v != v or v in (math.inf, -math.inf):
        return v
    return Fraction(v)


def _ex(x):
    return x.ex if isinstance(x, XF) else exact_of(x)


class XF(float):
    inexact = 0
    diverged = 0

    def __new__(cls, v, ex=None):
        o = float.__new__(cls, v)
        o.ex = exact_of(v) if ex is None else ex
        return o

    def __reduce__(self):
        return (XF, (float(self), self.ex))

    def __deepcopy__(self, memo):
        return self

    def __copy__(self):
        return self

    __hash__ = float.__hash__

    @staticmethod
    def _bin(a, b, r, op):
        if r is NotImplemented:
            return r
        ea, eb = _ex(a), _ex(b)
        if isinstance(ea, Fraction) and isinstance(eb, Fraction):
            try:
                er = op(ea, eb)
            except ZeroDivisionError:
                er = math.nan
        else:
            try:
                er = exact_of(op(float(ea), float(eb)))
            except (ZeroDivisionError, OverflowError):
                er = math.nan
        if isinstance(er, Fraction):
            if r != r or r in (math.inf, -math.inf) or Fraction(float(r)) != er:
                XF.inexact += 1
        elif not (er != er and r != r) and er != r:
            XF.inexact += 1
        return XF(r, er)

    @staticmethod
    def _cmp(a, b, fr, op):
        if fr is NotImplemented:
            return fr
        try:
            xr = op(_ex(a), _ex(b))
        except TypeError:
            return fr
        if bool(xr) != bool(fr):
            XF.diverged += 1
        return fr

    def __add__(self, o):
        return XF._bin(self, o, float.__add__(self, o), lambda x, y: x + y)

    def __radd__(self, o):
        return XF._bin(o, self, float.__radd__(self, o), lambda x, y: x + y)

    def __sub__(self, o):
        return XF._bin(self, o, float.__sub__(self, o), lambda x, y: x - y)

    def __rsub__(self, o):
        return XF._bin(o, self, float.__rsub__(self, o), lambda x, y: x - y)

    def __mul__(self, o):
        return XF._bin(self, o, float.__mul__(self, o), lambda x, y: x * y)

    def __rmul__(self, o):
        return XF._bin(o, self, float.__rmul__(self, o), lambda x, y: x * y)

    def __truediv__(self, o):
        return XF._bin(self, o, float.__truediv__(self, o), lambda x, y: x / y)

    def __rtruediv__(self, o):
        return XF._bin(o, self, float.__rtruediv__(self, o), lambda x, y: x / y)

    def __neg__(self):
        return XF(float.__neg__(self), -self.ex)

    def __pos__(self):
        return self

    def __abs__(self):
        return XF(float.__abs__(self), abs(self.ex))

    def __lt__(self, o):
        return XF._cmp(self, o, float.__lt__(self, o), lambda x, y: x < y)

    def __le__(self, o):
        return XF._cmp(self, o, float.__le__(self, o), lambda x, y: x <= y)

    def __gt__(self, o):
        return XF._cmp(self, o, float.__gt__(self, o), lambda x, y: x > y)

    def __ge__(self, o):
        return XF._cmp(self, o, float.__ge__(self, o), lambda x, y: x >= y)

    def __eq__(self, o):
        return XF._cmp(self, o, float.__eq__(self, o), lambda x, y: x == y)

    def __ne__(self, o):
        return XF._cmp(self, o, float.__ne__(self, o), lambda x, y: x != y)

    def __floor__(self):
        fr = float.__floor__(self)
        if isinstance(self.ex, Fraction) and math.floor(self.ex) != fr:
            XF.diverged += 1
        return fr


# ----------------------------------------------------------------------------
# problems
# ----------------------------------------------------------------------------
def lattice_problem(nobjs, conmode, maxdirs, levels, shift=0, scale=1.0):
    """three real variables in [0,1] cut into `levels` cells each; objectives on an integer lattice (times `scale`, a power
    of two, minus `shift`: negative values), optional constraint:
      conmode "graded"   violation = a + b - L where positive (many levels)
              "passfail" constraint value 1 (<= 0 wanted) unless the point is in a SMALL feasible region: violation in {0, 1}
              "ne"       a "!=0" constraint that is 0 outside the feasible region: violation in {0, 1}
              "levels2"  violation in {0, 1, 2}: large groups of infeasible points share one positive level
              "eq"       an "==0" constraint that no lattice point satisfies: every solution is infeasible, GRADED violation"""
    from platypus import Problem, Real, Direction
    nconstrs = 1 if conmode else 0

    class LatticeProblem(Problem):
        def __init__(self):
            super().__init__(3, nobjs, nconstrs)
            self.types[:] = Real(0.0, 1.0)
            for i, mx in enumerate(maxdirs):
                if mx:
                    self.directions[i] = Direction.MAXIMIZE
            if nconstrs:
                self.constraints[:] = "!=0" if conmode == "ne" else ("==0" if conmode == "eq" else "<=0")

        def evaluate(self, solution):
            L = levels
            cell = []
            for v in solution.variables[:3]:
                v = float(v)
                k = 0 if v != v else int(math.floor(min(max(v, 0.0), 1.0) * L))
                cell.append(min(L - 1, max(0, k)))
            a, b, c = cell
            M = L - 1
            if nobjs == 1:
                g = [(a - M // 3) ** 2 + (b - M // 2) ** 2 + (c - M) ** 2]
            else:
                g = [a + b, (M - a) + c, b + c, 2 * (M - b) + a, (M - c) + a + b][:nobjs]
            objs = [XF((float((3 * M - v) if mx else v) - shift) * scale) for v, mx in zip(g, maxdirs)]
            solution.objectives[:] = objs
            if nconstrs:
                feasible_small = (a == M and b <= 1) or (a + b + c == 0)
                if conmode in (True, "graded"):
                    val = float(a + b - L)
                elif conmode == "eq":
                    val = float(a + 2 * b + 1)          # "==0" is never satisfied: the whole run is infeasible, violation graded 1 .. 3M+1
                elif conmode == "passfail":
                    val = 0.0 if feasible_small else 1.0
                elif conmode == "ne":
                    val = 1.0 if feasible_small else 0.0
                else:
                    val = 0.0 if feasible_small else float(1 + (c % 2))
                solution.constraints[:] = [val]

    return LatticeProblem()


ELITIST = ("NSGAII", "EpsNSGAII", "NSGAIII", "SPEA2", "GDE3")
SINGLE = ("GA", "ES")
ARCHIVED = ("EpsMOEA", "EpsNSGAII", "OMOPSO", "CMAES", "NSGAII")   # NSGAII only with archive=Archive()
ALG_TAG = {"NSGAII": 0, "EpsNSGAII": 1, "NSGAIII": 2, "SPEA2": 3, "GDE3": 4, "GA": 5, "ES": 6}


def build_lattice(cfg, _problem=None, _generator=None):
    """cfg: name, nobjs, con, dirs, pop, levels, eps, seed, archive, k, inject={"k", "source"}"""
    from platypus import (NSGAII, NSGAIII, SPEA2, GDE3, EpsNSGAII, EpsMOEA, GeneticAlgorithm, EvolutionaryStrategy,
                          OMOPSO, CMAES, Archive)
    from platypus.extensions import AdaptiveTimeContinuationExtension
    name = cfg["name"]
    if _problem is None:
        random.seed(cfg["seed"])
    p = _problem if _problem is not None else lattice_problem(cfg["nobjs"], cfg["con"], cfg["dirs"], cfg["levels"], cfg.get("shift", 0), cfg.get("scale", 1.0))
    pop = cfg["pop"]
    eps = cfg.get("eps") or [2.0]
    if cfg.get("inject") and not _generator:
        # warm start: InjectedPopulation holding k ALREADY EVALUATED solutions
        #   source "prev": the population of a previous short cold run of the same algorithm on the same problem object,
        #   source "hand": hand-made solutions (random variables, evaluated here)
        from platypus import InjectedPopulation, Solution
        k = cfg["inject"]["k"]
        sols = []
        if cfg["inject"]["source"] == "prev":
            c0 = dict(cfg)
            c0.pop("inject")
            prev = build_lattice(c0, _problem=p)
            prev.run(max(1, 3 * pop))
            sols = [s for s in population_of(prev) if s.evaluated][:k]
            random.seed(cfg["seed"] + 17)
        while len(sols) < k:
            s = Solution(p)
            s.variables[:] = [t.rand() for t in p.types]
            s.evaluate()
            sols.append(s)
        gen = InjectedPopulation(sols)
        alg = build_lattice(cfg, _problem=p, _generator=gen)
        alg.verif_injected = sols
        return alg
    gkw = {"generator": _generator} if _generator is not None else {}
    if name == "GA":
        alg = GeneticAlgorithm(p, population_size=pop, offspring_size=cfg.get("off", pop), **gkw)
    elif name == "ES":
        alg = EvolutionaryStrategy(p, population_size=pop, offspring_size=cfg.get("off", pop), **gkw)
    elif name == "NSGAII":
        alg = NSGAII(p, population_size=pop, archive=Archive() if cfg.get("archive") else None, **gkw)
    elif name == "NSGAIII":
        alg = NSGAIII(p, divisions_outer=pop, **gkw)
    elif name == "SPEA2":
        alg = SPEA2(p, population_size=pop, k=cfg.get("k", 1), **gkw)
    elif name == "GDE3":
        alg = GDE3(p, population_size=pop, **gkw)
    elif name == "EpsNSGAII":
        alg = EpsNSGAII(p, eps, population_size=pop, **gkw)
        w = cfg.get("window")
        if w:
            alg.remove_extension(AdaptiveTimeContinuationExtension)
            alg.add_extension(AdaptiveTimeContinuationExtension(window_size=w, max_window_size=2 * w, min_population_size=2, max_population_size=10))
    elif name == "EpsMOEA":
        alg = EpsMOEA(p, eps, population_size=pop, **gkw)
    elif name == "OMOPSO":
        alg = OMOPSO(p, eps, swarm_size=pop, leader_size=max(2, pop), max_iterations=20, **gkw)
    elif name == "CMAES":
        alg = CMAES(p, offspring_size=max(2, pop), epsilons=(eps if cfg.get("eps") else None))
    else:
        raise ValueError(name)
    return alg


def build_floateq(cfg):
    """single-objective float problems whose constraints are practically never satisfied during a run (an equality on a real
    variable and a tight inequality): the whole run is an all-infeasible phase with GRADED violations"""
    from platypus import Problem, Real, Direction, GeneticAlgorithm, EvolutionaryStrategy
    random.seed(cfg["seed"])
    mx = bool(cfg["dirs"][0])
    p = Problem(3, 1, 2)
    p.types[:] = Real(0.0, 1.0)
    p.constraints[0] = "==0"
    p.constraints[1] = "<=0"
    if mx:
        p.directions[0] = Direction.MAXIMIZE

    def f(x):
        o = (x[0] - 0.7) ** 2 + (x[1] - 0.2) ** 2 + (x[2] - 0.9) ** 2
        return [-o if mx else o], [x[0] - 0.123456, x[1] + x[2] - 0.003]
    p.function = f
    cls = GeneticAlgorithm if cfg["name"] == "GA" else EvolutionaryStrategy
    return cls(p, population_size=cfg["pop"], offspring_size=cfg.get("off", cfg["pop"]))


def build_registry(cfg):
    """float-valued problems of the shared registry (harness/vlib/algos.py)"""
    from platypus import Archive
    kw = {}
    if cfg["name"] == "NSGAII" and cfg.get("archive"):
        kw["archive"] = Archive()
    if cfg["name"] == "SPEA2" and "k" in cfg:
        kw["k"] = cfg["k"]
    alg, info = algos.build(cfg["name"], vtype="real", pop=cfg["pop"], seed=cfg["seed"], constrained=bool(cfg["con"]),
                            nobjs=cfg["nobjs"], window=cfg.get("window"), inject=(cfg.get("inject") or {}).get("k", 0), **kw)
    return alg


# ----------------------------------------------------------------------------
# observation of one real run (instance-level wrappers only; nothing in /repo is touched)
# ----------------------------------------------------------------------------
class Hang(Exception):
    pass


class Obs:
    """everything logged from one run"""

    def __init__(self):
        self.sid = {}          # id(object) -> small integer
        self.objs = []         # the objects (kept alive)
        self.steps = []        # per step() : dict
        self.error = None

    def ident(self, s):
        k = id(s)
        if k not in self.sid:
            self.sid[k] = len(self.objs)
            self.objs.append(s)
        return self.sid[k]


def population_of(alg):
    if hasattr(alg, "particles"):
        return list(alg.particles)
    return list(getattr(alg, "population", []) or [])


def archive_of(alg):
    a = getattr(alg, "archive", None)
    return a


def observe(cfg, steps):
    """run the real algorithm for `steps` calls of step(), logging each one"""
    from platypus import TerminationCondition, Solution
    alg = build_lattice(cfg) if cfg["problem"] == "lattice" else (build_floateq(cfg) if cfg["problem"] == "floateq" else build_registry(cfg))
    name = cfg["name"]
    obs = Obs()
    obs.alg = alg
    cur = {"in_iter": False}

    def new_step():
        return {"kind": None, "n": None, "parents": None, "batches": [], "survivors": None, "fit_before": None, "fit_after": None,
                "arch_ops": [], "arch_before": None, "arch_after": None, "arch_iter_before": None, "arch_iter_after": None,
                "picks": [], "U": None, "trunc_out": None, "xf_iter": None, "xf_inexact_ops": 0, "arch_inexact": False, "result": None,
                "extra_batches": []}

    st = [new_step()]

    # --- the archive: log every add (all entry points go through self.add) ---
    arch = archive_of(alg)
    if arch is not None:
        base = arch.__class__

        def rec_add(self, solution):
            x0 = (XF.inexact, XF.diverged)
            r = base.add(self, solution)
            if (XF.inexact, XF.diverged) != x0:
                st[0]["arch_inexact"] = True
            st[0]["arch_ops"].append((solution, bool(r)))
            return r
        arch.__class__ = type("Rec" + base.__name__, (base,), {"add": rec_add})

    # --- evaluate_all: the batches ---
    orig_eval = alg.evaluate_all

    def eval_all(solutions):
        batch = list(solutions)
        r = orig_eval(solutions)
        (st[0]["batches"] if cur["in_iter"] else st[0]["extra_batches"]).append(batch)
        return r
    alg.evaluate_all = eval_all

    # --- iterate / initialize boundaries ---
    orig_iter = alg.iterate
    orig_init = alg.initialize

    def iterate():
        s = st[0]
        s["kind"] = "iter"
        s["n"] = getattr(alg, "population_size", None) or getattr(alg, "swarm_size", None) or getattr(alg, "offspring_size", None)
        s["parents"] = population_of(alg)
        s["fit_before"] = getattr(alg, "fittest", None)
        if arch is not None:
            s["arch_iter_before"] = list(arch._contents)
        x0 = (XF.inexact, XF.diverged)
        cur["in_iter"] = True
        try:
            orig_iter()
        finally:
            cur["in_iter"] = False
        s["xf_iter"] = XF.diverged - x0[1]            # decisions on which float and exact execution differ
        s["xf_inexact_ops"] = XF.inexact - x0[0]      # rounded operations (harmless unless a decision flips)
        s["survivors"] = population_of(alg)
        s["fit_after"] = getattr(alg, "fittest", None)
        if arch is not None:
            s["arch_iter_after"] = list(arch._contents)
    alg.iterate = iterate

    def initialize():
        s = st[0]
        s["kind"] = "init"
        cur["in_iter"] = True
        try:
            orig_init()
        finally:
            cur["in_iter"] = False
        s["survivors"] = population_of(alg)
        s["n"] = getattr(alg, "population_size", None) or getattr(alg, "swarm_size", None) or getattr(alg, "offspring_size", None)
        s["fit_after"] = getattr(alg, "fittest", None)
    alg.initialize = initialize

    # --- algorithm internals that the models need as input ---
    if name == "NSGAIII":
        orig_trunc = alg._reference_point_truncate
        orig_fmd = alg._find_minimum_distance

        def fmd(solutions, reference_point):
            r = orig_fmd(solutions, reference_point)
            st[0]["picks"].append(r)
            return r
        alg._find_minimum_distance = fmd

        def trunc(solutions, size):
            st[0]["U"] = list(solutions)
            orig_choice = random.choice

            def choice(seq):
                r = orig_choice(seq)
                if isinstance(r, Solution):
                    st[0]["picks"].append(r)
                return r
            random.choice = choice
            try:
                out = orig_trunc(solutions, size)
            finally:
                random.choice = orig_choice
            st[0]["trunc_out"] = list(out)
            return out
        alg._reference_point_truncate = trunc
    if name == "SPEA2":
        orig_tr = alg._truncate

        def tr(solutions, size):
            st[0]["U"] = list(solutions)
            st[0]["fitness"] = [float(s.fitness) for s in solutions]
            out = orig_tr(solutions, size)
            st[0]["trunc_out"] = list(out)
            return out
        alg._truncate = tr
    if name == "GDE3":
        orig_sv = alg.survival

        def sv(offspring):
            st[0]["U"] = list(offspring) + list(alg.population)
            return orig_sv(offspring)
        alg.survival = sv

    class Steps(TerminationCondition):
        def __init__(self):
            super().__init__()
            self.count = 0

        def shouldTerminate(self, algorithm):
            return self.count >= steps

    cond = Steps()

    def callback(a):
        s = st[0]
        if arch is not None:
            s["arch_after"] = list(arch._contents)
        s["result"] = list(a.result)
        s["pop_after_step"] = population_of(a)
        s["fittest_after_step"] = getattr(a, "fittest", None)
        s["nfe"] = a.nfe
        obs.steps.append(s)
        cond.count += 1
        st[0] = new_step()
        if arch is not None:
            st[0]["arch_before"] = list(arch._contents)

    if arch is not None:
        st[0]["arch_before"] = list(arch._contents)
    try:
        with C.cpu_time_limit(20.0, exc=Hang, wall_factor=15):
            alg.run(cond, callback=callback)
    except Hang:
        obs.error = "run did not finish within 20 s of CPU time"
    except Exception:
        obs.error = traceback.format_exc()
    return obs


# ----------------------------------------------------------------------------
# the oracle: the property statement, evaluated directly on the observed objects
# ----------------------------------------------------------------------------
def fresh_pareto():
    from platypus import ParetoDominance
    return ParetoDominance()


def front_of(U, cmp):
    """brute force: members no member dominates"""
    return [x for x in U if not any(cmp.compare(y, x) < 0 for y in U if y is not x)]


def spec_dominates(a, b, epsilons=None):
    """INDEPENDENT statement of "a dominates b in the archive's relation", in exact fractions (no call into the library's
    comparators).  Smaller constraint violation first.  epsilons=None: Pareto dominance on the direction-adjusted objectives.
    Otherwise the documented epsilon-box relation: box index = floor(adjusted objective / epsilon) (the last epsilon is reused);
    a's box Pareto-dominates b's box, or same box and a is strictly nearer to the box's ideal corner
    (offset = value - index*epsilon, measured from the LOWER corner whatever the sign of the value)."""
    from platypus import Direction
    pr = a.problem
    if pr.nconstrs > 0:
        ca, cb = Fraction(float(a.constraint_violation)), Fraction(float(b.constraint_violation))
        if ca != cb:
            return ca < cb
    xa = [(-1 if pr.directions[i] == Direction.MAXIMIZE else 1) * Fraction(float(a.objectives[i])) for i in range(pr.nobjs)]
    xb = [(-1 if pr.directions[i] == Direction.MAXIMIZE else 1) * Fraction(float(b.objectives[i])) for i in range(pr.nobjs)]
    if epsilons is None:
        return all(x <= y for x, y in zip(xa, xb)) and any(x < y for x, y in zip(xa, xb))
    es = [Fraction(float(epsilons[i if i < len(epsilons) else -1])) for i in range(pr.nobjs)]
    ia = [math.floor(x / e) for x, e in zip(xa, es)]
    ib = [math.floor(x / e) for x, e in zip(xb, es)]
    if ia != ib:
        return all(x <= y for x, y in zip(ia, ib)) and any(x < y for x, y in zip(ia, ib))
    da = sum((x - i * e) ** 2 for x, i, e in zip(xa, ia, es))
    db = sum((x - i * e) ** 2 for x, i, e in zip(xb, ib, es))
    return da < db


def so_key(s):
    """single objective: constraint violation first, then the objective in its direction"""
    from platypus import Direction
    v = float(s.objectives[0])
    if s.problem.directions[0] == Direction.MAXIMIZE:
        v = -v
    return (float(s.constraint_violation), v)


def desc(s):
    return "(%s | cv=%r)" % (", ".join(repr(float(o)) for o in s.objectives), float(s.constraint_violation))


def oracle_run(ctx, cfg, obs, report=True):
    """returns the list of (key, what, step) violations of the property on this run"""
    name = cfg["name"]
    out = []
    cmp = fresh_pareto()

    pre = [""]

    def viol(key, what, t):
        out.append((key, "%s %s step %d: %s%s" % (name, cfg_label(cfg), t, pre[0], what), t))

    # --- elitism, at every step boundary after the first one (the boundary after initialisation is the baseline):
    #     parents = the population held at the previous boundary, offspring = everything evaluated during the step,
    #     survivors = the population the step left (before extensions such as eps-NSGA-II's restart run).
    #     A step() that runs initialize() a second time is judged like any other step.
    if name in ELITIST:
        for t, s in enumerate(obs.steps):
            if t == 0 or s["kind"] is None:
                continue
            parents = obs.steps[t - 1]["pop_after_step"]
            off = [x for b in s["batches"] for x in b]
            pid = set(id(x) for x in parents)
            off = [x for x in off if id(x) not in pid]
            U = off + parents
            surv = s["survivors"]
            n = s["n"]
            pre[0] = "step() ran initialize() again although the algorithm already held a population; " if s["kind"] == "init" else ""
            F0 = front_of(U, cmp)
            ids = set(id(x) for x in surv)
            f0ids = set(id(x) for x in F0)
            uids = set(id(x) for x in U)
            if len(surv) != min(n, len(U)) or len(ids) != len(surv):
                viol("%s-survivor-count" % name.lower(), "population_size=%d, |offspring+parents|=%d but %d survivors (%d distinct)" % (n, len(U), len(surv), len(ids)), t)
            if not ids <= uids:
                viol("%s-survivor-not-from-merged-population" % name.lower(), "a survivor is neither a parent nor an evaluated offspring of this generation", t)
            if len(F0) <= n:
                lost = [x for x in F0 if id(x) not in ids]
                if lost:
                    viol("%s-front-member-lost" % name.lower(),
                         "the non-dominated front of parents+offspring has %d <= %d members but %d of them did not survive, e.g. %s; merged population: %s; survivors: %s"
                         % (len(F0), n, len(lost), desc(lost[0]), [desc(x) for x in U], [desc(x) for x in surv]), t)
            else:
                bad = [x for x in surv if id(x) not in f0ids]
                if bad:
                    viol("%s-dominated-survivor-while-front-overflows" % name.lower(),
                         "the non-dominated front has %d > %d members but a dominated solution survived: %s; merged population: %s; survivors: %s"
                         % (len(F0), n, desc(bad[0]), [desc(x) for x in U], [desc(x) for x in surv]), t)
    pre[0] = ""
    # --- archives: results only improve, members mutually non-dominated ---
    arch = archive_of(obs.alg)
    if arch is not None:
        from platypus import EpsilonDominance as ED
        d = arch._dominance
        rel = ED(list(d.epsilons)) if isinstance(d, ED) else fresh_pareto()
        # the independent relation (exact fractions): always for Pareto archives; for epsilon archives on the lattice problems,
        # where o/eps and the corner offsets are exact in binary64 (on arbitrary floats the library's floor(o/eps) may legitimately
        # differ from the exact one at a box boundary)
        spec_eps = [float(e) for e in d.epsilons] if isinstance(d, ED) else None
        use_spec = (spec_eps is None) or cfg["problem"] == "lattice"
        snaps = [(t, s["result"]) for t, s in enumerate(obs.steps) if s["result"] is not None]
        dup = [0]
        if use_spec:
            for t, snap in snaps:
                hit = next(((a, b) for i, a in enumerate(snap) for b in snap[i + 1:] if a is not b and (spec_dominates(a, b, spec_eps) or spec_dominates(b, a, spec_eps))), None)
                if hit:
                    viol("archive-members-not-mutually-nondominated-in-stated-relation",
                         "result members %s and %s: one dominates the other in the %s (exact arithmetic); result: %s"
                         % (desc(hit[0]), desc(hit[1]), "epsilon-box relation eps=%r" % spec_eps if spec_eps else "Pareto relation", [desc(x) for x in snap]), t)
            pairs = list(zip(snaps, snaps[1:])) + [(snaps[i], snaps[j]) for i in range(0, len(snaps), 3) for j in range(i + 2, len(snaps), 4)]
            for (t1, s1), (t2, s2) in pairs:
                ids2 = set(id(x) for x in s2)
                m = next((m for m in s1 if id(m) not in ids2 and not any(spec_dominates(m2, m, spec_eps) for m2 in s2)), None)
                if m is not None:
                    viol("archive-member-lost-undominated-in-stated-relation",
                         "result member %s of step %d is neither in the result of step %d nor dominated, in the %s (exact arithmetic), by any of its members %s"
                         % (desc(m), t1, t2, "epsilon-box relation eps=%r" % spec_eps if spec_eps else "Pareto relation", [desc(x) for x in s2]), t2)
        for t, snap in snaps:
            for i, a in enumerate(snap):
                for b in snap[i + 1:]:
                    if a is b:
                        # the same object offered again to a plain Archive is stored again (C03 notes it); the property
                        # statement speaks of members, so this is counted, not reported
                        dup[0] += 1
                    elif rel.compare(a, b) != 0 or rel.compare(b, a) != 0:
                        viol("archive-members-not-mutually-nondominated",
                             "result members %s and %s: compare=%d/%d in the archive's relation; result: %s"
                             % (desc(a), desc(b), rel.compare(a, b), rel.compare(b, a), [desc(x) for x in snap]), t)
                        break
                else:
                    continue
                break
        for (t1, s1), (t2, s2) in zip(snaps, snaps[1:]):
            ids2 = set(id(x) for x in s2)
            for m in s1:
                if id(m) in ids2:
                    continue
                if not any(rel.compare(m2, m) < 0 for m2 in s2):
                    viol("archive-member-lost-undominated",
                         "result member %s of step %d is neither in the result of step %d nor dominated (archive's relation) by any of its members %s"
                         % (desc(m), t1, t2, [desc(x) for x in s2]), t2)
                    break
        # every earlier vs EVERY later result (transitivity makes consecutive pairs sufficient in theory; check it anyway, sparsely)
        for i in range(0, len(snaps), 3):
            for j in range(i + 2, len(snaps), 4):
                (t1, s1), (t2, s2) = snaps[i], snaps[j]
                ids2 = set(id(x) for x in s2)
                for m in s1:
                    if id(m) not in ids2 and not any(rel.compare(m2, m) < 0 for m2 in s2):
                        viol("archive-member-lost-undominated",
                             "result member %s of step %d is neither in the result of step %d nor dominated by any of its members" % (desc(m), t1, t2), t2)
                        break
        # anchored mechanism: NSGA-II's archive is extended with the survivors
        if name in ("NSGAII", "EpsNSGAII"):
            for t, s in enumerate(obs.steps):
                if s["kind"] != "iter" or s["arch_iter_before"] is None:
                    continue
                before = set(id(x) for x in s["arch_iter_before"])
                pop = set(id(x) for x in s["survivors"])
                new = [x for x in s["arch_iter_after"] if id(x) not in before and id(x) not in pop]
                if new:
                    viol("archive-member-never-in-population", "iterate() put %s into the archive although it is not in the population after truncation" % desc(new[0]), t)
        obs.duplicate_pairs = dup[0]
    # --- GA / ES: the best held never gets worse ---
    if name in SINGLE:
        prev = None
        for t, s in enumerate(obs.steps):
            pop = s["pop_after_step"]
            if not pop:
                viol("%s-empty-population" % name.lower(), "the population is empty", t)
                continue
            best = min(so_key(x) for x in pop)
            if name == "GA":
                f = s["fittest_after_step"]
                if f is None or so_key(f) != best:
                    viol("ga-fittest-is-not-the-best-member", "fittest=%s but the best member has (violation, objective)=%r" % (desc(f) if f is not None else None, best), t)
                if f is not None and not any(f is x for x in pop):
                    viol("ga-fittest-not-in-population", "fittest %s is not a member of the population" % desc(f), t)
            if prev is not None and best > prev:
                viol("%s-best-got-worse" % name.lower(),
                     "best (violation, direction-adjusted objective) went from %r to %r" % (prev, best), t)
            prev = best
    return out


def cfg_label(cfg):
    return "[%s objs=%d con=%s pop=%d seed=%d%s%s]" % (cfg["problem"], cfg["nobjs"], cfg["con"] if isinstance(cfg["con"], str) else int(bool(cfg["con"])), cfg["pop"], cfg["seed"],
                                                       " max=%s" % "".join("1" if d else "0" for d in cfg["dirs"]) if any(cfg["dirs"]) else "",
                                                       (" warm-start k=%d(%s)" % (cfg["inject"]["k"], cfg["inject"]["source"]) if cfg.get("inject") else "")
                                                       + (" shift=%r scale=%r" % (cfg.get("shift", 0), cfg.get("scale", 1.0)) if cfg.get("shift") or cfg.get("scale", 1.0) != 1.0 else "")
                                                       + (" eps=%r" % cfg["eps"] if cfg.get("eps") else ""))


# ----------------------------------------------------------------------------
# Coq cases
# ----------------------------------------------------------------------------
def is_intlike(x):
    """a small multiple of 1/4: differences, squares and their sums are exact in binary64"""
    x = float(x) * 4.0
    return x == x and abs(x) < 2 ** 20 and x == math.floor(x)


def spea2_order_exact(s, k):
    """the float fitness order equals the order of the exact pairs (raw, -d_k^2), and sqrt is injective on the distances seen"""
    U, fit = s["U"], s["fitness"]
    if any(not is_intlike(o) for x in U for o in x.objectives):
        return False
    n = len(U)
    d2 = [[sum((Fraction(float(a)) - Fraction(float(b))) ** 2 for a, b in zip(U[i].objectives, U[j].objectives)) for j in range(n)] for i in range(n)]
    vals = sorted(set(d2[i][j] for i in range(n) for j in range(n) if i != j))
    roots = [math.sqrt(float(v)) for v in vals]
    if any(not (a < b) for a, b in zip(roots, roots[1:])):
        return False
    keys = []
    for i in range(n):
        row = sorted(d2[i][j] for j in range(n) if j != i)
        if k >= len(row):
            return False
        keys.append((math.floor(fit[i]), -row[k]))
    for i in range(n):
        for j in range(n):
            if (fit[i] < fit[j]) != (keys[i] < keys[j]) or (fit[i] == fit[j]) != (keys[i] == keys[j]):
                return False
    return True


def mk_case(tag, cfg, pool_objs, par, off, surv, n, aux=(), eps=(), arch=None):
    """pool_objs: list of Solution objects (local index = position); par/off/surv/arch: lists of local indices"""
    pool = C.list_lit(["(%s, %s)" % (C.list_lit([C.xq_lit(float(o)) for o in s.objectives]), C.xq_lit(float(s.constraint_violation))) for s in pool_objs])
    nl = lambda l: C.list_lit([C.nat_lit(i) for i in l])
    archl = "None" if arch is None else "(Some (%s, %s))" % (nl(arch[0]), nl(arch[1]))
    return "C9 %s %s %s %s %s %s %s %s %s %s %s" % (
        C.nat_lit(tag), C.bool_lit(bool(cfg["con"])), C.list_lit([C.bool_lit(d) for d in cfg["dirs"]]), pool, C.nat_lit(n),
        nl(par), nl(off), nl(surv), nl(aux), C.list_lit([C.q_lit(float(e)) for e in eps]), archl)


class Local:
    """local numbering of the objects of one case"""

    def __init__(self):
        self.idx = {}
        self.objs = []

    def __call__(self, s):
        k = id(s)
        if k not in self.idx:
            self.idx[k] = len(self.objs)
            self.objs.append(s)
        return self.idx[k]

    def many(self, l):
        return [self(x) for x in l]


def finite(s):
    return all(float(o) == float(o) and abs(float(o)) != INF for o in s.objectives) and float(s.constraint_violation) == float(s.constraint_violation)


def eps_of(cfg, alg):
    from platypus import EpsilonDominance as ED
    a = archive_of(alg)
    if a is not None and isinstance(a._dominance, ED):
        return [float(e) for e in a._dominance.epsilons]
    return []


def cases_of_run(ctx, cfg, obs, stats):
    """Coq literals for the steps of one run whose arithmetic (if any) was exact"""
    from platypus import EpsilonBoxArchive, EpsilonDominance as ED
    name = cfg["name"]
    lattice = cfg["problem"] == "lattice"
    arch = archive_of(obs.alg)
    eps = eps_of(cfg, obs.alg)
    lits = []
    for t, s in enumerate(obs.steps):
        # (a) the survival step
        if s["kind"] == "iter" and name in ALG_TAG:
            off = [x for b in s["batches"] for x in b]
            par = s["parents"]
            U = off + par
            ok = all(finite(x) for x in U) and len(set(id(x) for x in U)) == len(U)
            why = "non-finite-or-aliased"
            tag = ALG_TAG[name]
            aux = []
            archpair = None
            if ok and name in ("NSGAII", "EpsNSGAII", "GDE3", "SPEA2") and not lattice:
                ok = False
                why = "float-valued-problem(oracle-only)"
            if ok and name in ("NSGAII", "EpsNSGAII", "GDE3"):
                ok = s["xf_iter"] == 0 and not (name == "EpsNSGAII" and s["arch_inexact"])
                why = "float-decision-differs-from-exact"
                if ok and s["xf_inexact_ops"]:
                    stats["steps_with_rounded_ops_but_same_decisions"] = stats.get("steps_with_rounded_ops_but_same_decisions", 0) + 1
            if ok and name == "SPEA2":
                ok = spea2_order_exact(s, cfg.get("k", 1))
                why = "spea2-float-order-differs-from-exact"
                aux = [cfg.get("k", 1)]
            if ok:
                loc = Local()
                if name == "GA":
                    parl = [loc(s["fit_before"])]
                else:
                    parl = loc.many(par)
                offl = loc.many(off)
                survl = loc.many(s["survivors"])
                if name == "NSGAIII":
                    aux = loc.many(s["picks"])
                if name == "NSGAII" and arch is not None:
                    archpair = (loc.many(s["arch_iter_before"]), loc.many(s["arch_iter_after"]))
                if name == "EpsNSGAII":
                    archpair = (loc.many(s["arch_iter_before"]), loc.many(s["arch_iter_after"]))
                    if not all(finite(x) for x in loc.objs):
                        ok = False
                if ok:
                    lits.append((mk_case(tag, cfg, loc.objs, parl, offl, survl, s["n"], aux, eps, archpair), cfg, t, "step"))
                    stats["cases_" + name] = stats.get("cases_" + name, 0) + 1
            if not ok:
                stats["discarded_" + why] = stats.get("discarded_" + why, 0) + 1
        # GeneticAlgorithm.initialize: sorted(population), fittest = population[0]
        if s["kind"] == "init" and name == "GA" and s["batches"]:
            gen = s["batches"][0]
            if all(finite(x) for x in gen) and len(set(id(x) for x in gen)) == len(gen):
                loc = Local()
                offl = loc.many(gen)
                survl = loc.many(s["survivors"])
                lits.append((mk_case(10, cfg, loc.objs, [], offl, survl, len(gen), [], [], None), cfg, t, "ga-initialize"))
                stats["cases_GA_initialize"] = stats.get("cases_GA_initialize", 0) + 1
        # (b) the archive over the whole step (initialisation, iterate, restarts): every add in order
        if arch is not None and s["arch_ops"]:
            is_eps = isinstance(arch._dominance, ED)
            ok = all(finite(x) for x, _ in s["arch_ops"]) and all(finite(x) for x in s["arch_before"])
            if ok and is_eps:
                ok = lattice and not s["arch_inexact"]
            if ok:
                loc = Local()
                a0 = loc.many(s["arch_before"])
                offl = loc.many([x for x, _ in s["arch_ops"]])
                a1 = loc.many(s["arch_after"])
                tag = 9 if not is_eps else (7 if isinstance(arch, EpsilonBoxArchive) else 8)
                lits.append((mk_case(tag, cfg, loc.objs, [], offl, [], 0, [], eps, (a0, a1)), cfg, t, "archive"))
                stats["cases_archive_%d" % tag] = stats.get("cases_archive_%d" % tag, 0) + 1
            else:
                w = "discarded_archive_float-valued-problem(oracle-only)" if not lattice else "discarded_archive_inexact"
                stats[w] = stats.get(w, 0) + 1
    return lits


# ----------------------------------------------------------------------------
# configurations
# ----------------------------------------------------------------------------
def gen_configs(ctx):
    rng = ctx.rng
    cfgs = []

    def add(name, problem, nobjs, con, pop, dirs=None, **kw):
        d = dict(name=name, problem=problem, nobjs=nobjs, con=con, pop=pop, dirs=list(dirs) if dirs else [False] * nobjs,
                 levels=kw.pop("levels", rng.choice([4, 6, 8])), seed=rng.randrange(1, 10 ** 6))
        d.update(kw)
        cfgs.append(d)

    def dirs_for(nobjs):
        return [rng.random() < 0.35 for _ in range(nobjs)]

    def eps_for(nobjs):
        return [rng.choice([0.5, 1.0, 2.0, 2.0, 4.0]) for _ in range(rng.choice([1, nobjs]))]

    reps = ctx.scale(1, 6)
    for _ in range(reps):
        # multi-objective elitist algorithms on the lattice (exact arithmetic), 2-5 objectives, tiny and odd sizes
        for name, sizes in (("NSGAII", [1, 2, 3, 5, 8]), ("EpsNSGAII", [2, 3, 5, 7]), ("SPEA2", [3, 4, 5, 8]), ("GDE3", [4, 5, 7, 8])):
            for pop in rng.sample(sizes, 3):
                nobjs = rng.choice([2, 2, 3, 4, 5])
                kw = {}
                if name == "EpsNSGAII":
                    kw = {"eps": eps_for(nobjs), "window": rng.choice([None, 3, 5])}
                if name == "SPEA2":
                    kw = {"k": min(rng.choice([0, 1, 1, 2]), pop - 2)}     # kth_distance indexes a row of pop-1 entries at initialisation
                add(name, "lattice", nobjs, rng.random() < 0.4, pop, dirs_for(nobjs), **kw)
        add("NSGAII", "lattice", 1, False, 4)                     # one objective: the front is the set of best twins
        add("SPEA2", "lattice", 1, True, 5)
        # NSGA-III (minimisation only): divisions -> population sizes 4, 8, 12
        for nobjs, div in ((2, 3), (3, 2), (2, 6), (4, 1), (5, 1)):
            add("NSGAIII", "lattice", nobjs, rng.random() < 0.3, div)
        add("NSGAIII", "registry", 3, False, 2)
        add("NSGAIII", "registry", 2, True, 5)
        # archives
        for pop in (3, 6):
            nobjs = rng.choice([2, 3])
            add("EpsMOEA", "lattice", nobjs, rng.random() < 0.4, pop, dirs_for(nobjs), eps=eps_for(nobjs))
        add("EpsMOEA", "lattice", 4, False, 5, eps=[1.0])
        add("NSGAII", "lattice", rng.choice([2, 3]), False, rng.choice([3, 6]), archive=True)
        add("NSGAII", "registry", 2, True, 5, archive=True)
        add("OMOPSO", "lattice", 2, False, 5, eps=eps_for(2))
        add("OMOPSO", "lattice", 3, True, 4, eps=[1.0])
        add("CMAES", "lattice", 2, False, 6, eps=eps_for(2))
        add("CMAES", "lattice", 3, True, 5)
        add("CMAES", "registry", 2, False, 6)
        # single objective: lattice (many ties) and floats, minimised / maximised / constrained
        for name in SINGLE:
            for pop in rng.sample([1, 2, 3, 5, 7, 9], 4):
                add(name, "lattice", 1, rng.random() < 0.4, pop, [rng.random() < 0.4], off=rng.choice([pop, pop, pop + 2, max(1, pop - 1)]))
            for pop in (3, 6, 8):
                add(name, "registry", 1, rng.random() < 0.5, pop)
        # ES again: the first generation after an UNSORTED initial population is where a best parent can be dropped
        for pop in (4, 5, 6, 7, 8, 9, 10, 12):
            add("ES", "lattice" if rng.random() < 0.5 else "registry", 1, rng.random() < 0.3, pop, [False])
        # pass/fail and few-level constraints: large groups of infeasible solutions share ONE positive violation and are then ranked by
        # the objectives alone; the feasible region is small, so initial populations are entirely or mostly infeasible
        for name, sizes in (("GDE3", [8, 10, 12, 6]), ("NSGAII", [6, 9]), ("SPEA2", [6, 8]), ("EpsNSGAII", [6]), ("NSGAIII", [3]), ("EpsMOEA", [5])):
            for pop in sizes:
                nobjs = 2 if name in ("GDE3", "NSGAIII") else rng.choice([2, 3])
                kw = {"eps": eps_for(nobjs)} if name in ("EpsNSGAII", "EpsMOEA") else {}
                add(name, "lattice", nobjs, rng.choice(["passfail", "ne", "levels2"]), pop, None if name == "NSGAIII" else dirs_for(nobjs),
                    levels=rng.choice([6, 8]), steps=10, **kw)
        for name in SINGLE:
            add(name, "lattice", 1, rng.choice(["passfail", "ne", "levels2"]), 5, [rng.random() < 0.5], steps=10)
        # single objective, the WHOLE run infeasible with graded violations (equality constraints that are never met): the order is
        # violation first, then the objective in its direction
        for name in SINGLE:
            for mxd in (False, True):
                add(name, "lattice", 1, "eq", rng.choice([3, 5, 7]), [mxd], levels=8, steps=12)
                add(name, "floateq", 1, True, rng.choice([4, 6, 8]), [mxd], steps=12)
            add(name, "lattice", 1, "eq", rng.choice([2, 4, 6]), [rng.random() < 0.5], levels=6, steps=12, off=rng.choice([2, 9]))
        # epsilon archives with NEGATIVE working values: maximised objectives and/or minimised objectives shifted below zero, boxes
        # that hold several lattice points (eps 4 / 8 on the integer lattice, eps 1 / 2 on the half-integer one)
        for name, pop in (("EpsMOEA", 4), ("EpsMOEA", 6), ("EpsNSGAII", 4), ("EpsNSGAII", 6), ("OMOPSO", 5), ("OMOPSO", 4), ("CMAES", 6), ("CMAES", 4)):
            for variant in range(2):
                nobjs = rng.choice([2, 2, 3])
                scale = rng.choice([1.0, 0.5])
                e = [rng.choice([4.0, 8.0] if scale == 1.0 else [1.0, 2.0, 4.0]) for _ in range(rng.choice([1, nobjs]))]
                if variant == 0:
                    dirs = [True] * nobjs if rng.random() < 0.5 else [i % 2 == 0 for i in range(nobjs)]
                    shift = rng.choice([0, 0, 30])
                else:
                    dirs = [False] * nobjs
                    shift = rng.choice([20, 25, 40])        # every minimised value is negative
                add(name, "lattice", nobjs, rng.random() < 0.25, pop, dirs, eps=e, shift=shift, scale=scale, levels=8, steps=12)
        # plain archives on negative / maximised values
        add("NSGAII", "lattice", 2, False, 5, [True, False], archive=True, shift=10, steps=10)
        add("CMAES", "lattice", 2, False, 5, [True, True], shift=30, steps=10)
        # warm starts: the initial population is injected ALREADY EVALUATED (k <, =, > population size), taken from a previous
        # short run or hand-made; the boundary after initialisation is the baseline for every later one
        for name, pop in (("GA", 4), ("ES", 5), ("NSGAII", 5), ("SPEA2", 4), ("GDE3", 5), ("EpsNSGAII", 4), ("EpsMOEA", 4), ("OMOPSO", 4)):
            nobjs = 1 if name in SINGLE else rng.choice([2, 3])
            for rel in (-2, 0, 3):
                kw = {"eps": eps_for(nobjs)} if name in ("EpsNSGAII", "EpsMOEA", "OMOPSO") else {}
                add(name, "lattice", nobjs, rng.random() < 0.3, pop, None, inject={"k": max(1, pop + rel), "source": rng.choice(["prev", "hand"])},
                    steps=6, **kw)
        for div, size in ((3, 4), (2, 4)):          # NSGA-III: 2 objectives / 3 divisions and 3 objectives / 2 divisions -> 4 and 8
            nobjs = 2 if div == 3 else 3
            size = 4 if nobjs == 2 else 8
            for rel in (-1, 0, 2):
                add("NSGAIII", "lattice", nobjs, False, div, None, inject={"k": size + rel, "source": rng.choice(["prev", "hand"])}, steps=6)
        for name, pop in (("GA", 5), ("ES", 4), ("NSGAII", 4), ("SPEA2", 5), ("GDE3", 4)):      # registry (float) problems: algos.build(inject=k)
            add(name, "registry", 1 if name in SINGLE else 2, rng.random() < 0.5, pop, None, inject={"k": pop + rng.choice([0, 0, 2]), "source": "hand"}, steps=6)
        # float-valued runs of the elitist algorithms: oracle only (plus NSGA-III / Pareto-archive correspondence)
        for name, pop in (("NSGAII", 6), ("SPEA2", 5), ("GDE3", 6), ("EpsNSGAII", 6), ("EpsMOEA", 5), ("OMOPSO", 5)):
            add(name, "registry", rng.choice([2, 3, 5]), rng.random() < 0.5, pop)
    return cfgs


# ----------------------------------------------------------------------------
def run_one(ctx, cfg, steps, stats, lits, want_cases=True):
    steps = cfg.get("steps", steps)
    obs = observe(cfg, steps)
    ctx.count(len(obs.steps))
    if obs.steps and obs.steps[0].get("n"):
        cfg["_n0"] = obs.steps[0]["n"]          # the population size the object really uses (NSGA-III derives it)
    if obs.error:
        ctx.violation("run-raised", "%s %s raised / hung: %s" % (cfg["name"], cfg_label(cfg), obs.error[-600:]),
                      {"kind": "run", "cfg": cfg, "steps": steps})
        return obs
    vs = oracle_run(ctx, cfg, obs)
    for key, what, t in vs:
        ctx.violation(key, what, {"kind": "run", "cfg": cfg, "steps": steps, "step": t, "key": key})
    # coverage marks
    name = cfg["name"]
    cmp = fresh_pareto()
    for t, s in enumerate(obs.steps):
        if s["kind"] == "iter" and name in ELITIST:
            off = [x for b in s["batches"] for x in b]
            U = off + s["parents"]
            f0 = front_of(U, cmp)
            w = "%s_front_%s" % (name, "smaller_than_n" if len(f0) < s["n"] else ("equals_n" if len(f0) == s["n"] else "overflows"))
            stats[w] = stats.get(w, 0) + 1
            if name == "NSGAIII" and s["picks"]:
                stats["NSGAIII_steps_with_niche_picks"] = stats.get("NSGAIII_steps_with_niche_picks", 0) + 1
                stats["NSGAIII_niche_picks"] = stats.get("NSGAIII_niche_picks", 0) + len(s["picks"])
            if len(set(tuple(float(o) for o in x.objectives) for x in U)) < len(U):
                stats["steps_with_twins"] = stats.get("steps_with_twins", 0) + 1
            if 0 < len(f0) < len(U):
                ctx.mark((name, s["n"], tuple(tuple(float(o) for o in x.objectives) + (float(x.constraint_violation),) for x in U)))
        elif s["kind"] == "iter" and name in SINGLE:
            off = [x for b in s["batches"] for x in b]
            keys = tuple(so_key(x) for x in off + s["parents"])
            if len(set(keys)) > 1:
                ctx.mark((name, s["n"], keys))
        if s["arch_ops"] and name in ARCHIVED:
            rej = sum(1 for _, r in s["arch_ops"] if not r)
            ev = len(s["arch_before"]) + sum(1 for _, r in s["arch_ops"] if r) - len(s["arch_after"])
            stats["archive_rejections"] = stats.get("archive_rejections", 0) + rej
            stats["archive_evictions"] = stats.get("archive_evictions", 0) + ev
            if rej or ev:
                ctx.mark((name, "archive", tuple(tuple(float(o) for o in x.objectives) for x, _ in s["arch_ops"]), len(s["arch_before"])))
    if want_cases:
        lits.extend(cases_of_run(ctx, cfg, obs, stats))
    return obs


def run(ctx):
    cfgs = gen_configs(ctx)
    steps = ctx.scale(15, 40)
    stats = {}
    lits = []
    per_alg = {}
    XF.inexact = 0
    XF.diverged = 0
    for cfg in cfgs:
        obs = run_one(ctx, cfg, steps, stats, lits)
        per_alg[cfg["name"]] = per_alg.get(cfg["name"], 0) + 1
        if len(ctx.samples) < 3 and obs.steps and not obs.error:
            s = obs.steps[min(2, len(obs.steps) - 1)]
            ctx.sample({"run": cfg, "step": min(2, len(obs.steps) - 1), "kind": s["kind"], "population_size": s["n"],
                        "parents": [desc(x) for x in (s["parents"] or [])][:6], "offspring": [desc(x) for b in s["batches"] for x in b][:6],
                        "survivors": [desc(x) for x in (s["survivors"] or [])][:6]})
    ctx.coverage["runs"] = len(cfgs)
    ctx.coverage["steps_per_run"] = steps
    ctx.coverage["runs_per_algorithm"] = per_alg
    ctx.coverage["input_distribution"] = {
        "objectives": sorted(set(c["nobjs"] for c in cfgs)), "population_sizes": sorted(set(c["pop"] for c in cfgs)),
        "constrained_runs": sum(1 for c in cfgs if c["con"]), "pass_fail_or_few_level_constraint_runs": sum(1 for c in cfgs if isinstance(c["con"], str)),
        "runs_with_negative_objective_values": sum(1 for c in cfgs if c.get("shift")), "eps_archive_runs_with_negative_working_values": sum(1 for c in cfgs if c.get("eps") and (c.get("shift") or any(c["dirs"]))), "runs_with_maximised_objective": sum(1 for c in cfgs if any(c["dirs"])),
        "lattice_runs": sum(1 for c in cfgs if c["problem"] == "lattice"), "float_runs": sum(1 for c in cfgs if c["problem"] != "lattice"),
        "single_objective_runs_infeasible_throughout": sum(1 for c in cfgs if c["con"] == "eq" or c["problem"] == "floateq")}
    warm = {"k<n": 0, "k=n": 0, "k>n": 0, "from_previous_run": 0, "hand_made": 0}
    for c in cfgs:
        if c.get("inject"):
            n0 = c.get("_n0") or c["pop"]
            k = c["inject"]["k"]
            warm["k<n" if k < n0 else ("k=n" if k == n0 else "k>n")] += 1
            warm["from_previous_run" if c["inject"]["source"] == "prev" else "hand_made"] += 1
    ctx.coverage["warm_start_runs"] = warm
    ctx.coverage["step_statistics"] = stats
    ctx.rule = ("real runs of NSGAII, EpsNSGAII, NSGAIII, SPEA2, GDE3, EpsMOEA, GA, ES, OMOPSO, CMAES, NSGAII(archive=Archive()) on integer-valued lattice problems "
                "(3 real variables cut into 4/6/8 cells; 1-5 objectives, some maximised, optional constraint) and on the float-valued registry problems, "
                "population sizes 1-12 incl. odd and minimal ones, 15 (quick) / 40 (thorough) steps each, plus warm starts (generator=InjectedPopulation of k already "
                "evaluated solutions, k <, =, > population size, taken from a previous short run or hand-made; 6 steps; the boundary after initialisation is the baseline and "
                "every later boundary is judged against the population held at the previous one), all randomness from VERIF_SEED; evaluations = step() calls; "
                "a step is non-trivial when the merged population has both dominated and non-dominated members (elitist algorithms), when the merged population has "
                "at least two different (violation, objective) keys (GA/ES), or when the archive rejected or evicted something; distinct by algorithm, size and the full "
                "list of objective vectors")
    case_lits = [l for l, _, _, _ in lits]
    if case_lits:
        ctx.sample({"coq_case": case_lits[len(case_lits) // 2][:900]})
    bad = C.run_coq_cases(ctx, "steps", ["Base.Num", "Model.Dominance", "Model.Archive", "Model.Epsilon", "Model.Survival", "Harness.H09"],
                          "c09case", "c09_check", case_lits, shard=ctx.scale(40, 120), timeout=600)
    if bad is not None:
        detail = ""
        if bad:
            l, cfg, t, kind = lits[bad[0]]
            detail = "model and implementation differ on %d of %d cases; first: %s %s step %d (%s): %s" % (len(bad), len(lits), cfg["name"], cfg_label(cfg), t, kind, l[:700])
        ctx.obligation("correspondence:survival-and-archive-steps(%d cases)" % len(lits), "correspondence", not bad, detail)
        ctx.coverage["correspondence_cases"] = len(lits)
        ctx.coverage["correspondence_mismatches"] = len(bad)
        ctx.coverage["traces_validated_against_impl"] = len(lits) - len(bad)
        # search around disagreeing runs: the same configuration with neighbouring seeds and more steps, oracle only
        seen = set()
        for i in bad[:6]:
            _, cfg, t, kind = lits[i]
            ctx.sample({"model_impl_disagree": {"run": cfg, "step": t, "kind": kind}})
            key = (cfg["name"], cfg["seed"])
            if key in seen:
                continue
            seen.add(key)
            for dseed in range(1, ctx.scale(6, 20)):
                c2 = dict(cfg)
                c2["seed"] = cfg["seed"] + dseed
                run_one(ctx, c2, steps * 2, {}, [], want_cases=False)


def replay(ctx, data):
    rp = data.get("replay", {})
    if rp.get("kind") != "run":
        return run(ctx)
    cfg = rp["cfg"]
    XF.inexact = 0
    XF.diverged = 0
    obs = observe(cfg, rp.get("steps", 15))
    ctx.count(len(obs.steps))
    if obs.error:
        ctx.violation(data.get("key", "run-raised"), "replay: %s" % obs.error[-600:], rp)
        return
    for key, what, t in oracle_run(ctx, cfg, obs):
        if key == rp.get("key", key):
            ctx.violation(key, "replay: " + what, rp)
            return
