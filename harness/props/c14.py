"""C14 — bounded archives and populations keep size limits and consistent bookkeeping."""
import collections
import itertools
import math
import random
import time
from fractions import Fraction
from vlib import common as C
from vlib import plat

ID = "C14"
PROPS_FILE = "Props/C14.v"
COQ_TARGETS = ["Harness/H14.vo"]
ALLOWED_AXIOMS = []
META = {
    "level_text": "Machine-checked proof (Coq) about the literal model of AdaptiveGridArchive (add/remove/adapt_grid/find_index/find_densest/pick_from_densest, exact rational "
                  "arithmetic, Python exceptions as an explicit error result): for every capacity>=1, divisions>=1, number of objectives, directions, and every insertion history, "
                  "add never raises and keeps  size<=capacity, pairwise non-domination, every member inside the grid, and density[c] = number of members in cell c for EVERY cell; "
                  "dominated newcomer rejected with state unchanged; fitting newcomer appended while exactly the members it dominates leave; on overflow exactly one solution is dropped "
                  "and it lies in a cell of maximal occupancy; the pre-repair add is refuted on the recorded history.  Length lemmas for the slicing/truncation steps of the algorithms. "
                  "The model is tied to /repo on every run by operation-sequence correspondence (whole observable state after every operation, compared in Coq by vm_compute), by the "
                  "step-boundary sizes of real runs of 13 algorithms checked by a Coq-evaluated size predicate, and by an independent oracle on the real code incl. reachable-state exploration.",
    "level_note": "Trusted: Coq kernel + VM; harness (literal printer, shard runner, drivers/hooks); the hand-written model is tied to the code only on the sampled histories "
                  "(integer/half-integer lattices for which the driver verified beforehand that int(divisions*(v-min)/(max-min)) in binary64 equals the exact floor for every triple of "
                  "lattice values; inexact lattices are discarded and counted).  Float rounding inside find_index is NOT modelled: theorems are about exact arithmetic; arbitrary floats "
                  "are exercised by the oracle only.  Object identity is modelled by an explicit sid (+ structural field equality).  The per-algorithm population-size claims are "
                  "proved only as generic length lemmas (slice/truncate/GA formula); that each algorithm's step really is such a cut is checked by traces (implementation sizes accepted by "
                  "the Coq size predicate at every step), not proved from a model of each algorithm.  The exploration of reachable archive states (fixpoint on small lattices) is search, "
                  "not proof.  No axioms (all theorems closed under the global context).",
    "technique": "Coq proof of an inductive invariant over an executable model (exact Q) + operation-sequence correspondence (vm_compute) + trace validation of sizes + independent oracle/exploration",
}

INF = math.inf


# ----------------------------------------------------------------------------
# independent definitions (oracle side)
# ----------------------------------------------------------------------------
def spec_better(con, dirs, a, b):
    """English definition of 'a dominates b' (constraint-first Pareto), written independently of the model."""
    (oa, ca), (ob, cb) = a, b
    if con and ca != cb:
        return ca < cb
    xa = [-v if mx else v for v, mx in zip(oa, dirs)]
    xb = [-v if mx else v for v, mx in zip(ob, dirs)]
    return all(x <= y for x, y in zip(xa, xb)) and any(x < y for x, y in zip(xa, xb))


def geo_cell(objs, mn, mx, div):
    """Cell of a point in the grid [mn,mx] cut into div equal intervals per objective (upper boundary belongs to
    the last interval), exact rational arithmetic; -1 outside."""
    idx = 0
    for i, v in enumerate(objs):
        lo, hi = mn[i], mx[i]
        if v < lo or v > hi:
            return -1
        if hi > lo:
            t = math.floor(Fraction(div) * (Fraction(v) - Fraction(lo)) / (Fraction(hi) - Fraction(lo)))
        else:
            t = 0
        idx += min(t, div - 1) * div ** i
    return idx


_EXACT = {}


def lattice_exact(values, div):
    """True iff for every lo<hi, lo<=v<=hi of the lattice the float computation of find_index equals the exact floor."""
    key = (tuple(values), div)
    if key not in _EXACT:
        ok = True
        for lo in values:
            for hi in values:
                if not lo < hi:
                    continue
                for v in values:
                    if lo <= v <= hi:
                        f = int(div * ((v - lo) / (hi - lo)))
                        e = math.floor(Fraction(div) * (Fraction(v) - Fraction(lo)) / (Fraction(hi) - Fraction(lo)))
                        if f != e:
                            ok = False
        _EXACT[key] = ok
    return _EXACT[key]


# ----------------------------------------------------------------------------
# running operation sequences on the real archive, with the oracle
# ----------------------------------------------------------------------------
SINGLE_OPS = ("add", "rem", "append", "iadd_single")
LIST_OPS = ("extend_list", "extend_gen", "iadd_list", "iadd_gen")
ARCH_OPS = ("extend_arch", "iadd_arch")
# operand kinds of the archive-valued bulk operations: (class, shares the target's dominance instance?)
OPERANDS = [("archive", False), ("archive", True), ("grid", False), ("grid", True), ("eps", False)]


def op_sids(op):
    kind, payload = op
    if kind in SINGLE_OPS:
        return [payload]
    if kind in LIST_OPS:
        return list(payload)
    return list(payload["hist"])


class GridCase:
    """cfg = dict(cap, nobjs, div, dirs, con); points: sid -> (objs, cv); ops: list of (kind, payload):
         add / rem / append / iadd_single : payload = sid
         extend_list / extend_gen / iadd_list / iadd_gen : payload = [sid, ...]   (list or generator operand)
         extend_arch / iadd_arch : payload = {"type": archive|grid|eps, "share": bool, "hist": [sid...], "cap", "div", "eps"}
             (operand = another archive built by adding hist to it; share = it uses the target's dominance object)"""

    def __init__(self, cfg, points, ops, exact):
        self.cfg, self.points, self.ops, self.exact = cfg, points, ops, exact

    def to_json(self, upto=None):
        ops = self.ops if upto is None else self.ops[:upto + 1]
        used = {sid for op in ops for sid in op_sids(op)}
        return {"kind": "grid", "cfg": self.cfg, "exact": self.exact,
                "points": {str(s): [[repr(float(v)) for v in self.points[s][0]], repr(float(self.points[s][1]))] for s in sorted(used)},
                "ops": [[k, pl] for k, pl in ops]}

    @staticmethod
    def from_json(d):
        pts = {int(s): ([float(v) for v in o], float(cv)) for s, (o, cv) in d["points"].items()}
        return GridCase(d["cfg"], pts, [(k, pl) for k, pl in d["ops"]], bool(d.get("exact", False)))


def snapshot(arch):
    return {"ids": [id(s) for s in arch._contents], "min": list(arch.minimum), "max": list(arch.maximum), "dens": list(arch.density)}


def check_state(arch, cfg, exact, val):
    """Clauses of the property that speak about one state.  val(s) -> (objs, cv) of a member.  Returns [(key, msg)]."""
    out = []
    members = list(arch._contents)
    if len(members) > cfg["cap"]:
        out.append(("grid-size-exceeds-capacity", "archive holds %d solutions, capacity %d" % (len(members), cfg["cap"])))
    for x, y in itertools.permutations(members, 2):
        if spec_better(cfg["con"], cfg["dirs"], val(x), val(y)):
            out.append(("grid-members-not-mutually-nondominated", "member %r dominates member %r" % (val(x), val(y))))
            break
    ncell = cfg["div"] ** cfg["nobjs"]
    dens = list(arch.density)
    if len(dens) != ncell:
        out.append(("grid-density-table-wrong-length", "density has %d entries, grid has %d cells" % (len(dens), ncell)))
        return out
    own = [0] * ncell
    for m in members:
        i = arch.find_index(m)
        if i < 0 or i >= ncell:
            out.append(("grid-member-outside-grid", "find_index(member %r) = %r with bounds %r %r" % (val(m), i, arch.minimum, arch.maximum)))
            return out
        own[i] += 1
    if [float(d) for d in dens] != [float(c) for c in own]:
        out.append(("grid-density-differs-from-recount", "density=%r but members per cell (own find_index)=%r; members=%r bounds=%r..%r" % (
            dens, own, [val(m)[0] for m in members], arch.minimum, arch.maximum)))
    if exact and members:
        geo = [0] * ncell
        for m in members:
            g = geo_cell(val(m)[0], arch.minimum, arch.maximum, cfg["div"])
            if g < 0:
                out.append(("grid-member-outside-grid", "member %r outside bounds %r %r" % (val(m), arch.minimum, arch.maximum)))
                return out
            geo[g] += 1
        if [float(d) for d in dens] != [float(c) for c in geo]:
            out.append(("grid-density-differs-from-geometric-recount", "density=%r but members per geometric cell=%r; members=%r bounds=%r..%r div=%d" % (
                dens, geo, [val(m)[0] for m in members], arch.minimum, arch.maximum, cfg["div"])))
    return out


def hook_remove(arch, cfg, exact, val, calls):
    orig = arch.remove

    def hooked(solution):
        members = list(arch._contents)
        rec = {"sol": solution, "present": any(m is solution for m in members)}
        try:
            occ = collections.Counter(arch.find_index(m) for m in members)
            rec["cell"] = arch.find_index(solution) if solution is not None else None
            rec["occ"] = occ
            if exact and solution is not None:
                rec["gocc"] = collections.Counter(geo_cell(val(m)[0], arch.minimum, arch.maximum, cfg["div"]) for m in members)
                rec["gcell"] = geo_cell(val(solution)[0], arch.minimum, arch.maximum, cfg["div"])
        except Exception as e:  # noqa
            rec["err"] = repr(e)
        calls.append(rec)
        return orig(solution)
    arch.remove = hooked
    return orig


def oracle_add(arch, cfg, exact, val, s, before_members, before_snap, ret, calls):
    """Clauses about one add, evaluated on the real archive; independent of the model."""
    out = []
    con, dirs, cap = cfg["con"], cfg["dirs"], cfg["cap"]
    after = list(arch._contents)
    dominated = any(spec_better(con, dirs, val(m), val(s)) for m in before_members)
    if dominated:
        if ret is not False or [id(x) for x in after] != before_snap["ids"] or list(arch.minimum) != before_snap["min"] \
                or list(arch.maximum) != before_snap["max"] or list(arch.density) != before_snap["dens"]:
            out.append(("grid-dominated-newcomer-changed-archive", "newcomer %r is dominated by a member but add returned %r / state changed" % (val(s), ret)))
        return out
    kept = [m for m in before_members if not spec_better(con, dirs, val(s), val(m))]
    full = kept + [s]
    cnt_full = collections.Counter(id(x) for x in full)
    cnt_after = collections.Counter(id(x) for x in after)
    if len(full) <= cap:
        if cnt_after != cnt_full or ret is not True:
            out.append(("grid-fitting-newcomer-not-added-exactly", "non-dominated newcomer %r fits (%d <= %d): expected members %r, got %r, returned %r" % (
                val(s), len(full), cap, [val(x)[0] for x in full], [val(x)[0] for x in after], ret)))
        if [c for c in calls if c.get("present")]:
            out.append(("grid-fitting-newcomer-not-added-exactly", "a member was removed although the newcomer fits"))
        return out
    # overflow
    missing = cnt_full - cnt_after
    extra = cnt_after - cnt_full
    if sum(missing.values()) != 1 or extra:
        out.append(("grid-overflow-did-not-drop-exactly-one", "overflow: expected %r minus one, got %r" % ([val(x)[0] for x in full], [val(x)[0] for x in after])))
        return out
    dropped_id = next(iter(missing))
    real = [c for c in calls if c.get("present")]
    if len(real) == 1 and id(real[0]["sol"]) == dropped_id and "err" not in real[0]:
        rec = real[0]
        if rec["occ"][rec["cell"]] != max(rec["occ"].values()):
            out.append(("grid-overflow-dropped-not-from-densest-cell", "dropped %r lies in cell %r with %d members but the fullest cell has %d (occupancy %r)" % (
                val(rec["sol"])[0], rec["cell"], rec["occ"][rec["cell"]], max(rec["occ"].values()), dict(rec["occ"]))))
        elif exact and rec["gocc"][rec["gcell"]] != max(rec["gocc"].values()):
            out.append(("grid-overflow-dropped-not-from-densest-cell", "dropped %r lies in geometric cell %r with %d members but the fullest has %d" % (
                val(rec["sol"])[0], rec["gcell"], rec["gocc"][rec["gcell"]], max(rec["gocc"].values()))))
    elif exact:
        # the removal did not go through remove(): decide in the grid the decision is taken in
        dropped = next(x for x in full if id(x) == dropped_id)
        inside_old = all(lo <= v <= hi for v, lo, hi in zip(val(s)[0], before_snap["min"], before_snap["max"]))
        if inside_old and len(kept) == len(before_members):
            mn, mx = before_snap["min"], before_snap["max"]
        else:
            mn = [min(val(x)[0][i] for x in full) for i in range(cfg["nobjs"])]
            mx = [max(val(x)[0][i] for x in full) for i in range(cfg["nobjs"])]
        gocc = collections.Counter(geo_cell(val(x)[0], mn, mx, cfg["div"]) for x in full)
        if gocc[geo_cell(val(dropped)[0], mn, mx, cfg["div"])] != max(gocc.values()):
            out.append(("grid-overflow-dropped-not-from-densest-cell", "dropped %r not in a fullest cell (occupancy %r)" % (val(dropped)[0], dict(gocc))))
    return out


def run_grid_case(case, arch=None, objs_by_sid=None):
    """Executes the operations on a real AdaptiveGridArchive.  Returns (init_obs, [obs per op], violations, stats).
    violations: [(key, msg, op_index)]"""
    from platypus import AdaptiveGridArchive
    cfg = case.cfg
    problem = plat.mk_problem(cfg["nobjs"], cfg["dirs"], nconstrs=1 if cfg["con"] else 0)
    objects = {} if objs_by_sid is None else objs_by_sid
    sid_of = {}

    def obj(sid):
        if sid not in objects:
            o, cv = case.points[sid]
            objects[sid] = plat.mk_solution(problem, o, cv)
        sid_of[id(objects[sid])] = sid
        return objects[sid]

    def val(s):
        return ([float(v) for v in s.objectives[:]], float(s.constraint_violation))

    if arch is None:
        arch = AdaptiveGridArchive(cfg["cap"], cfg["nobjs"], cfg["div"])
    for s in arch._contents:
        if id(s) not in sid_of:
            sid_of[id(s)] = -1
    calls = []
    orig_remove = hook_remove(arch, cfg, case.exact, val, calls)
    viol = []
    stats = collections.Counter()

    def obs(ret):
        return {"ret": ret, "sids": [sid_of.get(id(s), -1) for s in arch._contents], "min": list(arch.minimum), "max": list(arch.maximum), "dens": list(arch.density)}

    for key, msg in check_state(arch, cfg, case.exact, val):
        viol.append((key, "initial state: " + msg, -1))
    init = obs(True)
    out = []
    def describe(kind, payload):
        if kind in SINGLE_OPS:
            return "%s(%r)" % (kind, val(obj(payload))[0])
        if kind in LIST_OPS:
            return "%s(%r)" % (kind, [val(obj(x))[0] for x in payload])
        return "%s(%s%s built from %r)" % (kind, payload["type"], " sharing the dominance object" if payload["share"] else "", [val(obj(x))[0] for x in payload["hist"]])

    for k, (kind, payload) in enumerate(case.ops):
        before_members = list(arch._contents)
        before = snapshot(arch)
        offered = None
        if kind in SINGLE_OPS:
            s = obj(payload)
            if kind in ("append", "iadd_single"):
                offered = [s]
        elif kind in LIST_OPS:
            offered = [obj(x) for x in payload]
        else:
            # another archive as the operand, built from a sub-history
            from platypus import Archive, EpsilonBoxArchive, ParetoDominance
            dom = arch._dominance if payload["share"] else ParetoDominance()
            if payload["type"] == "archive":
                operand = Archive(dom)
            elif payload["type"] == "grid":
                operand = AdaptiveGridArchive(payload["cap"], cfg["nobjs"], payload["div"], dom)
            else:
                operand = EpsilonBoxArchive([payload["eps"]] * cfg["nobjs"])
            for x in payload["hist"]:
                operand.add(obj(x))
            offered = list(operand)      # what the bulk operation will iterate over
        del calls[:]
        try:
            if kind == "add":
                ret = arch.add(s)
            elif kind == "rem":
                ret = orig_remove(s)
            else:
                ret = True
                if kind == "append":
                    arch.append(s)
                elif kind == "iadd_single":
                    r = arch.__iadd__(s)
                elif kind == "extend_list":
                    arch.extend(list(offered))
                elif kind == "extend_gen":
                    arch.extend(x for x in offered)
                elif kind == "iadd_list":
                    r = arch.__iadd__(list(offered))
                elif kind == "iadd_gen":
                    r = arch.__iadd__(x for x in offered)
                elif kind == "extend_arch":
                    arch.extend(operand)
                elif kind == "iadd_arch":
                    r = arch.__iadd__(operand)
                else:
                    raise ValueError(kind)
                if kind.startswith("iadd") and r is not arch:
                    viol.append(("grid-iadd-did-not-return-self", "%s returned %r" % (kind, r), k))
        except Exception as e:  # the model says add/remove never raise under the invariant
            viol.append(("grid-operation-raised", "%s raised %r in state members=%r bounds=%r..%r density=%r" % (
                describe(kind, payload), e, [val(m)[0] for m in before_members], before["min"], before["max"], before["dens"]), k))
            out.append(None)
            break
        stats["op_" + kind] += 1
        if not before_members and kind not in ("add", "rem"):
            stats["bulk_as_first_operation_on_empty_archive"] += 1
        if kind == "add":
            present_calls = [c for c in calls if c.get("present")]
            for key, msg in oracle_add(arch, cfg, case.exact, val, s, before_members, before, ret, list(calls)):
                viol.append((key, msg, k))
            if present_calls:
                stats["add_overflow_candidate_dropped" if present_calls[0]["sol"] is s else "add_overflow_member_dropped"] += 1
                stats["add_overflow"] += 1
            elif ret is False:
                stats["add_rejected_dominated"] += 1
            else:
                stats["add_kept"] += 1
            if ret is not False or present_calls:
                if any(spec_better(cfg["con"], cfg["dirs"], val(s), val(m)) for m in before_members):
                    stats["add_evicted_dominated"] += 1
        elif kind == "rem":
            was = any(m is s for m in before_members)
            exp = list(before_members)
            if was:
                del exp[[id(m) for m in exp].index(id(s))]
            if ret is not was or [id(x) for x in arch._contents] != [id(x) for x in exp]:
                viol.append(("grid-remove-wrong-members", "remove(%r): member=%r returned %r" % (val(s), was, ret), k))
            stats["remove_member" if was else "remove_nonmember"] += 1
        else:
            # bulk insertion: every member afterwards was a member before or was offered; if nothing offered was
            # acceptable nothing changes.  (what exactly is kept is decided by the per-add clauses, which the
            # model correspondence replays as a fold of add)
            allowed = {id(x) for x in before_members} | {id(x) for x in offered}
            stray = [val(m)[0] for m in arch._contents if id(m) not in allowed]
            if stray:
                viol.append(("grid-bulk-insert-foreign-members", "%s: members %r were neither members before nor offered" % (describe(kind, payload), stray), k))
            if len(offered) + len(before_members) > cfg["cap"]:
                stats["bulk_beyond_capacity"] += 1
        for key, msg in check_state(arch, cfg, case.exact, val):
            viol.append((key, "after op %d %s: %s" % (k, describe(kind, payload), msg), k))
        o = obs(bool(ret))
        if offered is not None:
            o["bulk"] = [sid_of[id(x)] for x in offered]
        out.append(o)
        if any(v[2] == k for v in viol):
            break
    arch.remove = orig_remove
    return init, out, viol, stats


# ----------------------------------------------------------------------------
# generators
# ----------------------------------------------------------------------------
def gen_lattice(rng, div, disc):
    for _ in range(20):
        m = rng.choice([1, 2, 3, 3, 4, 4, 5, 5, 6, 6, 6, 8])
        scale = rng.choice([1.0, 1.0, 1.0, 0.5, 2.0, 0.25])
        off = rng.choice([0, 0, -1, -3, 5, 100])
        values = [scale * (k + off) for k in range(m + 1)]
        if lattice_exact(values, div):
            return values
        disc[0] += 1
    return [0.0, 1.0]


def gen_grid_case(rng, disc, maxlen=40):
    cap = rng.randrange(1, 7)
    div = rng.randrange(1, 5)
    nobjs = rng.choice([1, 2, 2, 2, 2, 3, 3, 3])
    dirs = [rng.random() < 0.3 for _ in range(nobjs)]
    con = rng.random() < 0.2
    values = gen_lattice(rng, div, disc)
    cfg = {"cap": cap, "nobjs": nobjs, "div": div, "dirs": dirs, "con": con}
    n = rng.randrange(0, maxlen + 1)
    points, ops, offered = {}, [], []
    antidiag = rng.random() < 0.75         # favour mutually non-dominated points so that the archive fills up
    top = len(values) - 1
    cluster = rng.random() < 0.35          # crowd one end of the front so that some cell holds several members

    def newpoint():
        if antidiag and nobjs >= 2 and rng.random() < 0.7:
            idx = [rng.randrange(0, min(top, 2) + 1) if cluster and rng.random() < 0.8 else rng.randrange(0, top + 1) for _ in range(nobjs - 1)]
            last = max(0, min(top, top * (nobjs - 1) - sum(idx) + rng.choice([0, 0, 0, -1, 1])))
            idx.append(last)
            o = [values[top - i] if dirs[j] else values[i] for j, i in enumerate(idx)]
        else:
            o = [rng.choice(values) for _ in range(nobjs)]
        cv = rng.choice([0.0, 0.0, 0.0, 0.5, 1.0]) if con else 0.0
        return (o, cv)

    def fresh(cnt):
        sids = []
        for _ in range(cnt):
            sid = len(points)
            points[sid] = newpoint()
            sids.append(sid)
            offered.append(sid)
        return sids

    def bulk_op(big):
        kind = rng.choice(["append", "iadd_single", "extend_list", "extend_gen", "iadd_list", "iadd_gen", "extend_arch", "iadd_arch", "iadd_arch", "iadd_arch"])
        if kind in SINGLE_OPS:
            return (kind, fresh(1)[0] if (rng.random() < 0.7 or not offered) else rng.choice(offered))
        cnt = rng.randrange(cap + 1, 2 * cap + 6) if big else rng.randrange(0, 7)
        sids = fresh(cnt)
        if offered and rng.random() < 0.3:
            sids.insert(rng.randrange(len(sids) + 1), rng.choice(offered))   # an object offered before
        if kind in LIST_OPS:
            return (kind, sids)
        typ, share = rng.choice(OPERANDS)
        return (kind, {"type": typ, "share": share, "hist": sids, "cap": rng.randrange(1, 16), "div": rng.randrange(1, 4),
                       "eps": rng.choice([0.25, 0.5, 1.0, 2.0])})

    first_bulk = rng.random() < 0.3         # a bulk entry point as the FIRST operation on the empty archive
    for step in range(n):
        r = rng.random()
        if step == 0 and first_bulk:
            ops.append(bulk_op(rng.random() < 0.7))
        elif r < 0.10:
            ops.append(bulk_op(rng.random() < 0.3))
        elif r < 0.62 or not offered:
            sid = len(points)
            points[sid] = newpoint()
            ops.append(("add", sid))
            offered.append(sid)
        elif r < 0.77:                      # twin: new object, same objectives as an earlier one
            sid = len(points)
            points[sid] = (list(points[rng.choice(offered)][0]), points[rng.choice(offered)][1])
            ops.append(("add", sid))
            offered.append(sid)
        elif r < 0.87:                      # the same object offered again
            ops.append(("add", rng.choice(offered)))
        else:                               # public remove of some earlier object (member or not)
            ops.append(("rem", rng.choice(offered)))
    return GridCase(cfg, points, ops, True)


def corpus_cases():
    """Fixed histories that always run first (DESIGN.md section 7 row 2 and close relatives)."""
    out = []
    pts = [(0, 6), (3, 4), (2, 0), (3, 4), (4, 5), (1, 0)]
    cfg = {"cap": 4, "nobjs": 2, "div": 2, "dirs": [False, False], "con": False}
    out.append(GridCase(cfg, {i: ([float(a), float(b)], 0.0) for i, (a, b) in enumerate(pts)}, [("add", i) for i in range(len(pts))], True))
    # overflow with the candidate in the fullest cell / elsewhere; remove of a bound-defining member
    cfg2 = {"cap": 3, "nobjs": 2, "div": 2, "dirs": [False, False], "con": False}
    pts2 = [(0, 8), (8, 0), (1, 6), (2, 5), (7, 1), (3, 3), (0, 8), (4, 2)]
    out.append(GridCase(cfg2, {i: ([float(a), float(b)], 0.0) for i, (a, b) in enumerate(pts2)},
                        [("add", i) for i in range(len(pts2))] + [("rem", 1), ("add", 1), ("add", 1), ("rem", 0)], True))
    cfg3 = {"cap": 2, "nobjs": 1, "div": 3, "dirs": [True], "con": False}
    out.append(GridCase(cfg3, {0: ([1.0], 0.0), 1: ([1.0], 0.0), 2: ([1.0], 0.0), 3: ([2.0], 0.0), 4: ([0.0], 0.0)},
                        [("add", 0), ("add", 1), ("add", 2), ("add", 0), ("add", 4), ("add", 3)], True))
    # every inserting entry point as the FIRST operation on an empty archive, offered more mutually non-dominated
    # points than the capacity, then once more on the filled archive
    front = [(0, 12), (1, 10), (2, 9), (3, 8), (4, 6), (5, 5), (6, 4), (8, 3), (9, 2), (10, 1), (12, 0), (2, 9), (11, 11)]
    fpts = {i: ([float(a), float(b)], 0.0) for i, (a, b) in enumerate(front)}
    cfg4 = {"cap": 4, "nobjs": 2, "div": 2, "dirs": [False, False], "con": False}
    ids = list(range(len(front)))
    bulk = [("extend_list", ids), ("extend_gen", ids), ("iadd_list", ids), ("iadd_gen", ids)]
    for typ, share in OPERANDS:
        for kind in ARCH_OPS:
            bulk.append((kind, {"type": typ, "share": share, "hist": ids, "cap": 20, "div": 2, "eps": 0.5}))
    for op in bulk:
        out.append(GridCase(cfg4, fpts, [op, op, ("add", 5)], True))
    out.append(GridCase(cfg4, fpts, [("append", 0), ("iadd_single", 1), ("append", 0), ("iadd_single", 11)] + [("append", i) for i in range(2, 9)], True))
    out.append(GridCase(cfg4, fpts, [("iadd_single", 3), ("append", 4), ("iadd_arch", {"type": "grid", "share": True, "hist": ids, "cap": 20, "div": 2, "eps": 0.5})], True))
    for c in out:
        assert lattice_exact(sorted({v for o, _ in c.points.values() for v in o}), c.cfg["div"])
    return out


# ----------------------------------------------------------------------------
# Coq literals
# ----------------------------------------------------------------------------
def q_pair(x):
    m, e = C.float_parts(x)
    return "(%s,%s)" % (C.z_lit(m), C.z_lit(e))


def gs_lit(sid, pt):
    return "(gs %d %s %s)" % (sid, C.list_lit([q_pair(v) for v in pt[0]]), C.xq_lit(float(pt[1])))


def obs_lit(o):
    dens = []
    for d in o["dens"]:
        if d != int(d):
            raise ValueError("non-integral density %r" % (d,))
        dens.append(C.z_lit(int(d)))
    return "(GO %s %s %s %s %s)" % (C.bool_lit(o["ret"]), C.list_lit([C.z_lit(s) for s in o["sids"]]),
                                    C.list_lit([C.xq_lit(float(v)) for v in o["min"]]), C.list_lit([C.xq_lit(float(v)) for v in o["max"]]), C.list_lit(dens))


def case_lit(case, init, obs):
    cfg = case.cfg
    ops = []
    for (kind, payload), o in zip(case.ops, obs):
        if o is None:
            break
        if kind in ("add", "rem"):
            ops.append("(%s %s, %s)" % ("OAdd" if kind == "add" else "ORem", gs_lit(payload, case.points[payload]), obs_lit(o)))
        else:       # a bulk entry point = fold of add over what it iterated
            ops.append("(OBulk %s, %s)" % (C.list_lit([gs_lit(x, case.points[x]) for x in o["bulk"]]), obs_lit(o)))
    return "GK (gc %d %d %d %s %s) %s %s" % (cfg["cap"], cfg["nobjs"], cfg["div"], C.bool_lit(cfg["con"]), C.list_lit([C.bool_lit(d) for d in cfg["dirs"]]),
                                             obs_lit(init), C.list_lit(ops))


# ----------------------------------------------------------------------------
# exploration of reachable states (search only)
# ----------------------------------------------------------------------------
def explore(ctx, cfg, values, budget_s, state_cap):
    """BFS over archive states reachable by adding fresh solutions at lattice points; oracle on every transition."""
    from platypus import AdaptiveGridArchive
    problem = plat.mk_problem(cfg["nobjs"], cfg["dirs"])
    pts = [list(p) for p in itertools.product(values, repeat=cfg["nobjs"])]
    t0 = time.time()

    def key(arch):
        return (tuple(tuple(s.objectives[:]) for s in arch._contents), tuple(arch.minimum), tuple(arch.maximum), tuple(arch.density))

    def build(k):
        a = AdaptiveGridArchive(cfg["cap"], cfg["nobjs"], cfg["div"])
        a._contents = [plat.mk_solution(problem, list(o)) for o in k[0]]
        a.minimum, a.maximum, a.density = list(k[1]), list(k[2]), list(k[3])
        return a

    start = key(AdaptiveGridArchive(cfg["cap"], cfg["nobjs"], cfg["div"]))
    seen = {start: None}           # state -> (parent state, point)
    todo = collections.deque([start])
    trans = 0
    complete = True
    while todo:
        if time.time() - t0 > budget_s or len(seen) > state_cap:
            complete = False
            break
        st = todo.popleft()
        for p in pts:
            arch = build(st)
            case = GridCase(cfg, {0: (p, 0.0)}, [("add", 0)], True)
            _, _, viol, _ = run_grid_case(case, arch=arch)
            trans += 1
            ctx.count()
            if viol:
                # reconstruct the history that leads here
                hist = [p]
                cur = st
                while seen[cur] is not None:
                    cur, q = seen[cur]
                    hist.append(q)
                hist.reverse()
                full = GridCase(cfg, {i: (list(o), 0.0) for i, o in enumerate(hist)}, [("add", i) for i in range(len(hist))], True)
                for key_, msg, _k in viol:
                    ctx.violation(key_, "reachable state exploration: " + msg, full.to_json())
                return len(seen), trans, False
            k2 = key(arch)
            if k2 not in seen:
                seen[k2] = (st, p)
                todo.append(k2)
    return len(seen), trans, complete


# ----------------------------------------------------------------------------
# algorithm traces (sizes at every step boundary)
# ----------------------------------------------------------------------------
def prob1():
    from platypus import Problem, Real
    p = Problem(2, 1)
    p.types[:] = Real(-1, 1)
    p.function = lambda x: [x[0] ** 2 + x[1] ** 2]
    return p


def prob2():
    from platypus import Problem, Real
    p = Problem(3, 2)
    p.types[:] = Real(0, 1)

    def f(x):
        g = 1 + x[1] + x[2]
        return [x[0], g * (1 - math.sqrt(x[0] / g))]
    p.function = f
    return p


def prob1p():
    """single objective with plateaus: many distinct decision vectors share one objective value"""
    from platypus import Problem, Real
    p = Problem(2, 1)
    p.types[:] = Real(-1, 1)
    p.function = lambda x: [math.floor(3 * abs(x[0])) + math.floor(3 * abs(x[1]))]
    return p


def prob2p():
    """two objectives snapped to a coarse lattice: objective-space duplicates and ties in every front"""
    from platypus import Problem, Real
    p = Problem(3, 2)
    p.types[:] = Real(0, 1)

    def f(x):
        a = math.floor(x[0] * 6.0) / 6.0
        g = 1 + math.floor(3 * x[1]) / 3.0
        return [a, g * (1 - math.sqrt(a / g))]
    p.function = f
    return p


def prob3p():
    """three objectives (DTLZ2-like sphere) on snapped variables"""
    from platypus import Problem, Real
    p = Problem(4, 3)
    p.types[:] = Real(0, 1)

    def f(x):
        a, b, g = math.floor(4 * x[0]) / 4.0, math.floor(4 * x[1]) / 4.0, 1 + math.floor(2 * x[2]) / 2.0
        return [g * math.cos(a * math.pi / 2) * math.cos(b * math.pi / 2), g * math.cos(a * math.pi / 2) * math.sin(b * math.pi / 2), g * math.sin(a * math.pi / 2)]
    p.function = f
    return p


def make_algorithm(spec):
    import platypus as P
    from platypus.problems import DTLZ2
    a, n, m = spec["alg"], spec["size"], spec["aux"]
    if spec.get("plateau"):
        prob1, prob2 = prob1p, prob2p
    else:
        prob1, prob2 = globals()["prob1"], globals()["prob2"]
    if a == "GA":
        return P.GeneticAlgorithm(prob1(), population_size=n, offspring_size=m)
    if a == "ES":
        return P.EvolutionaryStrategy(prob1(), population_size=n, offspring_size=m)
    if a == "NSGAII":
        return P.NSGAII(prob2(), population_size=n)
    if a == "NSGAIII":
        return P.NSGAIII(prob3p() if spec.get("plateau") else DTLZ2(3), divisions_outer=m)
    if a == "SPEA2":
        return P.SPEA2(prob2(), population_size=n)
    if a == "GDE3":
        return P.GDE3(prob2(), population_size=n)
    if a == "IBEA":
        return P.IBEA(prob2(), population_size=n)
    if a == "EpsMOEA":
        return P.EpsMOEA(prob2(), epsilons=[0.05], population_size=n)
    if a == "MOEAD":
        return P.MOEAD(prob2(), neighborhood_size=min(3, n), population_size=n)
    if a == "OMOPSO":
        return P.OMOPSO(prob2(), epsilons=[0.05], swarm_size=n, leader_size=m)
    if a == "SMPSO":
        return P.SMPSO(prob2(), swarm_size=n, leader_size=m)
    if a == "PAES":
        return P.PAES(prob2(), divisions=spec["div"], capacity=m)
    if a == "PESA2":
        return P.PESA2(prob2(), population_size=n, divisions=spec["div"], capacity=m)
    raise ValueError(a)


KIND = {"GA": 1, "OMOPSO": 2, "SMPSO": 2, "PAES": 3, "PESA2": 3}


def trace_specs(ctx):
    rng = ctx.rng
    specs = []
    for n, m in [(5, 5), (7, 3), (4, 9), (1, 1), (6, 5), (3, 2), (2, 7)]:
        specs.append({"alg": "GA", "size": n, "aux": m})
    for n, m in [(5, 3), (4, 4), (3, 8), (1, 1), (7, 2)]:
        specs.append({"alg": "ES", "size": n, "aux": m})
    for a in ("NSGAII", "SPEA2", "IBEA", "EpsMOEA", "MOEAD"):
        for n in (4, 7, 10):
            specs.append({"alg": a, "size": n, "aux": 0})
    for n in (4, 5, 9):
        specs.append({"alg": "GDE3", "size": n, "aux": 0})
    for d in (2, 3, 4):
        specs.append({"alg": "NSGAIII", "size": 0, "aux": d})
    for a in ("OMOPSO", "SMPSO"):
        for n, m in [(9, 3), (6, 2), (5, 1), (4, 8)]:
            specs.append({"alg": a, "size": n, "aux": m})
    for cap, div in [(4, 3), (2, 2), (1, 1), (6, 4), (3, 2)]:
        specs.append({"alg": "PAES", "size": 1, "aux": cap, "div": div})
        specs.append({"alg": "PESA2", "size": 5, "aux": cap, "div": div})
    if ctx.thorough:
        extra = []
        for _ in range(200):
            a = rng.choice(["GA", "ES", "NSGAII", "SPEA2", "IBEA", "EpsMOEA", "MOEAD", "GDE3", "OMOPSO", "SMPSO", "PAES", "PESA2"])
            n = rng.randrange(4 if a in ("GDE3",) else (2 if a in ("NSGAII", "SPEA2", "IBEA", "EpsMOEA", "MOEAD") else 1), 14)
            extra.append({"alg": a, "size": n, "aux": rng.randrange(1, 12), "div": rng.randrange(1, 5), "random_config": True})
        specs += extra
    # every configuration also on a problem with plateaus (duplicate objective vectors stress the truncation ties)
    specs += [dict(s, plateau=True) for s in specs]
    for s in specs:
        s["seed"] = rng.randrange(1 << 30)
        s["steps"] = (60 if s["alg"] == "PAES" else 14) if not ctx.thorough else (150 if s["alg"] == "PAES" else 25)
    return specs


def run_trace(spec):
    """Runs one real algorithm; returns (kind, size, aux, [(p, q)], violations[(key, msg)])."""
    st = random.getstate()
    try:
        random.seed(spec["seed"])
        alg = make_algorithm(spec)
        name = spec["alg"]
        kind = KIND.get(name, 0)
        obs, viol = [], []
        steps = [0]

        def grid_val(s):
            return ([float(v) for v in s.objectives[:]], float(s.constraint_violation))

        def cb(al):
            steps[0] += 1
            if kind == 2:
                p, q = len(al.particles), len(al.leaders)
                if p != al.swarm_size:
                    viol.append(("size-%s-particles" % name, "step %d: %d particles, swarm_size %d" % (steps[0], p, al.swarm_size)))
                if q > al.leader_size:
                    viol.append(("size-%s-leaders-exceed-leader_size" % name, "step %d: %d leaders, leader_size %d" % (steps[0], q, al.leader_size)))
            elif kind == 3:
                p, q = len(al.population), len(al.archive)
                if q > al.archive.capacity:
                    viol.append(("size-%s-archive-exceeds-capacity" % name, "step %d: archive %d, capacity %d" % (steps[0], q, al.archive.capacity)))
                cfg = {"cap": al.archive.capacity, "nobjs": al.archive.nobjs, "div": al.archive.divisions, "dirs": [False] * al.archive.nobjs, "con": False}
                for key, msg in check_state(al.archive, cfg, False, grid_val):
                    viol.append((key, "%s step %d: %s" % (name, steps[0], msg)))
            else:
                p, q = len(al.population), 0
                n = al.population_size
                if p > n:
                    viol.append(("size-%s-population-exceeds-population_size" % name, "step %d: population %d, population_size %d" % (steps[0], p, n)))
                elif p != n and not (name == "GA" and spec["aux"] < spec["size"]):
                    viol.append(("size-%s-population-below-population_size" % name, "step %d: population %d, population_size %d" % (steps[0], p, n)))
            obs.append((p, q))

        try:
            alg.run(lambda al: steps[0] >= spec["steps"], callback=cb)
        except Exception:
            if not viol:          # a crash with no size clause violated before it: not decidable here
                raise
            return kind, 0, 0, obs, viol
        if kind == 2:
            size, aux = alg.swarm_size, alg.leader_size
        elif kind == 3:
            size, aux = alg.population_size, alg.archive.capacity
        else:
            size, aux = alg.population_size, spec["aux"]
            if name not in ("NSGAIII",) and size != spec["size"]:
                viol.append(("size-%s-configured-size-changed" % name, "population_size is %d, configured %d" % (size, spec["size"])))
        return kind, size, aux, obs, viol
    finally:
        random.setstate(st)


# ----------------------------------------------------------------------------
# the check
# ----------------------------------------------------------------------------
def run(ctx):
    rng = ctx.rng
    disc = [0]
    cases = corpus_cases()
    ncases = ctx.scale(700, 12000)
    for _ in range(ncases):
        cases.append(gen_grid_case(rng, disc))
    lits = []
    stats = collections.Counter()
    dist = {"capacity": collections.Counter(), "divisions": collections.Counter(), "nobjs": collections.Counter(), "length": collections.Counter()}
    nviol = 0
    for ci, case in enumerate(cases):
        init, obs, viol, st = run_grid_case(case)
        ctx.count()
        stats.update(st)
        cfg = case.cfg
        dist["capacity"][cfg["cap"]] += 1
        dist["divisions"][cfg["div"]] += 1
        dist["nobjs"][cfg["nobjs"]] += 1
        dist["length"][10 * (len(case.ops) // 10)] += 1
        if st["add_overflow"] or st["add_evicted_dominated"] or st["remove_member"] or st["bulk_beyond_capacity"]:
            ctx.mark(repr((sorted(cfg.items()), case.ops, sorted(case.points.items()))))
        for key, msg, k in viol:
            nviol += 1
            ctx.violation(key, msg, case.to_json(k if k >= 0 else 0))
        try:
            lits.append(case_lit(case, init, obs))
        except ValueError as e:
            ctx.violation("grid-density-not-integral", str(e), case.to_json())
        if ci in (0, len(cases) // 2):
            ctx.sample({"cfg": cfg, "ops": case.ops[:12], "points": {k: v for k, v in list(case.points.items())[:8]},
                        "final": obs[-1] if obs and obs[-1] else init})
    ctx.sample({"coq_case": lits[0][:900]})
    bad = C.run_coq_cases(ctx, "grid", ["Base.Num", "Model.Dominance", "Model.GridArchive", "Harness.H14"], "gcase", "h14_grid_check", lits, shard=60)
    if bad is not None:
        ctx.obligation("correspondence:grid-archive-operation-sequences(%d histories, state compared after every op)" % len(lits), "correspondence", not bad,
                       "model and implementation differ on histories %r; first: %s" % (bad[:10], lits[bad[0]][:1500] if bad else ""))
        ctx.coverage["correspondence_mismatches"] = len(bad)
        for i in bad[:5]:
            ctx.sample({"model_impl_disagree": cases[i].to_json()}, limit=12)
            # search around the disagreeing history: prefixes and single-op deletions, through the oracle
            base = cases[i]
            for j in range(len(base.ops)):
                near = GridCase(base.cfg, base.points, base.ops[:j] + base.ops[j + 1:], base.exact)
                _, _, viol, _ = run_grid_case(near)
                ctx.count()
                for key, msg, k in viol:
                    ctx.violation(key, msg, near.to_json(k if k >= 0 else 0))
    ctx.coverage["grid_histories"] = len(cases)
    ctx.coverage["grid_operations"] = dict(stats)
    ctx.coverage["grid_input_distribution"] = {k: dict(sorted(v.items())) for k, v in dist.items()}
    ctx.coverage["lattices_discarded_inexact"] = disc[0]
    ctx.coverage["lattices_verified_exact"] = sum(1 for v in _EXACT.values() if v)

    # arbitrary floats: oracle only (the exact model does not apply)
    nfl = ctx.scale(250, 5000)
    for _ in range(nfl):
        c = gen_grid_case(rng, disc, maxlen=30)
        pts = {}
        for sid, (o, cv) in c.points.items():
            pts[sid] = ([rng.choice([rng.random(), rng.uniform(-5, 5), round(rng.random(), 1), 0.1 * rng.randrange(0, 11)]) for _ in o], cv)
        fc = GridCase(c.cfg, pts, c.ops, False)
        _, _, viol, _ = run_grid_case(fc)
        ctx.count()
        for key, msg, k in viol:
            ctx.violation(key, msg, fc.to_json(k if k >= 0 else 0))
    ctx.coverage["float_histories_oracle_only"] = nfl

    # reachable states, to a fixpoint where the budget allows (search only)
    expl = []
    if ctx.thorough:
        plans = [(2, [0.0, 1.0, 2.0, 3.0], c, d) for c in (1, 2, 3, 4) for d in (1, 2, 3)] + [(2, [0.0, 1.0, 2.0, 3.0], 5, 2), (2, [0.0, 1.0, 2.0, 3.0], 5, 4), (2, [0.0, 1.0, 2.0, 3.0], 6, 2)] \
            + [(3, [0.0, 1.0, 2.0], c, d) for c in (2, 3) for d in (2, 3)] + [(3, [0.0, 1.0, 2.0], 4, 2)]
        budget, cap_states = 90.0, 400000
    else:
        plans = [(2, [0.0, 1.0, 2.0], c, d) for c in (1, 2, 3) for d in (2, 3)] + [(2, [0.0, 1.0, 2.0, 3.0], 2, 2)]
        budget, cap_states = 4.0, 20000
    for nobjs, values, cap, div in plans:
        if not lattice_exact(values, div):
            continue
        cfg = {"cap": cap, "nobjs": nobjs, "div": div, "dirs": [False] * nobjs, "con": False}
        ns, nt, complete = explore(ctx, cfg, values, budget, cap_states)
        expl.append({"lattice": "{0..%d}^%d" % (len(values) - 1, nobjs), "capacity": cap, "divisions": div, "states": ns, "transitions": nt, "fixpoint_reached": complete})
        if ns > 3:
            ctx.mark("explore-%d-%d-%d-%d" % (nobjs, len(values), cap, div))
    ctx.coverage["reachable_state_exploration"] = expl
    ctx.coverage["states"] = sum(e["states"] for e in expl)
    ctx.coverage["transitions"] = sum(e["transitions"] for e in expl)

    # algorithm traces
    zl = []
    tdist = collections.Counter()
    specs = trace_specs(ctx)
    rejected = []
    for spec in specs:
        try:
            kind, size, aux, obs, viol = run_trace(spec)
        except Exception as e:
            if spec.get("random_config"):      # e.g. a size the algorithm's operators reject: not a C14 matter
                rejected.append("%s: %r" % (spec["alg"], e))
            else:
                ctx.obligation("trace-run:%s" % spec["alg"], "harness", False, "%r on %r" % (e, spec))
            continue
        ctx.count()
        tdist[spec["alg"]] += 1
        ctx.mark("trace-%s-%d-%d-%s" % (spec["alg"], spec["size"], spec["aux"], spec.get("plateau", False)))
        seen = set()
        for key, msg in viol:
            if key not in seen:
                seen.add(key)
                ctx.violation(key, "%s(size=%d, aux=%d, seed=%d): %s" % (spec["alg"], spec["size"], spec["aux"], spec["seed"], msg), {"kind": "trace", "spec": spec})
        zl.append("ZK %d %d %d %s" % (kind, size, aux, C.list_lit(["(%d,%d)" % o for o in obs])))
    ctx.sample({"trace": specs[1], "coq_case": zl[1] if len(zl) > 1 else ""}, limit=8)
    badz = C.run_coq_cases(ctx, "sizes", ["Base.Num", "Model.GridArchive", "Harness.H14"], "zcase", "h14_size_check", zl)
    if badz is not None:
        ctx.obligation("correspondence:step-boundary-sizes(%d runs of %d algorithms accepted by the size predicate)" % (len(zl), len(tdist)), "correspondence", not badz,
                       "logged sizes rejected for runs %r; first: %s" % (badz[:10], zl[badz[0]] if badz else ""))
    ctx.coverage["traces_validated_against_impl"] = len(zl)
    ctx.coverage["trace_runs_per_algorithm"] = dict(tdist)
    ctx.coverage["trace_rejected_random_configs"] = len(rejected)
    ctx.coverage["trace_rejected_random_configs_sample"] = rejected[:5]
    ctx.coverage["correspondence_cases"] = len(lits) + len(zl)
    ctx.rule = ("grid: fixed histories (section 7 history; every inserting entry point - append, extend(list/generator/Archive/AdaptiveGridArchive/EpsilonBoxArchive), += list/generator/"
                "single/Archive/AdaptiveGridArchive/EpsilonBoxArchive with and without a shared dominance object - as first operation on an empty archive) + random operation sequences "
                "(length 0-40; add new / add twin / re-add same object / public remove / the bulk entry points, 30% of histories start with one) on integer and dyadic lattices "
                "verified exact for find_index, capacities 1-6, divisions 1-4, 1-3 objectives, random directions, 20% constrained; non-trivial = history with an overflow, an eviction "
                "of dominated members, a removal of a member or a bulk insertion beyond the capacity; distinct by full input.  + float histories (oracle only) + exploration of reachable states + one trace per "
                "(algorithm, sizes) configuration, each counted once")
    ctx.assumptions += [
        "exact rational arithmetic in find_index (float rounding not modelled; correspondence restricted to lattices verified exact)",
        "objective vectors have nobjs finite entries, violations are >= 0 (NaN/inf objectives are outside the property)",
        "a solution object is not mutated while it is in the archive",
    ]


def replay(ctx, data):
    rp = data.get("replay", {})
    if rp.get("kind") == "grid":
        case = GridCase.from_json(rp)
        _, _, viol, _ = run_grid_case(case)
        ctx.count()
        for key, msg, k in viol:
            ctx.violation(key, "replay: " + msg, case.to_json(k if k >= 0 else 0))
    elif rp.get("kind") == "trace":
        _, _, _, _, viol = run_trace(rp["spec"])
        ctx.count()
        for key, msg in viol[:3]:
            ctx.violation(key, "replay: " + msg, rp)
    else:
        run(ctx)
