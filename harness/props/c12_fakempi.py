"""A simulated mpi4py for driving the REAL platypus.mpipool.MPIPool under an explicit schedule.

One Python thread per MPI rank; in-flight messages are kept per ordered pair (src, dst) in send
order.  Exactly one rank thread runs at any time: a rank runs until its next *scheduling point*,
parks there, and the controller (World.run, in the caller's thread) picks — through the `choose`
callback, i.e. the schedule — which parked operation completes next and, for a wildcard receive,
from which source.  Matching follows MPI's non-overtaking rule: on one (src, dst) pair a receive
gets the FIRST message it matches.  Sends are buffered (complete locally, standard-mode MPI).

Scheduling points: every recv; sends too unless eager_sends=True (then a send is executed at once,
which loses no receive order: a send never blocks and observes nothing).

Every communication event is appended to World.trace in the order it takes effect:
  ("F", w)        master isend(function wrapper) to worker index w (= rank-1)
  ("S", w, tag)   master isend(task, tag) to worker w
  ("C", w)        master isend(close message) to worker w
  ("w", w, k)     worker w's recv returned: k=None a function wrapper, k=tag a task, k="close"
  ("r", w, tag)   worker w sent its answer with tag
  ("m", w, tag)   master's recv returned the message (worker w, tag)
  ("R",)          (appended by the driver) map returned
Payloads are pickled on send and unpickled on receive, like mpi4py's lowercase API does, so that
the receiver gets a COPY.
"""
import pickle
import sys
import threading
import types
from collections import deque

ANY_SOURCE = -1
ANY_TAG = -1


class Abort(BaseException):
    """raised inside rank threads to unwind them when the run is abandoned"""


class Deadlock(Exception):
    pass


class Status:
    def __init__(self):
        self.source = None
        self.tag = None

    def Get_source(self):
        return self.source

    def Get_tag(self):
        return self.tag


class Request:
    def wait(self, status=None):
        return None

    Wait = wait

    @staticmethod
    def waitall(requests, statuses=None):
        return [None for _ in requests]

    Waitall = waitall


class World:
    def __init__(self, nranks, choose, eager_sends=True):
        self.nranks = nranks
        self.choose = choose              # choose(options) -> index; options = sorted list of (rank, kind, src)
        self.eager_sends = eager_sends
        self.chan = {(s, d): deque() for s in range(nranks) for d in range(nranks)}
        self.trace = []
        self.cv = threading.Condition()
        self.state = {r: "new" for r in range(nranks)}
        self.pending = {}
        self.grant = {}
        self.aborting = False
        self.errors = []
        self.steps = 0
        self.cut = False
        self.comms = [Comm(self, r) for r in range(nranks)]

    # ---- called from rank threads -------------------------------------------------
    def _park(self, rank, op):
        with self.cv:
            self.pending[rank] = op
            self.grant[rank] = None
            self.state[rank] = "parked"
            self.cv.notify_all()
            while self.grant[rank] is None:
                self.cv.wait()
            g = self.grant[rank]
            self.grant[rank] = None
            if g == "ABORT":
                raise Abort()
            self.state[rank] = "running"
            return g

    def _do_send(self, src, obj, dest, tag):
        kind = type(obj).__name__
        data = pickle.dumps(obj)
        self.chan[(src, dest)].append((tag, data))
        if src == 0:
            if kind == "_function_wrapper":
                self.trace.append(("F", dest - 1))
            elif kind == "_close_pool_message":
                self.trace.append(("C", dest - 1))
            else:
                self.trace.append(("S", dest - 1, tag))
        else:
            self.trace.append(("r", src - 1, tag))

    def send(self, src, obj, dest, tag):
        if not self.eager_sends:
            self._park(src, ("send", dest, tag))
        self._do_send(src, obj, dest, tag)

    def _match(self, dst, source, tag):
        """[(src, position)] of the messages a recv(source, tag) posted by dst may get now"""
        out = []
        srcs = range(self.nranks) if source == ANY_SOURCE else [source]
        for s in srcs:
            q = self.chan[(s, dst)]
            for pos, (t, _) in enumerate(q):
                if tag == ANY_TAG or t == tag:
                    out.append((s, pos))
                    break
        return out

    def recv(self, dst, source, tag, status):
        src = self._park(dst, ("recv", source, tag))
        m = [p for (s, p) in self._match(dst, source, tag) if s == src]
        assert m, "scheduler granted a receive that has no matching message"
        q = self.chan[(src, dst)]
        t, data = q[m[0]]
        del q[m[0]]
        obj = pickle.loads(data)
        if status is not None:
            status.source = src
            status.tag = t
        if dst == 0:
            self.trace.append(("m", src - 1, t))
        else:
            kind = type(obj).__name__
            k = None if kind == "_function_wrapper" else ("close" if kind == "_close_pool_message" else t)
            self.trace.append(("w", dst - 1, k))
        return obj

    # ---- controller ------------------------------------------------------------------
    def _options(self):
        opts = []
        for r in range(self.nranks):
            if self.state[r] != "parked":
                continue
            op = self.pending[r]
            if op[0] == "send":
                opts.append((r, "send", op[1]))
            else:
                for (s, _pos) in self._match(r, op[1], op[2]):
                    opts.append((r, "recv", s))
        return opts

    def run(self, bodies, max_steps=100000):
        """bodies[r](comm_r) is the program of rank r.  Returns when every rank has finished.
        Raises Deadlock when ranks remain parked and nothing is enabled."""
        def runner(r):
            _tls.comm = self.comms[r]
            try:
                bodies[r](self.comms[r])
            except Abort:
                pass
            except BaseException as e:  # noqa
                import traceback
                self.errors.append((r, repr(e), traceback.format_exc()))
            finally:
                with self.cv:
                    self.state[r] = "done"
                    self.cv.notify_all()

        threads = [threading.Thread(target=runner, args=(r,), daemon=True) for r in range(self.nranks)]
        with self.cv:
            for r in range(self.nranks):
                self.state[r] = "running"
        # start one at a time so that only one rank ever runs
        dead = None
        for r, t in enumerate(threads):
            t.start()
            with self.cv:
                while self.state[r] == "running":
                    self.cv.wait()
        with self.cv:
            while True:
                while any(s == "running" for s in self.state.values()):
                    self.cv.wait()
                if all(s == "done" for s in self.state.values()):
                    break
                if self.errors:
                    break
                opts = self._options()
                if not opts or self.steps >= max_steps:
                    dead = {"parked": {r: self.pending[r] for r in range(self.nranks) if self.state[r] == "parked"},
                            "steps": self.steps}
                    break
                k = self.choose(opts)
                if k is None:            # the schedule abandons this run (search pruning)
                    self.cut = True
                    break
                r = opts[k][0]
                self.steps += 1
                self.state[r] = "running"
                self.grant[r] = opts[k][2] if opts[k][1] == "recv" else "go"
                self.cv.notify_all()
            # unwind whatever is still parked
            for r in range(self.nranks):
                if self.state[r] == "parked":
                    self.grant[r] = "ABORT"
            self.cv.notify_all()
        for t in threads:
            t.join(10)
        if dead is not None and not self.errors:
            raise Deadlock(dead)


class Comm:
    def __init__(self, world, rank):
        self.world = world
        self.rank = rank

    def Get_rank(self):
        return self.rank

    def Get_size(self):
        return self.world.nranks

    def isend(self, obj, dest, tag=0):
        self.world.send(self.rank, obj, dest, tag)
        return Request()

    def send(self, obj, dest, tag=0):
        self.world.send(self.rank, obj, dest, tag)

    def recv(self, buf=None, source=ANY_SOURCE, tag=ANY_TAG, status=None):
        return self.world.recv(self.rank, source, tag, status)

    def bcast(self, obj=None, root=0):
        raise NotImplementedError("bcast is not used by MPIPool.map / wait")


_tls = threading.local()


class _WorldProxy:
    """MPI.COMM_WORLD: resolves to the communicator of the rank whose thread is asking"""
    def __getattr__(self, name):
        return getattr(_tls.comm, name)


def install():
    """put the simulated package into sys.modules (before platypus.mpipool is imported)"""
    pkg = types.ModuleType("mpi4py")
    mpi = types.ModuleType("mpi4py.MPI")
    mpi.ANY_SOURCE = ANY_SOURCE
    mpi.ANY_TAG = ANY_TAG
    mpi.Status = Status
    mpi.Request = Request
    mpi.COMM_WORLD = _WorldProxy()
    mpi.__fake__ = True
    pkg.MPI = mpi
    pkg.__fake__ = True
    sys.modules["mpi4py"] = pkg
    sys.modules["mpi4py.MPI"] = mpi
    return mpi
