"""C04 — non-dominated sorting ranks by domination depth; truncation respects rank."""
import math
import signal
from fractions import Fraction
from vlib import common as C
from vlib import plat

ID = "C04"
PROPS_FILE = "Props/C04.v"
COQ_TARGETS = ["Harness/H04.vo"]
ALLOWED_AXIOMS = []
# second tie (translator): coq/Gen/Core.v is regenerated from the source text of C.REPO on every run and
# coq/Tie/T04.v proves generated definition = hand model (harness/translate/py2coq_core.py)
EXTRA_PROPS = ["Tie/T04.v"]


def prebuild(ctx):
    import os
    import sys
    sys.path.insert(0, os.path.join(C.VERIF, "harness", "translate"))
    import py2coq_core
    py2coq_core.prebuild(ctx, C, ["nondominated_sort_cmp", "_matches", "matches", "truncate", "nondominated_truncate", "truncate_fitness", "nondominated_split"])


META = {
    "level_text": "Machine-checked proof (Coq) about literal models of nondominated_sort, crowding_distance, filters.truncate/matches/unique, "
                  "nondominated_sort_cmp/truncate/split/prune and truncate_fitness: rank 0 = exactly the non-dominated members and rank r+1 = exactly those "
                  "whose dominators all have rank <= r with one at rank r (via C03's archive characterisation), the peeling loop needs at most len(population) "
                  "rounds and never fails on finite objectives; crowding: first/last of every objective's stable order get +inf, every member gets the sum over "
                  "objectives of neighbour gap / range (exact arithmetic; +inf where the code assigns it for a range below EPSILON), non-negative, later duplicates 0; "
                  "the stable sort is a sorted stable permutation and the unique one; truncate/prune return exactly min(k, n) distinct members, never keep a member "
                  "while dropping one of smaller rank (truncate: nor, at equal rank, one of larger crowding distance); split returns the fronts that fit plus the "
                  "single front to cut, with the k = 0, k >= n and front-boundary cases; prune's loop terminates. The models are tied to /repo on every run by exact "
                  "correspondence (ranks, crowding distances as exact rationals, identities returned for every k in 0..n+2; Coq vm_compute) and by brute-force "
                  "depth / cut-law oracles on the real functions (with a watchdog for non-terminating calls).",
    "level_note": "Tie/T04.v also states the truncation clause about the nondominated_truncate GENERATED from the source text (tie_c04_generated_truncate_*). Trusted: Coq kernel + VM; the harness (literal printer, shard runner, the float-exactness monitor XF); the hand-written models are tied to the code "
                  "only on the sampled populations (0-14 members over small dyadic lattices). Crowding theorems are about exact rational arithmetic: IEEE rounding "
                  "in the crowding sums is not modelled (the correspondence uses inputs on which every float operation of the implementation is exact, checked at "
                  "run time with fractions.Fraction on every +,-,*,/ the real code performs; inexact cases are discarded from the correspondence, counted, and still "
                  "checked by the oracle with a 1e-9 tolerance). Python's sorted() is taken to be a stable sort (uniqueness of the stable sorted permutation is "
                  "proved, so the algorithm is immaterial). Theorems assume well-formed solutions (as many objectives as directions, violation >= 0), identities "
                  "that determine the object (sid_inj; NoDup of identities for the 'distinct members' clauses), finite objectives for crowding/totality, "
                  "natural-number sizes (negative sizes are outside the property); non-finite objectives make the crowding model return None (NaN territory), "
                  "NaN is outside the property. All statements of the design are proved in full (no *_partial). The oracle clause "
                  "'prune-drops-extreme-before-interior' goes beyond the literal property text (it pins the documented use of crowding distance by "
                  "nondominated_prune so that a flipped sort direction there yields a concrete failing input). No axioms (all theorems closed under the global context).",
    "technique": "Coq proof (generic comparator for ranks via C03, exact Q arithmetic for crowding, proved stable sort) + exact correspondence (vm_compute) + brute-force oracles",
}

INF = math.inf


# ----------------------------------------------------------------------------
# a float that monitors the exactness of every arithmetic operation done with it
# ----------------------------------------------------------------------------
class XF(float):
    inexact = 0

    @staticmethod
    def _res(a, b, r, op):
        if not (math.isinf(a) or math.isinf(b) or math.isinf(r) or r != r):
            if Fraction(float(r)) != op(Fraction(float(a)), Fraction(float(b))):
                XF.inexact += 1
        return XF(r)

    def __add__(self, o):
        return XF._res(self, o, float.__add__(self, o), lambda x, y: x + y)

    def __radd__(self, o):
        return XF._res(o, self, float.__radd__(self, o), lambda x, y: x + y)

    def __sub__(self, o):
        return XF._res(self, o, float.__sub__(self, o), lambda x, y: x - y)

    def __rsub__(self, o):
        return XF._res(o, self, float.__rsub__(self, o), lambda x, y: x - y)

    def __mul__(self, o):
        return XF._res(self, o, float.__mul__(self, o), lambda x, y: x * y)

    def __rmul__(self, o):
        return XF._res(o, self, float.__rmul__(self, o), lambda x, y: x * y)

    def __truediv__(self, o):
        return XF._res(self, o, float.__truediv__(self, o), lambda x, y: x / y)

    def __rtruediv__(self, o):
        return XF._res(o, self, float.__rtruediv__(self, o), lambda x, y: x / y)


def spec_dominates(con, dirs, a, b):
    """English definition of C02, independent of the implementation. a, b = (objectives, violation)"""
    (oa, ca), (ob, cb) = a, b
    if con and ca != cb:
        return ca < cb
    xa = [-v if mx else v for v, mx in zip(oa, dirs)]
    xb = [-v if mx else v for v, mx in zip(ob, dirs)]
    return all(x <= y for x, y in zip(xa, xb)) and any(x < y for x, y in zip(xa, xb))


# ----------------------------------------------------------------------------
# cases
# ----------------------------------------------------------------------------
class Pop:
    """con, dirs, pool [(objs, cv)], pop [sid] (the population, by identity), fit [fitness per object]"""

    def __init__(self, con, dirs, pool, pop, fit):
        self.con, self.dirs = con, list(dirs)
        self.pool = [([float(v) for v in o], float(c)) for o, c in pool]
        self.pop = list(pop)
        self.fit = [float(f) for f in fit]

    def to_json(self):
        return {"kind": "population", "con": self.con, "dirs": self.dirs,
                "pool": [[[repr(v) for v in o], repr(c)] for o, c in self.pool], "pop": self.pop, "fit": [repr(f) for f in self.fit]}

    @staticmethod
    def from_json(d):
        return Pop(d["con"], d["dirs"], [([float(v) for v in o], float(c)) for o, c in d["pool"]], d["pop"], [float(f) for f in d["fit"]])

    def token(self):
        return repr((self.con, self.dirs, self.pool, self.pop))

    def build(self):
        p = plat.mk_problem_sticky(len(self.dirs), self.dirs, nconstrs=self.con)
        objs = []
        for i, (o, c) in enumerate(self.pool):
            s = plat.mk_solution(p, [XF(v) for v in o], c)
            s.fitness = self.fit[i]
            s._sid = i
            objs.append(s)
        return objs, [objs[i] for i in self.pop]


class Obs:
    """everything observed from the real code for one population"""
    pass


class Hang(Exception):
    pass


def _alarm(signum, frame):
    raise Hang()


WATCHDOG_S = 2.0     # one population normally takes a few milliseconds


def observe(case):
    """run the real functions under a watchdog: a call that does not return within WATCHDOG_S seconds is reported"""
    # CPU-time watchdog (wall-clock backstop 30x): a 2 s WALL limit raised a false alarm on a loaded machine
    with C.cpu_time_limit(WATCHDOG_S, exc=Hang):
        return observe_unguarded(case)


def observe_unguarded(case):
    from platypus import nondominated_sort, nondominated_truncate, nondominated_split, nondominated_prune, truncate_fitness
    XF.inexact = 0
    ob = Obs()
    objs, pop = case.build()
    nondominated_sort(list(pop))
    ob.attrs = [(s.rank, float(s.crowding_distance)) for s in pop]
    snap = {id(s): (s.rank, s.crowding_distance) for s in pop}

    def restore():
        for s in pop:
            s.rank, s.crowding_distance = snap[id(s)]
    ob.cuts = []
    n = len(pop)
    for k in range(0, n + 3):
        restore()
        tr = [s._sid for s in nondominated_truncate(list(pop), k)]
        sf, sl = nondominated_split(list(pop), k)
        sf, sl = [s._sid for s in sf], [s._sid for s in sl]
        restore()
        pr = [(s._sid, float(s.crowding_distance)) for s in nondominated_prune(list(pop), k)]
        ob.cuts.append((k, tr, (sf, sl), pr))
    restore()
    ob.fcuts = []
    for k in range(0, n + 3):
        for larger in (True, False):
            ob.fcuts.append((k, larger, [s._sid for s in truncate_fitness(list(pop), k, larger_preferred=larger)]))
    ob.inexact = XF.inexact
    return ob


# ----------------------------------------------------------------------------
# oracle: the property statement, directly
# ----------------------------------------------------------------------------
def depth_ranks(case):
    """brute-force domination depth of every pool object that is in the population"""
    ids = sorted(set(case.pop))
    doms = {x: [y for y in ids if spec_dominates(case.con, case.dirs, case.pool[y], case.pool[x])] for x in ids}
    depth = {}

    def d(x, stack=()):
        if x in depth:
            return depth[x]
        assert x not in stack, "dominance cycle"
        depth[x] = 0 if not doms[x] else 1 + max(d(y, stack + (x,)) for y in doms[x])
        return depth[x]
    for x in ids:
        d(x)
    return depth, doms


def oracle(case, ob):
    out = []
    n = len(case.pop)
    rank = {}
    crowd = {}
    for sid, (r, c) in zip(case.pop, ob.attrs):
        rank[sid], crowd[sid] = r, c
    depth, doms = depth_ranks(case)
    # --- ranks = domination depth (the recursive statement: rank 0 iff no dominator; rank r+1 iff all dominators <= r and one == r)
    for x in sorted(set(case.pop)):
        dr = [rank[y] for y in doms[x]]
        ok = (rank[x] == 0 and not dr) or (rank[x] > 0 and dr and max(dr) == rank[x] - 1)
        if not ok or rank[x] != depth[x]:
            out.append(("rank-not-domination-depth", "object %d %r has rank %r; its dominators %r have ranks %r (depth %d)" % (
                x, case.pool[x], rank[x], doms[x], dr, depth[x])))
            break
    # --- crowding per front
    exact = ob.inexact == 0
    nobj = len(case.dirs)
    fronts = {}
    for sid in case.pop:
        if sid not in fronts.setdefault(rank[sid], []):
            fronts[rank[sid]].append(sid)
    for r, front in sorted(fronts.items()):
        reps = []
        seen = set()
        for sid in front:
            key = tuple(case.pool[sid][0])
            if key not in seen:
                seen.add(key)
                reps.append(sid)
        for sid in front:
            if not (crowd[sid] >= 0.0):
                out.append(("crowding-negative", "front %d object %d has crowding %r" % (r, sid, crowd[sid])))
            if sid not in reps and crowd[sid] != 0.0:
                out.append(("crowding-duplicate-nonzero", "front %d: object %d repeats an earlier objective vector but has crowding %r" % (r, sid, crowd[sid])))
        if len(reps) < 3:
            for sid in reps:
                if crowd[sid] != INF:
                    out.append(("crowding-small-front-not-inf", "front %d has %d distinct vectors but object %d has crowding %r" % (r, len(reps), sid, crowd[sid])))
            continue
        total = {sid: Fraction(0) for sid in reps}
        isinf = {sid: False for sid in reps}
        for i in range(nobj):
            vals = [case.pool[sid][0][i] for sid in reps]
            lo, hi = min(vals), max(vals)
            if not any(crowd[sid] == INF for sid in reps if case.pool[sid][0][i] == lo) or \
               not any(crowd[sid] == INF for sid in reps if case.pool[sid][0][i] == hi):
                out.append(("crowding-extreme-not-inf", "front %d objective %d: no solution at the minimum %r / maximum %r has infinite crowding (%r)" % (
                    r, i, lo, hi, [(sid, crowd[sid]) for sid in reps])))
            order = sorted(reps, key=lambda sid: case.pool[sid][0][i])     # stable, like the statement's 'sorted by objective'
            isinf[order[0]] = isinf[order[-1]] = True
            for j in range(1, len(order) - 1):
                if hi - lo < 2.0 ** -52:
                    isinf[order[j]] = True
                else:
                    total[order[j]] += (Fraction(case.pool[order[j + 1]][0][i]) - Fraction(case.pool[order[j - 1]][0][i])) / (Fraction(hi) - Fraction(lo))
        for sid in reps:
            want = INF if isinf[sid] else total[sid]
            got = crowd[sid]
            if want == INF or got == INF:
                good = want == got
            elif exact:
                good = Fraction(got) == want
            else:
                good = abs(got - float(want)) <= 1e-9 * max(1.0, abs(float(want)))
            if not good:
                out.append(("crowding-not-sum-of-gaps", "front %d object %d: crowding %r, sum over objectives of gap/range = %s" % (r, sid, got, want)))
    # --- cuts
    distinct = len(set(case.pop)) == n
    nfronts = len(fronts)
    sizes = [len([s for s in case.pop if rank[s] == r]) for r in range(nfronts)]
    for (k, tr, (sf, sl), pr) in ob.cuts:
        prs = [s for s, _ in pr]
        for name, res, use_crowd in (("truncate", tr, True), ("prune", prs, False)):
            if len(res) != min(k, n):
                out.append(("%s-wrong-size" % name, "nondominated_%s(k=%d) returned %d of %d members" % (name, k, len(res), n)))
            if distinct and (len(set(res)) != len(res) or not set(res) <= set(case.pop)):
                out.append(("%s-not-distinct-members" % name, "nondominated_%s(k=%d) returned %r from population %r" % (name, k, res, case.pop)))
            if distinct:
                dropped = [s for s in case.pop if s not in res]
                for x in res:
                    for y in dropped:
                        if rank[x] > rank[y]:
                            out.append(("%s-keeps-worse-rank" % name, "nondominated_%s(k=%d) kept object %d (rank %d) and dropped object %d (rank %d)" % (
                                name, k, x, rank[x], y, rank[y])))
                        elif use_crowd and rank[x] == rank[y] and crowd[x] < crowd[y]:
                            out.append(("truncate-keeps-smaller-crowding", "nondominated_truncate(k=%d) kept object %d (rank %d, crowding %r) and dropped object %d (same rank, crowding %r)" % (
                                k, x, rank[x], crowd[x], y, crowd[y])))
        # split: all fronts that fit entirely + the single front that must be cut
        cum = 0
        rstar = 0
        while rstar < nfronts and cum + sizes[rstar] <= k:
            cum += sizes[rstar]
            rstar += 1
        want_first = [s for r in range(rstar) for s in case.pop if rank[s] == r]
        want_last = [] if (rstar == nfronts or cum == k) else [s for s in case.pop if rank[s] == rstar]
        # prune removes the least crowded member first (crowding recomputed after every removal): as long as at least
        # 2*nobjs members of the cut front survive, no member with infinite crowding is ever removed, so every objective's
        # minimum and maximum over the cut front are still attained by a survivor (stated on values: robust to tie order)
        if distinct and want_last and len(prs) == min(k, n):
            F = want_last
            surv = [s for s in prs if s in F]
            vecs = {tuple(case.pool[s][0]) for s in F}
            if len(vecs) >= 3 and len(surv) >= 2 * nobj:
                for i in range(nobj):
                    lo = min(case.pool[s][0][i] for s in F)
                    hi = max(case.pool[s][0][i] for s in F)
                    if hi - lo < 2.0 ** -52:
                        break
                else:
                    for i in range(nobj):
                        lo = min(case.pool[s][0][i] for s in F)
                        hi = max(case.pool[s][0][i] for s in F)
                        if not any(case.pool[s][0][i] == lo for s in surv) or not any(case.pool[s][0][i] == hi for s in surv):
                            out.append(("prune-drops-extreme-before-interior", "nondominated_prune(k=%d) cut front %r down to %r: objective %d extreme value %r/%r is lost although %d >= 2*%d members survive" % (
                                k, F, surv, i, lo, hi, len(surv), nobj)))
                            break
        if sorted(sf) != sorted(want_first) or sorted(sl) != sorted(want_last):
            out.append(("split-wrong-fronts", "nondominated_split(k=%d) = (%r, %r); fronts that fit = %r, front to cut = %r (front sizes %r)" % (
                k, sf, sl, want_first, want_last, sizes)))
    fit = {sid: case.fit[sid] for sid in case.pop}
    for (k, larger, res) in ob.fcuts:
        if len(res) != min(k, n):
            out.append(("truncate_fitness-wrong-size", "truncate_fitness(k=%d, larger_preferred=%r) returned %d of %d" % (k, larger, len(res), n)))
        if distinct:
            if len(set(res)) != len(res) or not set(res) <= set(case.pop):
                out.append(("truncate_fitness-not-distinct-members", "truncate_fitness(k=%d) returned %r" % (k, res)))
            dropped = [s for s in case.pop if s not in res]
            for x in res:
                for y in dropped:
                    if (larger and fit[x] < fit[y]) or (not larger and fit[x] > fit[y]):
                        out.append(("truncate_fitness-keeps-worse", "truncate_fitness(k=%d, larger_preferred=%r) kept object %d (fitness %r) and dropped %d (fitness %r)" % (
                            k, larger, x, fit[x], y, fit[y])))
    # one witness per clause
    seen = set()
    res = []
    for key, what in out:
        if key not in seen:
            seen.add(key)
            res.append((key, what))
    return res


def check_case(case):
    try:
        ob = observe(case)
    except Hang:
        ob = Obs()
        ob.attrs, ob.cuts, ob.fcuts, ob.inexact, ob.failed = [], [], [], 1, True
        return ob, [("call-does-not-return", "nondominated_sort/truncate/split/prune/truncate_fitness did not return within 2 s of CPU time on this population (some k in 0..n+2)")]
    except Exception as e:     # an exception on a well-formed population
        ob = Obs()
        ob.attrs, ob.cuts, ob.fcuts, ob.inexact, ob.failed = [], [], [], 1, True
        return ob, [("call-raises", "%s: %s" % (type(e).__name__, e))]
    return ob, oracle(case, ob)


def shrink(case, key):
    def still(c):
        try:
            return any(k == key for k, _ in check_case(c)[1])
        except Exception:
            return False
    cur = case
    changed = True
    while changed:
        changed = False
        for i in range(len(cur.pop) - 1, -1, -1):
            cand = Pop(cur.con, cur.dirs, cur.pool, cur.pop[:i] + cur.pop[i + 1:], cur.fit)
            if still(cand):
                cur, changed = cand, True
    used = sorted(set(cur.pop))
    ren = {o: i for i, o in enumerate(used)}
    return Pop(cur.con, cur.dirs, [cur.pool[i] for i in used], [ren[i] for i in cur.pop], [cur.fit[i] for i in used])


def report(ctx, case, fails):
    seen = ctx.extra.setdefault("reported_keys", set())
    for key, what in fails:
        if key in seen:
            continue
        seen.add(key)
        small = case
        try:
            small = shrink(case, key)
            w2 = [w for k, w in check_case(small)[1] if k == key]
            what = (w2[0] if w2 else what) + "  [population shrunk from %d to %d]" % (len(case.pop), len(small.pop))
        except Exception:
            small = case
        ctx.violation(key, what, small.to_json())


# ----------------------------------------------------------------------------
# generation
# ----------------------------------------------------------------------------
def gen_pop(rng, nmax=14):
    m = rng.randrange(1, 4)
    dirs = [rng.random() < 0.35 for _ in range(m)]
    con = 1 if rng.random() < 0.3 else 0
    side = rng.choice([2, 3, 3, 5, 5, 9])
    scale = rng.choice([1.0, 1.0, 0.5, 0.25, 4.0])
    n = rng.choice([0, 1, 2]) if rng.random() < 0.08 else rng.randrange(0, nmax + 1)
    pool = []
    front_mode = m >= 2 and rng.random() < 0.45
    if front_mode:
        # a trade-off line with power-of-two range so that gap/range is exact: extremes (0,S) and (S,0) present, layers behind it
        S = rng.choice([4, 8, 16])
        def third():
            return [rng.choice([0, S]) * scale] if m == 3 else []
        for i in range(n):
            if i == 0:
                o = [0.0, S * scale] + third()
            elif i == 1:
                o = [S * scale, 0.0] + third()
            elif rng.random() < 0.2:
                o = list(rng.choice(pool)[0])
            else:
                x = rng.randrange(S + 1)
                o = [x * scale, (S - x + rng.choice([0, 0, 0, 1, 2])) * scale] + third()
            c = rng.choice([0.0, 0.0, 0.0, 0.5, 1.0]) if con else 0.0
            pool.append((o, c))
        rng.shuffle(pool)
    else:
        for _ in range(n):
            if pool and rng.random() < 0.2:
                o, c = rng.choice(pool)
                pool.append((list(o), c))
                continue
            o = [rng.randrange(side) * scale for _ in range(m)]
            if m >= 2 and rng.random() < 0.5:       # push towards a trade-off front so that fronts have interior points
                o[1] = (side - 1) * scale - o[0] + rng.choice([0.0, 0.0, scale])
            c = rng.choice([0.0, 0.0, 0.0, 0.5, 1.0]) if con else 0.0
            pool.append((o, c))
    pop = list(range(n))
    if n >= 2 and rng.random() < 0.06:          # the same object listed twice
        pop.insert(rng.randrange(n + 1), rng.randrange(n))
    fit = [rng.choice([0.0, 0.5, 1.0, 1.5, 2.0, -1.0, INF]) if rng.random() < 0.7 else rng.randrange(-8, 9) / 4.0 for _ in range(n)]
    return Pop(con, dirs, pool, pop, fit)


def nats(l):
    assert all(0 <= i < 5000 for i in l)
    return "[" + ";".join("%d" % i for i in l) + "]%nat"


def case_lit(case, ob):
    pool = C.list_lit(["(%s, %s)" % (C.list_lit([C.xq_lit(v) for v in o]), C.xq_lit(c)) for o, c in case.pool])
    attrs = C.list_lit(["(%s, %s)" % (C.nat_lit(r), C.xq_lit(c)) for r, c in ob.attrs])
    cuts = C.list_lit(["(%s, %s, (%s, %s), %s)" % (C.nat_lit(k), nats(tr), nats(sf), nats(sl),
                                                   C.list_lit(["(%s, %s)" % (C.nat_lit(s), C.xq_lit(c)) for s, c in pr]))
                       for k, tr, (sf, sl), pr in ob.cuts])
    fit = C.list_lit([C.xq_lit(f) for f in case.fit])
    fcuts = C.list_lit(["(%s, %s, %s)" % (C.nat_lit(k), C.bool_lit(lg), nats(res)) for k, lg, res in ob.fcuts])
    return "C4 %s %s %s %s %s %s %s %s" % (C.bool_lit(bool(case.con)), C.list_lit([C.bool_lit(d) for d in case.dirs]),
                                           pool, nats(case.pop), attrs, cuts, fit, fcuts)


def run(ctx):
    rng = ctx.rng
    ncases = ctx.scale(1000, 30000)
    cases, lits, lit_idx = [], [], []
    dist = {"populations": ncases, "size_hist": {}, "n_objs": {}, "constrained": 0, "maximised_some": 0, "with_duplicate_vectors": 0,
            "with_same_object_twice": 0, "fronts_hist": {}, "finite_positive_crowding_values": 0, "cuts_inside_a_front": 0,
            "cuts_on_front_boundary": 0, "discarded_inexact_float": 0, "cut_calls": 0}
    for idx in range(ncases):
        case = gen_pop(rng)
        ob, fails = check_case(case)
        ctx.count()
        cases.append(case)
        n = len(case.pop)
        dist["size_hist"][n] = dist["size_hist"].get(n, 0) + 1
        dist["n_objs"][len(case.dirs)] = dist["n_objs"].get(len(case.dirs), 0) + 1
        dist["constrained"] += case.con
        dist["maximised_some"] += 1 if any(case.dirs) else 0
        vecs = [repr(case.pool[i]) for i in set(case.pop)]
        dups = len(vecs) != len(set(vecs))
        dist["with_duplicate_vectors"] += 1 if dups else 0
        dist["with_same_object_twice"] += 1 if len(set(case.pop)) != n else 0
        nfr = len({r for r, _ in ob.attrs})
        dist["fronts_hist"][nfr] = dist["fronts_hist"].get(nfr, 0) + 1
        fin = sum(1 for _, c in ob.attrs if 0.0 < c < INF)
        dist["finite_positive_crowding_values"] += fin
        inside = sum(1 for _, _, (_, sl), _ in ob.cuts if sl)
        dist["cuts_inside_a_front"] += inside
        dist["cuts_on_front_boundary"] += sum(1 for k, _, (sf, sl), _ in ob.cuts if not sl and 0 < k < n and len(sf) == k)
        dist["cut_calls"] += 3 * len(ob.cuts) + len(ob.fcuts)
        if nfr >= 2 and fin and inside:
            ctx.mark(case.token())
        if ob.inexact:
            dist["discarded_inexact_float"] += 1
        else:
            lits.append(case_lit(case, ob))
            lit_idx.append(idx)
        if fails:
            report(ctx, case, fails)
            if getattr(ob, "failed", False) and any(k == "call-does-not-return" for k, _ in fails):
                dist["aborted_after_hang_at_population"] = idx
                ctx.extra["hang"] = True
                break
        if idx in (3, 4):
            ctx.sample({"population": case.to_json(), "(rank, crowding)": ob.attrs, "cuts(k, truncate, split, prune)": [list(c) for c in ob.cuts[:6]]})
    ctx.sample({"coq_case": lits[0][:1500] if lits else ""})
    ctx.coverage["input_distribution"] = dist
    ctx.rule = ("populations of 0-14 solutions (1-3 objectives) on lattices {0..side-1}^m * scale (side 2,3,5,9; scale 1/4..4), half of the points pushed onto "
                "a trade-off line, 45% of the multi-objective ones built as a trade-off line of range 4/8/16 with layers behind it (exact gap/range), 20% forced duplicate vectors, 30% constrained with violations {0,.5,1}, random directions, 6% with the same object listed twice; "
                "every size k in 0..n+2 for truncate/split/prune and truncate_fitness (both preferences, fitness with ties and inf); "
                "non-trivial = at least two fronts AND a finite positive crowding distance AND a k that cuts inside a front; distinct by full population")
    bad = C.run_coq_cases(ctx, "pops", ["Base.Num", "Model.Dominance", "Model.Archive", "Model.NDSort", "Model.Truncate", "Harness.H03", "Harness.H04"],
                          "c04case", "c04_check", lits, shard=80)
    if bad is not None:
        ctx.obligation("correspondence:nd_sort+crowding+truncate/split/prune/truncate_fitness(%d populations exact, %d discarded as inexact, %d calls)" % (
            len(lits), dist["discarded_inexact_float"], dist["cut_calls"]), "correspondence", not bad,
            "model and implementation differ on populations %r; first: %s" % ([lit_idx[i] for i in bad[:10]], lits[bad[0]][:1500] if bad else ""))
        ctx.coverage["correspondence_cases"] = len(lits)
        ctx.coverage["correspondence_mismatches"] = len(bad)
        # search around each disagreeing population: every sub-population with one member removed
        for i in bad[:5]:
            case = cases[lit_idx[i]]
            ctx.sample({"model_impl_disagree": case.to_json()})
            for j in range(len(case.pop)):
                sub = Pop(case.con, case.dirs, case.pool, case.pop[:j] + case.pop[j + 1:], case.fit)
                ctx.count()
                f = check_case(sub)[1]
                if f:
                    report(ctx, sub, f)
                    break
    # oracle on inputs the exact model cannot take: arbitrary floats
    nfl = 0 if ctx.extra.get("hang") else ctx.scale(300, 5000)     # a hang is already a concrete violation; every further call would hang too
    for _ in range(nfl):
        m = rng.randrange(1, 4)
        n = rng.randrange(0, 15)
        pool = [([rng.choice([rng.random(), rng.random() * 1e-3, round(rng.random(), 1), 1e300 * rng.random()]) for _ in range(m)], 0.0) for _ in range(n)]
        case = Pop(0, [rng.random() < 0.3 for _ in range(m)], pool, list(range(n)), [rng.random() for _ in range(n)])
        ob, fails = check_case(case)
        ctx.count()
        if fails:
            report(ctx, case, fails)
            if getattr(ob, "failed", False) and any(k == "call-does-not-return" for k, _ in fails):
                break
    ctx.coverage["oracle_only_float_populations"] = nfl


def replay(ctx, data):
    rp = data.get("replay", {})
    if rp.get("kind") == "population":
        case = Pop.from_json(rp)
        ob, fails = check_case(case)
        ctx.count()
        ctx.sample({"population": rp, "(rank, crowding)": ob.attrs})
        for key, what in fails:
            ctx.violation(key, "replay: " + what, rp)
    else:
        run(ctx)
