"""C11 — a constraint expression is violated exactly when its relation is false."""
import math
import operator
from fractions import Fraction
from vlib import common as C

ID = "C11"
PROPS_FILE = "Props/C11.v"
COQ_TARGETS = ["Harness/H11.vo"]
ALLOWED_AXIOMS = []
# second tie (translator): coq/Gen/Core.v is regenerated from the source text of C.REPO on every run and
# coq/Tie/T11.v proves generated definition = hand model (harness/translate/py2coq_core.py)
EXTRA_PROPS = ["Tie/T11.v"]


def prebuild(ctx):
    import os
    import sys
    sys.path.insert(0, os.path.join(C.VERIF, "harness", "translate"))
    import py2coq_core
    py2coq_core.prebuild(ctx, C, ["_constraint_eq", "_constraint_leq", "_constraint_geq", "_constraint_neq", "_constraint_lt", "_constraint_gt"])


META = {
    "level_text": "Machine-checked proof (Coq) about the literal model of platypus/core.py _constraint_eq/leq/geq/neq/lt/gt, Constraint.__init__ (regex "
                  "^([<>=!]+)\\s*([^\\s<>=!]+)$ on character lists, operator table, two-argument, copy and callable forms, predefined constants) and the "
                  "aggregation in Problem.__call__: over exact rationals each operator's violation is 0 iff its relation holds, > 0 otherwise (>= delta for < and >), "
                  "monotone for ==,<=,>=,<,>; total violation = sum of absolute violations, feasible iff every relation holds; a feasible solution beats an infeasible "
                  "one (through C02's compare_spec); the parser accepts exactly operator + whitespace run + well-formed token (+ one final newline, as Python's $) and "
                  "rejects the empty string, a missing operator, a missing value, an unknown operator, trailing text.  Tied to /repo on every run by differential "
                  "correspondence through the real Constraint and Problem.__call__ (6 operators x thresholds x values incl. threshold, both float neighbours, far, +-inf "
                  "x 7 spellings x 1-4 constraints, all 256 separator characters, a malformed stream), evaluated in Coq by vm_compute, plus an oracle using Python's own "
                  "comparison operators.",
    "level_note": "Tie/T11.v also states zero-iff-holds, positivity and non-negativity about the six violation functions GENERATED from the source text (tie_c11_generated_*). Theorems are about exact arithmetic in Q (delta = exact value of the double 0.0001); float rounding of x-y and +delta is not modelled.  The "
                  "correspondence compares zero-ness, sign and feasibility on every case, the magnitude exactly where the float result equals the exact rational result "
                  "(checked with fractions.Fraction, counted in the evidence) and within relative 2^-40 otherwise; binary64 overflow is not modelled either: an implementation "
                  "result +inf is accepted against a finite exact value >= 2^1024-2^970 (H11.close), which is how huge finite penalties whose sum overflows are compared.  float(token) is a section variable (Python's float, "
                  "shipped per case as a table over the suffixes of the declared string); strings are restricted to code points < 256 in the model; thresholds inf/nan are "
                  "outside the model.  The second ladder (EpsilonDominance, core.py:920-928) is exercised by the oracle only; the Coq statement uses C02's model of "
                  "ParetoDominance.compare.  Trusted: Coq kernel + VM, the harness literal printer/shard runner, the identification of the driver's four test callables "
                  "with H11.fn.  No axioms (all theorems closed under the global context).",
    "technique": "Coq proof over Q / character lists + model/implementation correspondence (vm_compute) + oracle on the real code",
}

INF = math.inf
OPS = ["==", "<=", ">=", "!=", "<", ">"]
PY_REL = {"==": operator.eq, "<=": operator.le, ">=": operator.ge, "!=": operator.ne, "<": operator.lt, ">": operator.gt}
# intended meaning of the predefined constants (oracle side)
CONSTS = {"EQUALS_ZERO": ("==", 0.0), "LEQ_ZERO": ("<=", 0.0), "GEQ_ZERO": (">=", 0.0), "LESS_THAN_ZERO": ("<", 0.0), "GREATER_THAN_ZERO": (">", 0.0)}
# test callables (exact in floats); index = H11.fn index
FUNS = [lambda x: x, lambda x: -x, lambda x: 0, lambda x: x - 1]
# threshold tokens as a user would write them
TOKENS = ["-5", "-0.0", "0", "0.5", "1e-3", "1e300", "-1e300", "5", ".25", "+7.", "-2.5E-3", "123456789.125", "1e-300", "0.1", "3",
          "0.30000000000000004", "1234567.0", "-1234.5678901", "6.02214076e23", "5e-324", "9007199254740993", "0.3333333333333333"]
# numbers for the two-argument form (repr; ints stay ints): 7+ significant digits, extremes, ints above 2**53
PAIR_VALUES = [repr(v) for v in (1 / 3, 0.1 + 0.2, 1234567.0, -1234.5678901, 6.02214076e23, 5e-324, 1e300, -1e300, 2 ** 53 + 1, -(2 ** 53 + 1), 1234567, 10, 10.0, 0, -0.0,
                                 0.5, 0.0123456789, 1e-3, 1e16, 1e21, 1e22, 10 ** 22, 123456789012345678, 1.7976931348623157e308, 2.2250738585072014e-308,
                                 123456.7, 9.999999e-05, 100000.5, -5, 2.5e-7)]
DELTA = Fraction(0.0001)
OVERFLOW = Fraction(2) ** 1024 - Fraction(2) ** 970       # exact results from here on round to +inf in binary64
FMAX = 1.7976931348623157e308


def tok_number(tok):
    """the Python number a user would pass as second argument for this token"""
    try:
        return int(tok)
    except ValueError:
        return float(tok)


# ----------------------------------------------------------------------------
# real code access
# ----------------------------------------------------------------------------
def mk_arg(ctor):
    """ctor (JSON-able) -> object to store into problem.constraints / pass around"""
    from platypus import Constraint
    k = ctor[0]
    if k == "str":
        return ctor[1]                       # converted by Constraint.to_constraint
    if k == "ctor-str":
        return Constraint(ctor[1])
    if k == "pair":
        return Constraint(ctor[1], tok_number(ctor[2]))
    if k == "copy":
        return Constraint(Constraint(ctor[1]))
    if k == "const":
        return getattr(Constraint, ctor[1])
    if k == "fun":
        return Constraint(FUNS[ctor[1]])
    raise ValueError(ctor)


def declare(ctor):
    """-> (Constraint object | None, exception name | None)"""
    from platypus import Constraint
    try:
        return Constraint.to_constraint(mk_arg(ctor)), None
    except Exception as e:  # noqa: BLE001
        return None, type(e).__name__


def op_index_of(c):
    from platypus import core
    table = [core._constraint_eq, core._constraint_leq, core._constraint_geq, core._constraint_neq, core._constraint_lt, core._constraint_gt]
    f = getattr(c.function, "func", None)
    for i, g in enumerate(table):
        if f is g:
            return i
    return None


def evaluate(ctors, xs, objs=(0.0,)):
    from platypus import Problem, Solution, Real
    n = len(xs)
    p = Problem(1, len(objs), n, function=lambda v: (list(objs), list(xs)))
    p.types[:] = Real(0, 1)
    for i, ct in enumerate(ctors):
        p.constraints[i] = mk_arg(ct)
    s = Solution(p)
    s.variables[:] = [0.5]
    p(s)
    return s, p


# ----------------------------------------------------------------------------
# Coq literals
# ----------------------------------------------------------------------------
def cps(s):
    return C.list_lit([C.z_lit(ord(ch)) for ch in s])


def latin1(s):
    return all(ord(ch) < 256 for ch in s)


def ftable(s):
    """Python's float() on every suffix of s (and on the suffix without a final newline): finite results only"""
    ent = {}
    cands = [s[i:] for i in range(len(s))]
    if s.endswith("\n"):
        cands += [s[i:-1] for i in range(len(s) - 1)]
    for suf in cands:
        try:
            v = float(suf)
        except ValueError:
            continue
        if v == v and abs(v) != INF:
            ent[suf] = v
    return C.list_lit(["(%s, %s)" % (cps(k), C.q_lit(v)) for k, v in ent.items()])


def has_nonfinite_suffix(s):
    for i in range(len(s)):
        for suf in (s[i:], s[i:].rstrip("\n")):
            try:
                v = float(suf)
            except ValueError:
                continue
            if v != v or abs(v) == INF:
                return True
    return False


def sp_lit(ctor):
    from platypus import Constraint
    k = ctor[0]
    if k in ("str", "ctor-str"):
        return "(SpStr %s %s)" % (cps(ctor[1]), ftable(ctor[1]))
    if k == "pair":
        return "(SpPair %s %s)" % (cps(ctor[1]), C.q_lit(float(tok_number(ctor[2]))))
    if k == "copy":
        return "(SpCopy (SpStr %s %s))" % (cps(ctor[1]), ftable(ctor[1]))
    if k == "const":
        s = getattr(Constraint, ctor[1])
        return "(SpStr %s %s)" % (cps(s), ftable(s))
    if k == "fun":
        return "(SpFun %d)" % ctor[1]
    raise ValueError(ctor)


def shippable(ctor):
    from platypus import Constraint
    if ctor[0] in ("str", "ctor-str", "copy"):
        return latin1(ctor[1]) and not has_nonfinite_suffix(ctor[1])
    if ctor[0] == "const":
        s = getattr(Constraint, ctor[1], None)
        return isinstance(s, str) and latin1(s)
    if ctor[0] == "pair":
        return latin1(ctor[1])
    return True


# ----------------------------------------------------------------------------
# oracle (independent of the model: Python's own operators, Fraction)
# ----------------------------------------------------------------------------
def sat(intent, x):
    if intent[0] == "fun":
        return FUNS[intent[1]](x) == 0
    return PY_REL[intent[0]](x, intent[1])


def exact_viol(intent, x):
    """exact rational violation of a finite value (None if not applicable): the documented formulas"""
    if abs(x) == INF:
        return None
    if intent[0] == "fun":
        return abs(Fraction(FUNS[intent[1]](x)))
    op, y = intent
    if PY_REL[op](x, y):
        return Fraction(0)
    if op == "!=":
        return Fraction(1)
    d = abs(Fraction(x) - Fraction(y))
    return d + DELTA if op in ("<", ">") else d


def oracle_call(ctx, ctor, intent, x, v, where="call", rp=None):
    """one call of a declared constraint: zero iff the relation holds, positive otherwise"""
    rp = rp or {"kind": "call", "ctor": list(ctor), "intent": [intent[0], repr(intent[1])], "x": repr(x)}
    holds = sat(intent, x)
    if intent[0] == "fun":
        return
    if v != v:
        ctx.violation("violation-is-nan:" + intent[0], "%r: value %r gives NaN" % (ctor, x), rp)
    elif holds and v != 0:
        ctx.violation("satisfied-but-nonzero:" + intent[0], "%r (meaning x %s %r): value %r satisfies the relation but the violation is %r" % (ctor, intent[0], intent[1], x, v), rp)
    elif not holds and not v > 0:
        ctx.violation("violated-but-not-positive:" + intent[0], "%r (meaning x %s %r): value %r does not satisfy the relation but the violation is %r" % (ctor, intent[0], intent[1], x, v), rp)


def oracle_monotone(ctx, ctor, intent, c, xs):
    """moving x further from the feasible side never decreases the violation (==,<=,>=,<,>)"""
    op, y = intent
    if op == "!=" or op == "fun":
        return
    xs = sorted(set(xs))
    chains = []
    if op in ("<=", "<"):
        chains.append(xs)
    elif op in (">=", ">"):
        chains.append(xs[::-1])
    else:
        chains.append([x for x in xs if x >= y])
        chains.append([x for x in xs if x <= y][::-1])
    for ch in chains:
        prev = None
        for x in ch:
            v = c(x)
            if prev is not None and v < prev[1]:
                ctx.violation("not-monotone:" + op, "%r: violation decreases from %r at x=%r to %r at x=%r although x moved away from the feasible side" % (ctor, prev[1], prev[0], v, x),
                              {"kind": "mono", "ctor": list(ctor), "intent": [op, repr(y)], "xs": [repr(prev[0]), repr(x)]})
                return
            prev = (x, v)


def oracle_eval(ctx, ctors, intents, xs, s, p, rp=None):
    rp = rp or {"kind": "eval", "ctors": [list(c) for c in ctors], "intents": [[i[0], repr(i[1])] for i in intents], "xs": [repr(x) for x in xs]}
    cv = s.constraint_violation
    allhold = all(sat(i, x) for i, x in zip(intents, xs))
    if s.feasible != allhold:
        ctx.violation("feasible-differs-from-all-relations-hold", "constraints %r on values %r: feasible=%r but %s" % (ctors, xs, s.feasible, "every relation holds" if allhold else "a relation is false"), rp)
    if s.feasible != (cv == 0):
        ctx.violation("feasible-differs-from-zero-violation", "constraints %r on values %r: feasible=%r, constraint_violation=%r" % (ctors, xs, s.feasible, cv), rp)
    if not (cv >= 0):
        ctx.violation("total-violation-negative-or-nan", "constraints %r on values %r: constraint_violation=%r" % (ctors, xs, cv), rp)
        return
    # sum of the absolute violations of the individual constraints (each obtained from the real constraint object)
    parts = [p.constraints[i](xs[i]) for i in range(len(xs))]
    if any(abs(v) == INF for v in parts):
        ok = cv == INF
        want = INF
    else:
        want = sum(abs(Fraction(v)) for v in parts)
        if want >= OVERFLOW:                                # finite violations whose sum is beyond the largest double: the float total is +inf
            ok = cv == INF
        else:
            ok = abs(cv) != INF and abs(Fraction(cv) - want) <= want * Fraction(1, 10 ** 12)
    if not ok:
        ctx.violation("total-is-not-sum-of-absolute-violations", "constraints %r on values %r: constraint_violation=%r, individual violations %r sum to %s" % (ctors, xs, cv, parts, float(want)), rp)


def oracle_beats(ctx, ctors, xs_f, xs_i, o1, o2, where="run"):
    """feasible vs infeasible under both dominance comparators that implement the violation-first rule"""
    from platypus import ParetoDominance, EpsilonDominance
    sf, _p = evaluate(ctors, xs_f, o1)
    si, p2 = evaluate(ctors, xs_i, o2)
    si.problem = sf.problem
    if not sf.feasible or si.feasible:
        return False
    rp = {"kind": "beats", "ctors": [list(c) for c in ctors], "xs_feasible": [repr(x) for x in xs_f], "xs_infeasible": [repr(x) for x in xs_i],
          "objs": [[repr(v) for v in o1], [repr(v) for v in o2]]}
    for name, cmp in (("ParetoDominance", ParetoDominance()), ("EpsilonDominance", EpsilonDominance([0.25] * len(o1)))):
        a, b = cmp.compare(sf, si), cmp.compare(si, sf)
        if a != -1 or b != 1:
            ctx.violation("feasible-does-not-beat-infeasible:" + name, "%s.compare(feasible, infeasible)=%r, reversed=%r; objectives %r vs %r, violations %r vs %r"
                          % (name, a, b, o1, o2, sf.constraint_violation, si.constraint_violation), rp)
    return True


def oracle_wellformed(s):
    """True = the statement says this string must be accepted, False = must be rejected, None = the statement does not say.
    Written from the English description: operator of the table, optional blanks, a number."""
    if s == "":
        return False
    i = 0
    while i < len(s) and s[i] in "<>=!":
        i += 1
    opr, rest = s[:i], s[i:]
    if opr == "":
        return False
    if rest.strip() == "":
        return False                         # no value
    if opr not in OPS:
        return False
    body = rest.lstrip(" \t")
    if body != rest.lstrip():
        return None                          # separated by other kinds of whitespace: not specified
    if body != body.rstrip():
        return False if body.rstrip("\n") != body.rstrip() or body.count("\n") > 1 else None   # trailing blanks: rejected; one final newline: unspecified
    if any(ch.isspace() or ch in "<>=!" for ch in body):
        return False
    try:
        v = float(body)
    except ValueError:
        return False
    if v != v or abs(v) == INF:
        return None
    return True


# ----------------------------------------------------------------------------
# operation sequences: long-lived Constraint objects (and copies of them) called in interleaved order,
# one Problem object whose constraints are re-declared in place between evaluations
# ----------------------------------------------------------------------------
def exact_call_flag(intent, x, v):
    ev = exact_viol(intent, x)
    if ev is None:
        return True
    return v == v and abs(v) != INF and Fraction(v) == ev


def exact_eval_flag(intents, xs, cv):
    """True/False = exact flag for the Coq case, None = not shippable"""
    if cv != cv or any(i[0] == "fun" and abs(x) == INF for i, x in zip(intents, xs)):
        return None
    evs = [(Fraction(0) if sat(i, x) else None) if abs(x) == INF else exact_viol(i, x) for i, x in zip(intents, xs)]
    if any(v is None for v in evs):
        return True
    return abs(cv) != INF and Fraction(cv) == sum(evs)


def json_key(obj):
    import json
    return json.dumps(obj, sort_keys=True)


def jintent(i):
    return [i[0], repr(i[1])]


def run_object_sequence(ctx, steps, lits=None):
    """steps (JSON): ["new", ctor, intent] | ["copy", i] | ["call", i, repr(x)] on a growing list of live Constraint objects"""
    from platypus import Constraint
    objs = []            # (object, ctor, intent, coq spelling)
    done = []
    for st in steps:
        done.append(st)
        rp = {"kind": "oseq", "steps": [list(x) for x in done]}
        if st[0] == "new":
            ctor, intent = tuple(st[1]), _intent(st[2])
            c, err = declare(ctor)
            if c is None:
                ctx.violation("well-formed-expression-rejected", "Constraint %r raised %s" % (ctor, err), rp)
                objs.append((None, ctor, intent, None))
            else:
                objs.append((c, ctor, intent, sp_lit(ctor) if shippable(ctor) else None))
        elif st[0] == "copy":
            src = objs[st[1] % len(objs)]
            if src[0] is None:
                objs.append(src)
                continue
            try:
                objs.append((Constraint(src[0]), src[1], src[2], None if src[3] is None else "(SpCopy %s)" % src[3]))
            except Exception as e:  # noqa: BLE001
                ctx.violation("copy-of-constraint-raises", "Constraint(Constraint(%r)) raised %s" % (src[1], type(e).__name__), rp)
                objs.append((None,) + src[1:])
        elif st[0] == "call":
            c, ctor, intent, sp = objs[st[1] % len(objs)]
            if c is None:
                continue
            x = float(st[2])
            try:
                v = c(x)
            except Exception as e:  # noqa: BLE001
                ctx.violation("constraint-call-raises", "%r(%r) raised %s" % (ctor, x, type(e).__name__), rp)
                continue
            ctx.count()
            oracle_call(ctx, ctor, intent, x, v, rp=rp)
            if lits is not None and sp is not None and v == v and intent[0] != "fun":
                lits.append("KCall %s %s %s %s" % (sp, C.xq_lit(x), C.xq_lit(v), C.bool_lit(exact_call_flag(intent, x, v))))


def run_problem_sequence(ctx, n, steps, lits=None):
    """steps (JSON): ["decl", j, ctor, intent] (problem.constraints[j] = ...) | ["declall", ctor, intent] (problem.constraints[:] = one value)
    | ["decllist", [ctor..], [intent..]] (problem.constraints[:] = list) | ["eval", [repr(x)..]] (new Solution) | ["reeval", [repr(x)..]] (same Solution object again)
    on ONE Problem object with n constraints (initially the default "==0")."""
    from platypus import Problem, Solution, Real
    hold = {"xs": [0.0] * n}
    p = Problem(1, 1, n, function=lambda v: ([0.0], list(hold["xs"])))
    p.types[:] = Real(0, 1)
    ctors = [("str", "==0")] * n
    intents = [("==", 0.0)] * n
    last = None
    done = []
    for st in steps:
        done.append(st)
        rp = {"kind": "pseq", "n": n, "steps": [list(x) for x in done]}
        try:
            if st[0] == "decl":
                p.constraints[st[1]] = mk_arg(tuple(st[2]))
                ctors = list(ctors); intents = list(intents)
                ctors[st[1]] = tuple(st[2]); intents[st[1]] = _intent(st[3])
            elif st[0] == "declall":
                p.constraints[:] = mk_arg(tuple(st[1]))
                ctors = [tuple(st[1])] * n; intents = [_intent(st[2])] * n
            elif st[0] == "decllist":
                p.constraints[:] = [mk_arg(tuple(c)) for c in st[1]]
                ctors = [tuple(c) for c in st[1]]; intents = [_intent(i) for i in st[2]]
            else:
                xs = [float(x) for x in st[1]]
                hold["xs"] = xs
                if st[0] == "eval" or last is None:
                    last = Solution(p)
                    last.variables[:] = [0.5]
                else:
                    last.evaluated = False
                p(last)
                ctx.count()
                oracle_eval(ctx, ctors, intents, xs, last, p, rp=rp)
                cv = last.constraint_violation
                ex = exact_eval_flag(intents, xs, cv)
                if lits is not None and ex is not None and all(shippable(c) for c in ctors):
                    lits.append("KEval %s %s %s %s %s" % (C.list_lit([sp_lit(c) for c in ctors]), C.list_lit([C.xq_lit(x) for x in xs]), C.xq_lit(cv),
                                                        C.bool_lit(bool(last.feasible)), C.bool_lit(ex)))
        except Exception as e:  # noqa: BLE001
            ctx.violation("problem-sequence-raises", "step %r on a Problem with %d constraints raised %s: %s" % (st, n, type(e).__name__, e), rp)
            return


def oracle_reparse(ctx, op, value_repr, xs, lits=None, meta=None):
    """Constraint(op, value): the stored text c.op re-declared as a string, and the copy Constraint(c), must be the same constraint:
    same violation as c on every x, and zero exactly when  x op value  holds."""
    from platypus import Constraint
    value = tok_number(value_repr)
    ctor = ("pair", op, value_repr)
    rp = {"kind": "reparse", "op": op, "value": value_repr}
    c, err = declare(ctor)
    if c is None:
        ctx.violation("two-argument-form-rejected", "Constraint(%r, %s) raised %s" % (op, value_repr, err), rp)
        return
    y = float(value)
    intent = (op, y)
    text = getattr(c, "op", None)
    c2, err2 = declare(("ctor-str", text)) if isinstance(text, str) else (None, "op text is %r" % (text,))
    try:
        c3, err3 = Constraint(c), None
    except Exception as e:  # noqa: BLE001
        c3, err3 = None, type(e).__name__
    if c2 is None:
        ctx.violation("stored-text-does-not-reparse", "Constraint(%r, %s).op = %r, and Constraint(%r) raised %s" % (op, value_repr, text, text, err2), rp)
    if c3 is None:
        ctx.violation("copy-of-constraint-raises", "Constraint(Constraint(%r, %s)) raised %s" % (op, value_repr, err3), rp)
    if lits is not None and c2 is not None and shippable(("ctor-str", text)):
        i = op_index_of(c)
        yc = c.function.keywords.get("y") if hasattr(c.function, "keywords") else None
        if i is not None and isinstance(yc, float) and yc == yc and abs(yc) != INF:
            # the model parses the stored text (c11_pair_op_string_reparses); it must denote the object built by the two-argument form
            lits.append("KDecl %s (Some (%d, %s))" % (sp_lit(("ctor-str", text)), i, C.q_lit(yc)))
            if meta is not None:
                meta.append(("reparse", op, value_repr, text))
    for x in xs:
        rpx = dict(rp, x=repr(x))
        v = c(x)
        ctx.count()
        oracle_call(ctx, ctor, intent, x, v, rp=rpx)
        for name, cc in (("re-declared from its stored text %r" % (text,), c2), ("copied with Constraint(c)", c3)):
            if cc is None:
                continue
            w = cc(x)
            oracle_call(ctx, ("pair", op, value_repr, name), intent, x, w, rp=rpx)
            if w != v and not (w != w and v != v):
                ctx.violation("stored-text-reparses-to-different-constraint" if cc is c2 else "copy-differs-from-original",
                              "c = Constraint(%r, %s) gives c(%r) = %r, but the same constraint %s gives %r" % (op, value_repr, x, v, name, w), rpx)


# ----------------------------------------------------------------------------
# generators
# ----------------------------------------------------------------------------
def spellings(op, tok):
    """(name, ctor) for one operator and threshold token"""
    out = [("together", ("str", op + tok)), ("space", ("str", op + " " + tok)), ("blanks", ("ctor-str", op + " \t  " + tok)),
           ("pair", ("pair", op, tok)), ("copy", ("copy", op + " " + tok)), ("final-newline", ("ctor-str", op + tok + "\n"))]
    for name, (cop, cy) in CONSTS.items():
        if cop == op and float(tok) == 0.0 and not tok.startswith("-"):
            out.append(("constant", ("const", name)))
    return out


def values_for(y, rng):
    up, dn = math.nextafter(y, INF), math.nextafter(y, -INF)
    far = [y + 1.0, y - 1.0, y + 1024.5, y - 1e6, 0.0, -0.0, 1e300, -1e300, y + 0.25, y - 2.0 ** -20, y * 2, -y]
    return [y, up, dn, math.nextafter(up, INF), math.nextafter(dn, -INF), INF, -INF] + rng.sample(far, 4) + [math.ldexp(rng.randrange(-64, 65), rng.randrange(-8, 3))]


MALFORMED = ["", " ", "5", "0", "<=", "<", "==", "<= ", "<=\n", "=<5", "<<5", "=5", "!5", "<>5", "=>5", "===0", "<==5", "!==5", "><5", "<=5 ", "<= 5 6", " <=5", "\t<=5",
             "<=abc", "<=5x", "<=--5", "<=1e", "<=0x10", "<=1,5", "<=5<", "<=5=", "5<=", "x<=5", "<=5\n\n", "<=5 \n", "<= \n5 6", "le 5", "<=+", "<=.", "!=", ">= ", "= = 0", "< =5",
             "<=5;", "<=(5)", "<=5\t", "<=5\r", "<=\x005", "<=5\x00"]


def random_string(rng):
    alphabet = "<>=! \t\n05.e-+x1"
    return "".join(rng.choice(alphabet) for _ in range(rng.randrange(0, 8)))


def run(ctx):
    from platypus import Constraint, PlatypusError
    rng = ctx.rng
    imports = ["Base.Num", "Model.Constraint", "Harness.H11"]
    lits = []
    meta = []
    dist = {"calls": 0, "calls_exact_magnitude": 0, "calls_rounded": 0, "calls_infinite_value": 0, "evals": 0, "evals_exact_magnitude": 0, "evals_rounded": 0,
            "declarations_accepted": 0, "declarations_rejected": 0, "not_shipped_to_coq(non-latin1/inf/nan token)": 0, "spellings": {}, "operators": {}, "n_constraints": {}}

    # ---- 0. the class attributes the model transcribes (constants, operator table, default delta)
    from platypus import core
    for i, name in enumerate(["EQUALS_ZERO", "LEQ_ZERO", "GEQ_ZERO", "LESS_THAN_ZERO", "GREATER_THAN_ZERO"]):
        sconst = getattr(Constraint, name, None)
        if isinstance(sconst, str) and latin1(sconst):
            lits.append("KConst %d %s" % (i, cps(sconst)))
        else:
            lits.append("KConst %d [0]" % i)
        meta.append(("attr", name))
        ctx.count()
    funcs = [core._constraint_eq, core._constraint_leq, core._constraint_geq, core._constraint_neq, core._constraint_lt, core._constraint_gt]
    ents = []
    for key, f in Constraint.OPERATORS.items():
        idx = [j for j, g in enumerate(funcs) if g is f]
        ents.append("(%s, %d)" % (cps(key) if isinstance(key, str) and latin1(key) else "[0]", idx[0] if idx else -1))
    lits.append("KTable %s" % C.list_lit(ents)); meta.append(("attr", "OPERATORS")); ctx.count()
    dl = [(f.__defaults__ or (None,))[0] for f in (core._constraint_lt, core._constraint_gt)]
    if all(isinstance(d, float) and d == d and abs(d) != INF for d in dl):
        lits.append("KDelta %s %s" % (C.q_lit(dl[0]), C.q_lit(dl[1])))
    else:
        lits.append("KDelta (0 # 1) (0 # 1)")
    meta.append(("attr", "delta")); ctx.count()

    # ---- 1. declarations: every spelling of every (operator, threshold) + malformed stream + separator sweep
    decl = []
    for op in OPS:
        for tok in TOKENS:
            for name, ctor in spellings(op, tok):
                decl.append((ctor, True))
    for op in ("<=", ">"):
        for cp in range(256):                                  # every character below U+0100 as separator
            decl.append((("ctor-str", op + chr(cp) + "5"), None))
            if ctx.thorough or cp < 64 or cp in (133, 160):
                decl.append((("ctor-str", op + "5" + chr(cp)), None))
    for s in MALFORMED:
        decl.append((("ctor-str", s), False))
    for _ in range(ctx.scale(600, 8000)):
        decl.append((("ctor-str", random_string(rng)), None))
    for s in ["<= " + "5", "<=５", "<=5 ", "≤" + "5", "<=٥"]:      # beyond Latin-1: oracle only
        decl.append((("ctor-str", s), None))
    for o in ["=<", "<<", "=", "!", "", "le", "<= ", " <=", "=>", "<>"]:
        decl.append((("pair", o, "5"), False))
    for ctor, expect in decl:
        c, err = declare(ctor)
        ctx.count()
        if c is None:
            dist["declarations_rejected"] += 1
        else:
            dist["declarations_accepted"] += 1
        # oracle
        if ctor[0] in ("str", "ctor-str", "copy"):
            wf = oracle_wellformed(ctor[1])
            rp = {"kind": "decl", "ctor": list(ctor)}
            if wf is False and c is not None:
                ctx.violation("malformed-expression-accepted", "Constraint(%r) was accepted (as %r)" % (ctor[1], getattr(c.function, "keywords", None)), rp)
            elif wf is False and err != "PlatypusError":
                ctx.violation("malformed-expression-wrong-error", "Constraint(%r) raised %s instead of PlatypusError" % (ctor[1], err), rp)
            elif wf is True and c is None:
                ctx.violation("well-formed-expression-rejected", "Constraint(%r) raised %s" % (ctor[1], err), rp)
        elif ctor[0] == "pair":
            if (ctor[1] in OPS) != (c is not None):
                ctx.violation("two-argument-form-" + ("rejected" if c is None else "accepted-unknown-operator"), "Constraint(%r, %s): %s" % (ctor[1], ctor[2], err or "accepted"),
                              {"kind": "decl", "ctor": list(ctor)})
        if not shippable(ctor):
            dist["not_shipped_to_coq(non-latin1/inf/nan token)"] += 1
            continue
        if c is None:
            impl = "None"
        else:
            i = op_index_of(c)
            y = c.function.keywords.get("y") if hasattr(c.function, "keywords") else None
            if i is None or y is None or y != y or abs(y) == INF:
                dist["not_shipped_to_coq(non-latin1/inf/nan token)"] += 1
                continue
            impl = "(Some (%d, %s))" % (i, C.q_lit(y))
            if ctor[0] != "str" or " " in ctor[1]:
                ctx.mark(("decl", ctor))
        lits.append("KDecl %s %s" % (sp_lit(ctor), impl))
        meta.append(("decl", ctor))
    ctx.sample({"declaration": "Constraint('<= \\t  1e-3')", "coq_case": next(l for l in lits if "SpStr [60; 61; 32; 9; 32; 32; 49; 101; 45; 51]" in l)})

    # ---- 2. single calls: operator x threshold x value x spelling
    for op in OPS:
        for ti, tok in enumerate(TOKENS):
            y = float(tok)
            sps = spellings(op, tok)
            objs = {}
            xs = values_for(y, rng)
            for vi, x in enumerate(xs):
                chosen = sps if ctx.thorough else [sps[(vi + j + ti) % len(sps)] for j in range(3)]
                if not ctx.thorough and vi < 3:
                    chosen = sps                                # the threshold and its two neighbours: every spelling
                for name, ctor in chosen:
                    if name not in objs:
                        objs[name] = declare(ctor)[0]
                    c = objs[name]
                    if c is None:
                        continue                                # reported by part 1
                    v = c(x)
                    ctx.count()
                    dist["calls"] += 1
                    dist["spellings"][name] = dist["spellings"].get(name, 0) + 1
                    dist["operators"][op] = dist["operators"].get(op, 0) + 1
                    intent = (op, y)
                    oracle_call(ctx, ctor, intent, x, v)
                    ev = exact_viol(intent, x)
                    if ev is None:
                        exact = True                            # infinite value: 0 or inf, compared structurally
                        dist["calls_infinite_value"] += 1
                    else:
                        exact = (v == v and abs(v) != INF and Fraction(v) == ev)
                        dist["calls_exact_magnitude" if exact else "calls_rounded"] += 1
                    if v != v:
                        continue
                    if abs(x - y) <= 2 * abs(math.nextafter(y, INF) - y) or abs(x) == INF:
                        ctx.mark(("call", op, tok, name, repr(x)))
                    lits.append("KCall %s %s %s %s" % (sp_lit(ctor), C.xq_lit(x), C.xq_lit(v), C.bool_lit(exact)))
                    meta.append(("call", ctor, intent, x))
            for name, ctor in sps[:2]:
                if objs.get(name) is not None:
                    oracle_monotone(ctx, ctor, (op, y), objs[name], [x for x in xs] + [y + k * 0.5 for k in range(-6, 7)])
    # callables: the signed value is returned as is
    for k in range(len(FUNS)):
        c = declare(("fun", k))[0]
        for x in (-2.5, -0.0, 0.0, 1.0, 3.0):
            v = c(x)
            ctx.count()
            lits.append("KCall (SpFun %d) %s %s true" % (k, C.xq_lit(x), C.xq_lit(v)))
            meta.append(("call", ("fun", k), ("fun", k), x))
    ctx.sample({"call": "Constraint('<', 5)(nextafter(5, -inf))", "coq_case": next((l for l in lits if l.startswith("KCall (SpPair [60] (dy 5 0)) (F 5629499534213119")), lits[-30])})

    # ---- 3. Problem.__call__: 1-4 constraints per solution
    nev = ctx.scale(1200, 15000)
    pool = [(op, tok) for op in OPS for tok in TOKENS]
    beats_done = 0
    for it in range(nev):
        n = rng.randrange(1, 5)
        ctors, intents, xs = [], [], []
        mode = rng.random()
        for _ in range(n):
            if rng.random() < 0.12:
                k = rng.randrange(len(FUNS))
                ctors.append(("fun", k)); intents.append(("fun", k))
                xs.append(rng.choice([0.0, 1.0, -1.0, 2.5, -0.75, 1.0 + 2.0 ** -30]))
                continue
            op, tok = rng.choice(pool)
            y = float(tok)
            name, ctor = rng.choice(spellings(op, tok))
            ctors.append(ctor); intents.append((op, y))
            cand = values_for(y, rng)
            if mode < 0.35:                                      # mostly satisfied
                good = [x for x in cand if PY_REL[op](x, y)]
                xs.append(rng.choice(good or cand))
            elif mode < 0.5:                                     # dyadic neighbourhood: exact arithmetic likely
                xs.append(y + math.ldexp(rng.randrange(-16, 17), rng.randrange(-6, 2)) if abs(y) < 1e6 else rng.choice(cand))
            else:
                xs.append(rng.choice(cand))
        try:
            s, p = evaluate(ctors, xs)
        except Exception as e:  # noqa: BLE001
            ctx.violation("evaluation-raises", "Problem.__call__ with constraints %r on %r raised %s" % (ctors, xs, type(e).__name__),
                          {"kind": "eval", "ctors": [list(c) for c in ctors], "intents": [[i[0], repr(i[1])] for i in intents], "xs": [repr(x) for x in xs]})
            continue
        ctx.count()
        dist["evals"] += 1
        dist["n_constraints"][n] = dist["n_constraints"].get(n, 0) + 1
        oracle_eval(ctx, ctors, intents, xs, s, p)
        cv = s.constraint_violation
        if cv != cv:
            continue
        if any(i[0] == "fun" and abs(x) == INF for i, x in zip(intents, xs)):
            continue
        # exact rational total: an infinite value contributes 0 when its relation holds, otherwise the total is +inf
        evs = [(Fraction(0) if sat(i, x) else None) if abs(x) == INF else exact_viol(i, x) for i, x in zip(intents, xs)]
        if any(v is None for v in evs):
            exact = True                                        # +inf expected: compared structurally
            dist["evals_infinite_total"] = dist.get("evals_infinite_total", 0) + 1
        else:
            exact = abs(cv) != INF and Fraction(cv) == sum(evs)
            dist["evals_exact_magnitude" if exact else "evals_rounded"] += 1
        nsat = sum(1 for i, x in zip(intents, xs) if sat(i, x))
        if n >= 2 and 0 < nsat:
            ctx.mark(("eval", tuple(ctors), tuple(repr(x) for x in xs)))
        lits.append("KEval %s %s %s %s %s" % (C.list_lit([sp_lit(c) for c in ctors]), C.list_lit([C.xq_lit(x) for x in xs]), C.xq_lit(cv), C.bool_lit(bool(s.feasible)), C.bool_lit(exact)))
        meta.append(("eval", ctors, intents, xs))
        # feasible beats infeasible: pair this solution with a variant on the other side
        if it % 3 == 0 and all(i[0] != "fun" for i in intents):
            xs_f = []
            for (op, y), x in zip(intents, xs):
                good = [v for v in values_for(y, rng) if PY_REL[op](v, y) and abs(v) != INF]
                xs_f.append(x if PY_REL[op](x, y) else (good[0] if good else x))
            xs_i = list(xs) if not s.feasible else None
            if xs_i is None:
                j = rng.randrange(n)
                bad = [v for v in values_for(intents[j][1], rng) if not PY_REL[intents[j][0]](v, intents[j][1])]
                if bad:
                    xs_i = list(xs); xs_i[j] = rng.choice(bad)
            if xs_i is not None:
                m = rng.randrange(1, 4)
                o1 = [rng.choice([0.0, 1.0, 5.0, -3.0, 1e9]) for _ in range(m)]
                o2 = [rng.choice([0.0, 1.0, 5.0, -3.0, -1e9]) for _ in range(m)]
                if rng.random() < 0.5:
                    o1 = [v + 10 for v in o2]                   # the feasible one is worse in every objective
                if oracle_beats(ctx, ctors, xs_f, xs_i, o1, o2):
                    beats_done += 1
                    ctx.count()
    dist["feasible_vs_infeasible_pairs(Pareto+Epsilon dominance)"] = beats_done
    ctx.sample({"evaluate": {"constraints": [list(c) for c in meta[-1][1]], "values": [repr(x) for x in meta[-1][3]]}, "coq_case": lits[-1][:600]})

    # ---- 3a. huge penalty values: finite individual violations whose SUM overflows -> total +inf, infeasible, no exception
    big_specs = [(("str", "==0"), ("==", 0.0), [FMAX, -FMAX, 1e308, -1e308, 9e307, 8e307]),
                 (("str", "<=0"), ("<=", 0.0), [FMAX, 1e308, 9e307, 8e307]),
                 (("str", ">= 0"), (">=", 0.0), [-FMAX, -1e308, -9e307]),
                 (("pair", "<", "1e300"), ("<", 1e300), [FMAX, 1e308, 9e307]),
                 (("const", "GREATER_THAN_ZERO"), (">", 0.0), [-FMAX, -1e308, -8e307]),
                 (("fun", 0), ("fun", 0), [FMAX, -FMAX, 1e308, 9e307]),
                 (("fun", 1), ("fun", 1), [FMAX, -1e308, 8e307]),
                 (("str", "<=-1e308"), ("<=", -1e308), [7e307, 1e307]),
                 (("str", "!=5"), ("!=", 5.0), [5.0, 6.0])]
    small_specs = [(("str", "<=5"), ("<=", 5.0), [4.0, 5.0, 7.5]), (("str", "==0.5"), ("==", 0.5), [0.5, 0.25]), (("fun", 2), ("fun", 2), [3.0])]
    nover = nfin = 0
    for it in range(ctx.scale(160, 1500)):
        n = rng.randrange(2, 5)
        nbig = rng.randrange(2, n + 1)
        picks = [rng.choice(big_specs) for _ in range(nbig)] + [rng.choice(small_specs) for _ in range(n - nbig)]
        rng.shuffle(picks)
        ctors = [pk[0] for pk in picks]; intents = [pk[1] for pk in picks]; xs = [rng.choice(pk[2]) for pk in picks]
        rp = {"kind": "eval", "ctors": [list(c) for c in ctors], "intents": [jintent(i) for i in intents], "xs": [repr(x) for x in xs]}
        try:
            s, p = evaluate(ctors, xs)
        except Exception as e:  # noqa: BLE001
            ctx.violation("evaluation-raises", "Problem.__call__ with constraints %r on values %r raised %s: %s (the individual violations are finite; their sum must be +inf)"
                          % (ctors, xs, type(e).__name__, e), rp)
            continue
        ctx.count()
        oracle_eval(ctx, ctors, intents, xs, s, p)
        cv = s.constraint_violation
        evs = [exact_viol(i, x) for i, x in zip(intents, xs)]
        if sum(evs) >= OVERFLOW:
            nover += 1
            ctx.mark(("overflow", tuple(ctors), tuple(repr(x) for x in xs)))
            if cv != INF or s.feasible:
                ctx.violation("overflowing-total-not-infinite", "constraints %r on values %r: finite violations %r sum beyond the largest double, but constraint_violation=%r feasible=%r"
                              % (ctors, xs, [float(v) for v in evs], cv, s.feasible), rp)
        else:
            nfin += 1
        ex = exact_eval_flag(intents, xs, cv)
        if ex is not None:
            lits.append("KEval %s %s %s %s %s" % (C.list_lit([sp_lit(c) for c in ctors]), C.list_lit([C.xq_lit(x) for x in xs]), C.xq_lit(cv), C.bool_lit(bool(s.feasible)), C.bool_lit(ex)))
            meta.append(("eval", ctors, intents, xs))
    dist["huge_penalty_evaluations"] = {"sum_overflows_to_inf": nover, "huge_but_finite_sum": nfin}
    ctx.sample({"overflow": "constraints ==0, ==0 on values 1.7976931348623157e308, 1e308: total +inf, infeasible, no exception", "coq_case": lits[-1][:400]})

    # ---- 3b. two-argument form: the stored text c.op and the copy Constraint(c) denote the same constraint
    nre = 0
    for op in OPS:
        for vr in PAIR_VALUES:
            y = float(tok_number(vr))
            xs = values_for(y, rng)
            oracle_reparse(ctx, op, vr, xs if ctx.thorough else xs[:7] + xs[-3:], lits, meta)
            nre += 1
            ctx.mark(("reparse", op, vr))
    dist["two_argument_declarations_reparsed_from_stored_text"] = nre
    ctx.sample({"reparse": "c = Constraint('<=', 1234567.0); Constraint(c.op) and Constraint(c) compared with c on the threshold, its float neighbours, +-inf, far values",
                "coq_case": next((l for l in reversed(lits) if l.startswith("KDecl")), "")[:300]})

    # ---- 4. operation sequences: live objects called in interleaved order, one Problem re-declared in place
    nbefore = len(lits)
    seq_calls = 0
    for _ in range(ctx.scale(12, 80)):
        steps = []
        chosen = [rng.choice(pool) for _ in range(rng.randrange(3, 7))]
        xpool = [0.0, -0.0, 1.0]
        for op, tok in chosen:
            y = float(tok)
            name, ctor = rng.choice(spellings(op, tok))
            steps.append(["new", list(ctor), jintent((op, y))])
            xpool += [y, math.nextafter(y, INF), math.nextafter(y, -INF), y + 0.5, y - 0.5]
        nobj = len(chosen)
        for _k in range(rng.randrange(1, 4)):
            steps.append(["copy", rng.randrange(nobj)]); nobj += 1
        for _k in range(ctx.scale(60, 120)):
            if rng.random() < 0.6:
                x = rng.choice(xpool)
                for i in rng.sample(range(nobj), min(nobj, 3)):      # the SAME value handed to different objects back to back
                    steps.append(["call", i, repr(x)]); seq_calls += 1
            else:
                steps.append(["call", rng.randrange(nobj), repr(rng.choice(xpool))]); seq_calls += 1
        run_object_sequence(ctx, steps, lits)
        ctx.mark(("oseq", tuple(tuple(c) for c in chosen), len(steps)))
    seq_evals = 0
    nps = ctx.scale(25, 200)
    for _ in range(nps):
        n = rng.randrange(1, 5)
        steps = []
        cur = [("==", 0.0)] * n
        for _k in range(ctx.scale(10, 16)):
            r = rng.random()
            if r < 0.3:
                op, tok = rng.choice(pool); name, ctor = rng.choice(spellings(op, tok)); j = rng.randrange(n)
                steps.append(["decl", j, list(ctor), jintent((op, float(tok)))]); cur = list(cur); cur[j] = (op, float(tok))
            elif r < 0.4:
                op, tok = rng.choice(pool); name, ctor = rng.choice(spellings(op, tok))
                steps.append(["declall", list(ctor), jintent((op, float(tok)))]); cur = [(op, float(tok))] * n
            elif r < 0.5 and n >= 2:
                picks = [rng.choice(pool) for _j in range(n)]
                cts = [rng.choice(spellings(op, tok))[1] for op, tok in picks]
                steps.append(["decllist", [list(c) for c in cts], [jintent((op, float(tok))) for op, tok in picks]]); cur = [(op, float(tok)) for op, tok in picks]
            else:
                xs = []
                for op, y in cur:
                    cand = [v for v in values_for(y, rng)]
                    good = [v for v in cand if PY_REL[op](v, y)]
                    xs.append(rng.choice(good) if good and rng.random() < 0.5 else rng.choice(cand))
                steps.append([rng.choice(["eval", "eval", "reeval"]), [repr(x) for x in xs]]); seq_evals += 1
        run_problem_sequence(ctx, n, steps, lits)
        ctx.mark(("pseq", n, json_key(steps)))
    dist["sequences"] = {"object_sequences": ctx.scale(12, 80), "calls_in_object_sequences": seq_calls, "problem_sequences": nps,
                         "evaluations_in_problem_sequences": seq_evals, "cases_shipped_to_coq": len(lits) - nbefore,
                         "what": "live Constraint objects + copies of them, the same value handed to different objects back to back; one Problem object: constraints[j]=, "
                                 "constraints[:]=value, constraints[:]=list, evaluation of new and of the same Solution object after each re-declaration"}
    for _m in range(len(lits) - nbefore):
        meta.append(("seq",))
    ctx.sample({"problem_sequence_steps": steps[:4]})

    ctx.coverage["input_distribution"] = dist
    ctx.coverage["correspondence_cases"] = len(lits)
    ctx.rule = ("declarations: 6 operators x %d threshold tokens (negative, -0.0, 0, fractions, scientific notation, 1e300, 1e-300) x 6-7 spellings (together, one space, blanks+tab, "
                "two-argument, copy, final newline, predefined constant), every character < U+0100 as separator, %d fixed malformed strings, random strings over '<>=! \\t\\n05.e-+x1', "
                "bad two-argument operators; calls: each (operator, threshold) on the threshold, 2 floats above/below, +-inf, far and dyadic values; evaluations: random 1-4 "
                "constraints (incl. callables) through Problem.__call__; every two-argument declaration (6 operators x %d numbers incl. 7+ significant digits, 5e-324, 1e300, "
                "ints above 2^53) re-declared from its stored text c.op and copied with Constraint(c), compared with c on threshold/neighbours/far values; operation sequences on live Constraint objects/copies and on one Problem object re-declared in place.  non-trivial & distinct = accepted declarations other than the plain 'op+number' string, calls whose value is "
                "within 2 ulp of the threshold or infinite, evaluations with >= 2 constraints of which at least one is satisfied; each counted once by its full input"
                % (len(TOKENS), len(MALFORMED), len(PAIR_VALUES)))

    bad = C.run_coq_cases(ctx, "cases", imports, "c11case", "c11_check", lits, shard=ctx.scale(350, 800))
    if bad is not None:
        kinds = {}
        for i in bad:
            kinds[meta[i][0]] = kinds.get(meta[i][0], 0) + 1
        ctx.obligation("correspondence:Constraint/Problem.__call__(%d cases)" % len(lits), "correspondence", not bad,
                       "model and implementation differ on %d cases %r; first: %s" % (len(bad), kinds, lits[bad[0]][:500] if bad else ""))
        ctx.coverage["correspondence_mismatches"] = len(bad)
        # search around the disagreeing inputs with the oracle
        for i in bad[:12]:
            m = meta[i]
            ctx.sample({"model_impl_disagree": lits[i] if len(lits[i]) < 700 else lits[i][:300] + " ... " + lits[i][-350:]}, limit=12)
            if m[0] == "call" and m[2][0] != "fun":
                ctor, intent, x = m[1], m[2], m[3]
                c = declare(ctor)[0]
                if c is not None:
                    near = [x, math.nextafter(x, INF), math.nextafter(x, -INF), intent[1], math.nextafter(intent[1], INF), math.nextafter(intent[1], -INF), x + 1, x - 1]
                    for xx in near:
                        oracle_call(ctx, ctor, intent, xx, c(xx))
                    oracle_monotone(ctx, ctor, intent, c, near + [intent[1] + k * 0.5 for k in range(-6, 7)])
            elif m[0] == "eval":
                ctors, intents, xs = m[1], m[2], m[3]
                for j in range(len(xs)):
                    for xx in (math.nextafter(xs[j], INF), math.nextafter(xs[j], -INF)):
                        if intents[j][0] == "fun" or abs(xx) == INF:
                            continue
                        xs2 = list(xs); xs2[j] = xx
                        try:
                            s2, p2 = evaluate(ctors, xs2)
                            oracle_eval(ctx, ctors, intents, xs2, s2, p2)
                        except Exception:  # noqa: BLE001
                            pass


def _intent(j):
    return ("fun", int(j[1])) if j[0] == "fun" else (j[0], float(j[1]))


def replay(ctx, data):
    rp = data.get("replay", {})
    kind = rp.get("kind")
    ctx.count()
    if kind == "call":
        ctor = tuple(rp["ctor"]); intent = _intent(rp["intent"]); x = float(rp["x"])
        c, err = declare(ctor)
        if c is None:
            ctx.violation(data.get("key", "replay"), "replay: declaration raised %s" % err, rp)
        else:
            oracle_call(ctx, ctor, intent, x, c(x))
    elif kind == "mono":
        ctor = tuple(rp["ctor"]); intent = _intent(rp["intent"])
        c, err = declare(ctor)
        if c is not None:
            oracle_monotone(ctx, ctor, intent, c, [float(v) for v in rp["xs"]])
    elif kind == "eval":
        ctors = [tuple(c) for c in rp["ctors"]]; intents = [_intent(i) for i in rp["intents"]]; xs = [float(v) for v in rp["xs"]]
        try:
            s, p = evaluate(ctors, xs)
            oracle_eval(ctx, ctors, intents, xs, s, p)
        except Exception as e:  # noqa: BLE001
            ctx.violation(data.get("key", "replay"), "replay: evaluation raised %s" % type(e).__name__, rp)
    elif kind == "beats":
        ctors = [tuple(c) for c in rp["ctors"]]
        oracle_beats(ctx, ctors, [float(v) for v in rp["xs_feasible"]], [float(v) for v in rp["xs_infeasible"]],
                     [float(v) for v in rp["objs"][0]], [float(v) for v in rp["objs"][1]])
    elif kind == "reparse":
        y = float(tok_number(rp["value"]))
        xs = [float(rp["x"])] if "x" in rp else values_for(y, ctx.rng)
        oracle_reparse(ctx, rp["op"], rp["value"], xs)
    elif kind == "oseq":
        run_object_sequence(ctx, rp["steps"], None)
    elif kind == "pseq":
        run_problem_sequence(ctx, rp["n"], rp["steps"], None)
    elif kind == "decl":
        ctor = tuple(rp["ctor"])
        c, err = declare(ctor)
        if ctor[0] == "pair":
            if (ctor[1] in OPS) != (c is not None):
                ctx.violation(data.get("key", "replay"), "replay: Constraint(%r, %s): %s" % (ctor[1], ctor[2], err or "accepted"), rp)
        else:
            wf = oracle_wellformed(ctor[1])
            if (wf is False and (c is not None or err != "PlatypusError")) or (wf is True and c is None):
                ctx.violation(data.get("key", "replay"), "replay: Constraint(%r): %s" % (ctor[1], err or "accepted"), rp)
    else:
        run(ctx)
