"""C12 helper: module-level (hence picklable) jobs, problems, algorithms and scripted pools used to
drive the REAL Platypus evaluators.  Nothing here re-implements Platypus code."""
import threading
import time
from concurrent.futures import Future

from platypus import Algorithm, NSGAII, Problem, Real, Solution
from platypus.evaluator import Job

UNIT = 0.002          # seconds; one unit of adversarial delay

_LOCK = threading.Lock()
COMPLETION_LOG = []   # (batch token, x) in completion order — same-process pools only


def job_value(x):
    """the 'result' of job x (H12.hjob)"""
    return 3 * x + 1


class DelayJob(Job):
    """job number x sleeps `delay` seconds, then stores its value and the time it finished"""

    def __init__(self, x, delay=0.0, token=None):
        super().__init__()
        self.x = x
        self.delay = delay
        self.token = token
        self.value = None
        self.t_done = None
        self.runs = 0

    def run(self):
        with _LOCK:
            self.runs += 1
        if self.delay:
            time.sleep(self.delay)
        self.value = job_value(self.x)
        self.t_done = time.monotonic()
        with _LOCK:
            COMPLETION_LOG.append((self.token, self.x))


class ValueJob(DelayJob):
    """a job with value-based equality: two requests for the same x compare and hash equal"""

    def __eq__(self, other):
        return isinstance(other, ValueJob) and other.x == self.x

    def __hash__(self):
        return hash(("ValueJob", self.x))


class OneShot:
    """a custom one-shot iterable: no len(), no indexing, can be walked exactly once"""

    def __init__(self, items):
        self._it = iter(list(items))

    def __iter__(self):
        return self

    def __next__(self):
        return next(self._it)


FORMS = ("list", "tuple", "iter", "genexpr", "oneshot")


def shape(form, items):
    """the batch in one of the iterable forms the evaluators' API accepts"""
    if form == "list":
        return list(items)
    if form == "tuple":
        return tuple(items)
    if form == "iter":
        return iter(list(items))
    if form == "genexpr":
        return (x for x in list(items))
    if form == "oneshot":
        return OneShot(items)
    raise ValueError(form)


# ---- a pool whose completion order is scripted ------------------------------------------------------
class ScriptedPool:
    """submit()/apply_async() hand out real concurrent.futures.Future objects; once `expect` jobs have
    been submitted a helper thread runs them and completes their futures in exactly the order `order`
    (a permutation of range(expect)) — e.g. later jobs first."""

    def __init__(self, expect, order):
        self.expect = expect
        self.order = list(order)
        self.items = []
        self.completed = []
        self.thread = None
        self.lock = threading.Lock()

    def _maybe_start(self):
        if len(self.items) == self.expect and self.thread is None:
            self.thread = threading.Thread(target=self._complete, daemon=True)
            self.thread.start()

    def _complete(self):
        for i in self.order:
            fn, args, fut = self.items[i]
            try:
                r = fn(*args)
            except BaseException as e:  # noqa
                fut.set_exception(e)
            else:
                self.completed.append(i)
                fut.set_result(r)
            time.sleep(0.0005)      # let a waiting evaluator observe the completion before the next one

    def submit(self, fn, *args):
        fut = Future()
        with self.lock:
            self.items.append((fn, args, fut))
            self._maybe_start()
        return fut

    def apply_async(self, fn, args=()):
        fut = self.submit(fn, *args)
        return _AsyncResult(fut)

    def join(self):
        if self.thread is not None:
            self.thread.join(30)


class _AsyncResult:
    def __init__(self, fut):
        self.fut = fut

    def get(self, timeout=None):
        return self.fut.result(timeout)


# ---- problems ------------------------------------------------------------------------------------------
def prob_fn(v):
    """objectives (and one constraint) of a variable vector; integer valued on integer inputs"""
    return [v[0] + 2 * v[1], v[0] - v[1]], [v[0] - 5]


def prob_fn_slow(v):
    """same values; solutions with a larger second variable take longer, so that listing them in
    decreasing order of v[1] makes later jobs finish first"""
    time.sleep(UNIT * max(0.0, v[1]))
    return prob_fn(v)


def expected_fields(v):
    objs, cons = prob_fn(v)
    viol = max(0.0, float(cons[0]))          # constraint "<=0"
    return [float(o) for o in objs], [float(c) for c in cons], viol


def make_problem(slow=False):
    p = Problem(2, 2, 1, function=prob_fn_slow if slow else prob_fn)
    p.types[:] = Real(-1000, 1000)
    p.constraints[:] = "<=0"
    return p


def make_solution(problem, v, evaluated_marker=None):
    s = Solution(problem)
    s.variables[:] = [float(x) for x in v]
    if evaluated_marker is not None:      # pretend it was evaluated earlier, with recognisable objectives
        s.objectives[:] = [float(evaluated_marker), float(evaluated_marker)]
        s.constraints[:] = [0.0]
        s.constraint_violation = 0.0
        s.feasible = True
        s.evaluated = True
    return s


class NullAlgorithm(Algorithm):
    """only there to call the inherited Algorithm.evaluate_all"""

    def step(self):
        pass


# ---- experiment(): algorithms and problems that can tell which replicate they are ------------------
class ProbA(Problem):
    def __init__(self):
        super().__init__(2, 2)
        self.types[:] = Real(0, 8)

    def evaluate(self, solution):
        v = solution.variables
        solution.objectives[:] = [v[0] + v[1], 16 - v[0] - v[1]]


class ProbB(Problem):
    def __init__(self):
        super().__init__(2, 2)
        self.types[:] = Real(0, 8)

    def evaluate(self, solution):
        v = solution.variables
        solution.objectives[:] = [v[0] * v[1], 64 - v[0] * v[1]]


CONSTRUCTED = {}      # (algorithm label, problem class name, configuration) -> instances so far (parent process)
SLOW_FIRST = {"on": True}


def reset_construction_counter():
    CONSTRUCTED.clear()


class TaggedResult(list):
    """the algorithm's result, remembering who produced it:
    tag = (algorithm label, problem class, k, configuration) where configuration is the constructor argument
    that experiment() passes through kwargs (batch / population_size) and k counts the instances of that
    algorithm with that configuration on that problem in construction order, i.e. the replicate/seed"""
    tag = None


def _next_tag(label, problem, config):
    key = (label, problem.__class__.__name__, config)
    k = CONSTRUCTED.get(key, 0)
    CONSTRUCTED[key] = k + 1
    return (label, problem.__class__.__name__, k, config)


class TagAlg(Algorithm):
    """a batch-evaluations-per-step random search; earlier replicates are slower"""
    label = "TagAlg"
    default_config = 1

    def __init__(self, problem, batch=1, **kwargs):
        super().__init__(problem, **kwargs)
        self.batch = batch
        self.tag = _next_tag(self.label, problem, batch)
        self.result = None

    def step(self):
        from platypus import RandomGenerator
        if SLOW_FIRST["on"] and self.nfe == 0:
            time.sleep(UNIT * 2 * max(0, 3 - self.tag[2]))
        sols = [RandomGenerator().generate(self.problem) for _ in range(max(1, self.batch))]
        self.evaluate_all(sols)
        r = TaggedResult(sols)
        r.tag = self.tag
        self.result = r


class TagAlg2(TagAlg):
    label = "TagAlg2"


class TagNSGAII(NSGAII):
    """the real NSGA-II; only its result is wrapped so that the replicate and population size can be recognised"""
    label = "TagNSGAII"
    default_config = 8

    def __init__(self, problem, population_size=8, **kwargs):
        super().__init__(problem, population_size=population_size, **kwargs)
        self.tag = _next_tag(self.label, problem, population_size)

    def step(self):
        if SLOW_FIRST["on"] and self.nfe == 0:
            time.sleep(UNIT * 2 * max(0, 3 - self.tag[2]))
        super().step()
        r = TaggedResult(self.result)
        r.tag = (self.tag[0], self.tag[1], self.tag[2], len(self.population))
        self.result = r
