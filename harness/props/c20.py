"""C20 — linear solver (lsolve) and symmetric eigendecomposition (tred2 + tql2 as CMA-ES uses them)."""
import inspect
import math
import sys
import types
from fractions import Fraction as Fr

from vlib import common as C

ID = "C20"
PROPS_FILE = "Props/C20.v"
COQ_TARGETS = ["Harness/H20.vo"]
ALLOWED_AXIOMS = []
# second tie (translator): coq/Gen/Core.v is regenerated from the source text of C.REPO on every run and
# coq/Tie/T20.v proves generated lsolve = Model/LSolve.v on well-formed systems (harness/translate/py2coq_core.py)
EXTRA_PROPS = ["Tie/T20.v"]


def prebuild(ctx):
    import os
    import sys
    sys.path.insert(0, os.path.join(C.VERIF, "harness", "translate"))
    import py2coq_core
    py2coq_core.prebuild(ctx, C, ["lsolve"])


META = {
    "level_text": "PARTIAL. Machine-checked (Coq, exact arithmetic over Q) for the literal model of lsolve: a returned x satisfies A x = b for the original "
                  "A and b and is the unique solution; any matrix with a non-zero kernel vector is reported Singular for every threshold >= 0; with threshold 0 "
                  "Singular is reported exactly for singular matrices; the ZeroDivisionError branches are dead; and for the ordering phase of tql2: eigenvalues "
                  "ascending and one common permutation of eigenvalues and eigenvector columns. The same Gallina lsolve instantiated at binary64 and a PrimFloat "
                  "transliteration of tred2/tql2/hypot are tied to /repo BIT FOR BIT on every run (vm_compute, no tolerance); exact correspondence of the Q model "
                  "on systems whose float run is exact; an exact residual checker inside Coq accepts the float model on a fixed family (dimensions 1-12) and on "
                  "every generated matrix; an independent exact-arithmetic oracle checks residuals, orthonormality, ordering and SingularError on the real code.",
    "level_note": "Tie/T20.v also states soundness and the singular case about the lsolve GENERATED from the source text, over exact rationals (tie_c20_generated_*). NOT proved: that Householder tridiagonalisation + implicit QL in floating point converge and return Q, d with Q diag(d) Q^T = C and Q^T Q = I "
                  "(convergence/accuracy of the float iteration is out of reach here) - that clause of the property is only TESTED (bit-exact float model + exact "
                  "residuals in Coq on a fixed family and on generated matrices, exact oracle on the real code); c20_eig_decomposition_partial proves only the "
                  "ordering/consistency part. The lsolve theorems are about exact rational arithmetic: rounding is not modelled, so 'to working precision relative "
                  "to the conditioning' is tested (backward error <= 2^-40), not proved, and exact singularity is NOT decided by the float code: singular integer "
                  "matrices whose elimination rounds leave a pivot above the absolute threshold 2^-52 and a result is returned (KNOWN finding "
                  "lsolve-singular-integer-roundoff-returns-result, e.g. [[3,0,-2],[2,2,1],[-1,2,3]]). Trusted: Coq kernel + VM incl. its primitive float "
                  "operations (used for model EXECUTION only; no theorem depends on a float axiom: all theorems closed under the global context); CPython's "
                  "+ - * / sqrt abs being correctly rounded binary64; libm pow(x,2.0) (used by `d[k]**2` in tred2, NOT correctly rounded) is treated as an opaque "
                  "function whose values are captured by tracing the real run (sys.settrace) and handed to the model; the harness. The QL loop has no iteration "
                  "bound in the code; the model gives up after 400 sweeps per eigenvalue (never reached).",
    "technique": "Coq proof over Q of a generic literal model + bit-exact PrimFloat instance/transliteration checked against CPython (vm_compute) + exact residual checker in Coq + exact-arithmetic oracle",
}

TOL = Fr(1, 2 ** 40)
# the exact-Q model is evaluated unreduced (Q without Qred: the proven function itself), whose numerators grow
# geometrically with the dimension; the float instance of the same code covers dimensions up to 12
QDIM = 8
KNOWN_KEY = "lsolve-singular-integer-roundoff-returns-result"
HARD_SING_KEY = "lsolve-singular-exact-returns-result"
REF_RAISES_KEY = "lsolve-singular-returns-result-where-pinned-algorithm-raises"
REF_RETURNS_KEY = "lsolve-singularerror-where-pinned-algorithm-returns-result"


# ----------------------------------------------------------------------------
# literals
# ----------------------------------------------------------------------------
def flit(x):
    x = float(x)
    if x != x:
        return "fnan"
    if x == math.inf:
        return "fpinf"
    if x == -math.inf:
        return "fninf"
    if x == 0.0:
        return "fnz" if math.copysign(1.0, x) < 0 else "(fl 0 0)"
    m, e = C.float_parts(x)
    return "(fl %s %s)" % (C.z_lit(m), C.z_lit(e))


def vlit(v):
    return C.list_lit([flit(x) for x in v])


def mlit(M):
    return C.list_lit([vlit(r) for r in M])


def qvlit(v):
    return C.list_lit([C.q_lit(x) for x in v])


def qmlit(M):
    return C.list_lit([qvlit(r) for r in M])


def hexm(M):
    return [[float(x).hex() for x in r] for r in M]


def unhexm(M):
    return [[float.fromhex(x) for x in r] for r in M]


# ----------------------------------------------------------------------------
# exact arithmetic helpers for the oracle (independent of the model)
# ----------------------------------------------------------------------------
def frm(M):
    return [[Fr(x) for x in r] for r in M]


def finite(xs):
    return all(isinstance(x, float) and x == x and abs(x) != math.inf for x in xs)


def norm_inf_rows(rows):
    return max([sum(abs(v) for v in r) for r in rows] + [Fr(0)])


def exact_pivots(A):
    """|pivots| of exact Gaussian elimination with partial pivoting (oracle's own elimination), None if singular"""
    M = frm(A)
    n = len(M)
    piv = []
    for p in range(n):
        q = max(range(p, n), key=lambda i: abs(M[i][p]))
        if M[q][p] == 0:
            return None
        M[p], M[q] = M[q], M[p]
        piv.append(abs(M[p][p]))
        for i in range(p + 1, n):
            a = M[i][p] / M[p][p]
            if a:
                for j in range(p, n):
                    M[i][j] -= a * M[p][j]
    return piv


def exact_solve(A, b):
    n = len(A)
    M = [[Fr(x) for x in r] + [Fr(b[i])] for i, r in enumerate(A)]
    for p in range(n):
        q = next((i for i in range(p, n) if M[i][p] != 0), None)
        if q is None:
            return None
        M[p], M[q] = M[q], M[p]
        for i in range(n):
            if i != p and M[i][p] != 0:
                a = M[i][p] / M[p][p]
                for j in range(p, n + 1):
                    M[i][j] -= a * M[p][j]
    return [M[i][n] / M[i][i] for i in range(n)]


# ----------------------------------------------------------------------------
# calling the real code
# ----------------------------------------------------------------------------
def impl_lsolve(A, b):
    """returns (tag, x, A_after, b_after); the real function works in place"""
    from platypus._math import lsolve
    from platypus.errors import SingularError
    A1 = [list(r) for r in A]
    b1 = list(b)
    try:
        x = lsolve(A1, b1)
        return "solved", x, A1, b1
    except SingularError:
        return "singular", None, A1, b1
    except ZeroDivisionError:
        return "zerodiv", None, A1, b1
    except Exception as ex:  # noqa
        return "other:" + type(ex).__name__, None, A1, b1


_POW = {}


def _pow_lines():
    import platypus._math as M
    key = id(M.tred2.__code__)
    if key not in _POW:
        try:
            src, start = inspect.getsourcelines(M.tred2)
            _POW[key] = {start + k for k, ln in enumerate(src) if "**" in ln.split("#")[0]}
        except (OSError, TypeError):
            _POW[key] = set()
    return _POW[key]


def impl_eig(Csym, d0):
    """tred2 + tql2 exactly as CMAES.eigendecomposition calls them (algorithms.py:1426-1433).
    Returns (tag, B, d, e, powtab): powtab = {x: x**2} for the floats x present in tred2's local
    lists d/e when a line containing `**` executes and for which libm's pow differs from x*x."""
    import platypus._math as M
    n = len(Csym)
    B = [[0.0] * n for _ in range(n)]
    for i in range(n):
        for j in range(i + 1):
            B[i][j] = B[j][i] = Csym[i][j]
    d = list(d0)
    e = [0.0] * n
    code = M.tred2.__code__
    lines = _pow_lines()
    tab = {}

    def local(frame, event, arg):
        if event == "line" and frame.f_lineno in lines:
            for name in ("d", "e"):
                lst = frame.f_locals.get(name)
                if isinstance(lst, list):
                    for x in lst:
                        if isinstance(x, float) and x == x and abs(x) < 1e150:
                            if x ** 2 != x * x:
                                tab[x] = x ** 2
        return local

    def tracer(frame, event, arg):
        return local if frame.f_code is code else None

    old = sys.gettrace()
    sys.settrace(tracer)
    try:
        try:
            M.tred2(n, B, d, e)
        finally:
            sys.settrace(old)
        M.tql2(n, d, e, B)
        return "ok", B, d, e, tab
    except Exception as ex:  # noqa
        sys.settrace(old)
        return "raised:" + type(ex).__name__, B, d, e, tab


def _tred2_tracer(tab):
    import platypus._math as M
    code = M.tred2.__code__
    lines = _pow_lines()

    def local(frame, event, arg):
        if event == "line" and frame.f_lineno in lines:
            for name in ("d", "e"):
                lst = frame.f_locals.get(name)
                if isinstance(lst, list):
                    for x in lst:
                        if isinstance(x, float) and x == x and abs(x) < 1e150:
                            if x ** 2 != x * x:
                                tab[x] = x ** 2
        return local

    def tracer(frame, event, arg):
        return local if frame.f_code is code else None
    return tracer


_ORIG = {}


def orig_eigendecomposition():
    from platypus.algorithms import CMAES
    if "eig" not in _ORIG:
        _ORIG["eig"] = CMAES.eigendecomposition
    return _ORIG["eig"]


def call_eigendecomposition(obj):
    """Calls the REAL CMAES.eigendecomposition on obj (a CMAES instance or a stub with the attributes the method
    reads) and captures what tql2 left behind (V, d, e - the method overwrites d by its square roots afterwards)
    and libm's pow values inside tred2.  Returns (tag, V, d, e, powtab)."""
    import contextlib
    import io
    import platypus.algorithms as ALG
    cap = {}
    orig_tql2 = ALG.tql2

    def tql2_wrap(n_, d_, e_, V_):
        try:
            orig_tql2(n_, d_, e_, V_)
        finally:
            cap["d"] = list(d_)
            cap["e"] = list(e_)
            cap["V"] = [list(r) for r in V_]

    tab = {}
    old = sys.gettrace()
    ALG.tql2 = tql2_wrap
    sys.settrace(_tred2_tracer(tab))
    try:
        with contextlib.redirect_stderr(io.StringIO()):      # "an eigenvalue has become negative" for indefinite inputs
            orig_eigendecomposition()(obj)
        tag = "ok" if cap else "raised:NoTql2Call"
        exc = None
    except Exception as ex:  # noqa
        tag = "raised:" + type(ex).__name__
        exc = ex
    finally:
        sys.settrace(old)
        ALG.tql2 = orig_tql2
    return tag, cap.get("V"), cap.get("d"), cap.get("e"), tab, exc


def impl_eig_method(Cstore, d0):
    """the real method on a stub object whose C is stored the way CMAES stores it: Cstore[i][j] for j <= i is the
    covariance matrix (update_distribution, algorithms.py:1591-1596, writes only j <= i; check_eigensystem reads
    C[max(i,j)][min(i,j)]); the entries above the diagonal are whatever was left there."""
    n = len(Cstore)
    stub = types.SimpleNamespace(
        iteration=1, last_eigenupdate=0, diagonal_iterations=0, check_consistency=False,
        problem=types.SimpleNamespace(nvars=n),
        C=[list(r) for r in Cstore],
        B=[[1.0 if i == j else 0.0 for j in range(n)] for i in range(n)],
        diag_D=list(d0))
    tag, V, d, e, tab, _ = call_eigendecomposition(stub)
    return tag, V, d, e, tab, stub.B, stub.diag_D


def stale_upper(rng, Cm):
    """same covariance matrix (lower triangle), upper triangle stale: zeros of the initial identity / old values / unrelated numbers"""
    n = len(Cm)
    k = rng.random()
    out = [list(r) for r in Cm]
    for i in range(n):
        for j in range(i + 1, n):
            out[i][j] = 0.0 if k < 0.5 else (Cm[i][j] * rng.uniform(0.5, 1.5) if k < 0.75 else rng.uniform(-1.0, 1.0))
    return out


def cmaes_runs(ctx, rng, dims, dist):
    """real CMAES runs on rotated ellipsoids; every eigendecomposition call of the run is recorded:
    (C as stored at the call - deep copy, diag_D before, tag, V, d, e, powtab)"""
    import copy
    import random as R
    from platypus import CMAES, Problem, Real
    records = []
    orig = orig_eigendecomposition()
    for n in dims:
        rot = [[rng.gauss(0.0, 1.0) for _ in range(n)] for _ in range(n)]

        def f(x, rot=rot, n=n):
            y = [sum(rot[i][j] * x[j] for j in range(n)) for i in range(n)]
            return [sum((10.0 ** (2.0 * i / max(1, n - 1))) * y[i] ** 2 for i in range(n))]

        problem = Problem(n, 1)
        problem.types[:] = Real(-5.0, 5.0)
        problem.function = f
        offspring = rng.choice([12, 16, 20])
        gens = rng.randrange(25, 41)
        seed = rng.getrandbits(32)
        mine = []

        def wrapper(self, mine=mine):
            if self.diagonal_iterations >= self.iteration:
                return orig(self)
            Cs = copy.deepcopy(self.C)
            d0 = list(self.diag_D)
            tag, V, d, e, tab, exc = call_eigendecomposition(self)
            mine.append((Cs, d0, tag, V, d, e, tab))
            if exc is not None:
                raise exc

        state = R.getstate()
        CMAES.eigendecomposition = wrapper
        try:
            R.seed(seed)
            alg = CMAES(problem, offspring_size=offspring)
            alg.run(offspring * gens)
        except Exception as ex:  # noqa
            ctx.violation("cmaes-run-raises-" + type(ex).__name__, "CMAES run (nvars=%d, seed=%d) raised %r" % (n, seed, ex),
                          {"kind": "cmaes-run", "nvars": n, "seed": seed}, concrete=False)
        finally:
            CMAES.eigendecomposition = orig
            R.setstate(state)
        dist["runs"].append({"nvars": n, "offspring": offspring, "generations": gens, "eigendecomposition_calls": len(mine)})
        records.append(mine)
    return records


# ----------------------------------------------------------------------------
# oracles (property statement on the real code, exact arithmetic)
# ----------------------------------------------------------------------------
def eig_oracle(ctx, Csym, tag, V, d, origin):
    """residual / orthonormality / ordering of the real tred2+tql2 output, exactly."""
    n = len(Csym)
    rp = {"kind": "eig", "C": hexm(Csym), "via": "cmaes" if "CMAES" in origin else "direct"}
    if tag != "ok":
        ctx.violation("eig-raises-" + tag.split(":")[1], "tred2/tql2 raised %s on a symmetric %dx%d matrix (%s): %r" % (tag.split(":")[1], n, n, origin, Csym), rp)
        return False
    flat = [x for r in V for x in r] + list(d)
    if not finite(flat):
        ctx.violation("eig-nonfinite", "tred2/tql2 returned inf/nan on a symmetric %dx%d matrix (%s): %r" % (n, n, origin, Csym), rp)
        return False
    Cx = [[Fr(Csym[max(i, j)][min(i, j)]) for j in range(n)] for i in range(n)]
    Vx = frm(V)
    dx = [Fr(x) for x in d]
    ok = True
    for i in range(n - 1):
        if not d[i] <= d[i + 1]:
            ctx.violation("eig-not-ascending", "eigenvalues not ascending (%r) for %s %r" % (d, origin, Csym), rp)
            ok = False
            break
    VD = [[Vx[i][k] * dx[k] for k in range(n)] for i in range(n)]
    R = [[sum(VD[i][k] * Vx[j][k] for k in range(n)) - Cx[i][j] for j in range(n)] for i in range(n)]
    r1 = norm_inf_rows(R)
    nc = norm_inf_rows(Cx)
    if r1 > TOL * nc:
        ctx.violation("eig-residual", "||Q diag(d) Q^T - C||_inf = %.3e > 2^-40*||C||_inf = %.3e for %s %dx%d %r" % (float(r1), float(TOL * nc), origin, n, n, Csym), rp)
        ok = False
    O = [[sum(Vx[k][i] * Vx[k][j] for k in range(n)) - (1 if i == j else 0) for j in range(n)] for i in range(n)]
    r2 = norm_inf_rows(O)
    if r2 > TOL * n:
        ctx.violation("eig-not-orthonormal", "||Q^T Q - I||_inf = %.3e > 2^-40*n for %s %dx%d %r" % (float(r2), origin, n, n, Csym), rp)
        ok = False
    return ok


def ref_lsolve(A, b):
    """Independent transcription of the DOCUMENTED algorithm pinned by this property (not of the code's text):
    Gaussian elimination on binary64 with partial pivoting by absolute value (strict >, first maximal row wins),
    the row exchange done unconditionally, SingularError exactly when the pivot's absolute value is <= EPSILON = 2^-52
    (tested at every step, after the exchange), then back substitution.  Used only to classify singular inputs:
    the known finding covers those on which THIS algorithm itself returns a result."""
    n = len(b)
    M = [[float(v) for v in r] + [float(b[i])] for i, r in enumerate(A)]
    for p in range(n):
        best = p
        for i in range(p + 1, n):
            if abs(M[i][p]) > abs(M[best][p]):
                best = i
        M[p], M[best] = M[best], M[p]
        if abs(M[p][p]) <= 2.0 ** -52:
            return "singular", None
        for i in range(p + 1, n):
            alpha = M[i][p] / M[p][p]
            for j in range(p, n + 1):
                M[i][j] -= alpha * M[p][j]
    x = [0.0] * n
    for i in range(n - 1, -1, -1):
        acc = 0.0
        for j in range(i + 1, n):
            acc += M[i][j] * x[j]
        x[i] = (M[i][n] - acc) / M[i][i]
    return "solved", x


def structurally_singular(A):
    """singular in a way that every float elimination preserves exactly: a zero row, a zero column, or a row that is
    a (+-) power-of-two multiple of another row (alpha is then exact and the row is eliminated to exact zeros)"""
    n = len(A)
    if any(all(v == 0.0 for v in r) for r in A) or any(all(A[i][j] == 0.0 for i in range(n)) for j in range(n)):
        return True
    for i in range(n):
        k = next(t for t in range(n) if A[i][t] != 0.0)
        for j in range(n):
            if j != i and A[j][k] != 0.0:
                f = A[j][k] / A[i][k]
                if math.frexp(abs(f))[0] == 0.5 and all(A[j][t] == f * A[i][t] for t in range(n)):
                    return True
    return False


def lsolve_oracle(ctx, A, b, tag, x, origin, stats):
    """A given as floats.  Decides singular / non-singular exactly and checks the property clause that applies."""
    n = len(A)
    rp = {"kind": "lsolve", "A": hexm(A), "b": [float(v).hex() for v in b], "origin": origin}
    piv = exact_pivots(A)
    if piv is None:
        # exactly singular input: must signal
        stats["singular"] += 1
        if tag != "singular":
            rtag, _ = ref_lsolve(A, b)
            stats["ref_" + rtag + "_on_singular_missed"] = stats.get("ref_" + rtag + "_on_singular_missed", 0) + 1
            if structurally_singular(A):
                key = HARD_SING_KEY
            elif rtag == "singular":
                key = REF_RAISES_KEY      # NOT the known finding: the pinned algorithm detects this one
            else:
                key = KNOWN_KEY
            if key == KNOWN_KEY:
                stats["known_singular_missed"] += 1
                if stats["known_singular_missed"] > 1:
                    return False   # one report per run (the fixed corpus matrix comes first)
            ctx.violation(key, "lsolve did not raise SingularError for an exactly singular %dx%d matrix (%s): outcome %s %r; A=%r b=%r" % (n, n, origin, tag, x, A, b), rp)
            return False
        return True
    if tag.startswith("other") or tag == "zerodiv":
        ctx.violation("lsolve-raises-" + tag.replace(":", "-"), "lsolve raised %s on a non-singular %dx%d system (%s) A=%r b=%r" % (tag, n, n, origin, A, b), rp)
        return False
    if tag == "singular":
        rtag, _ = ref_lsolve(A, b)
        if rtag == "solved":
            ctx.violation(REF_RETURNS_KEY, "lsolve raised SingularError on a non-singular %dx%d system on which the pinned algorithm returns a result (%s) A=%r b=%r" % (n, n, origin, A, b), rp)
            return False
        if min(piv) >= TOL:
            ctx.violation("lsolve-singularerror-on-nonsingular", "lsolve raised SingularError although every exact pivot is >= 2^-40 (min %.3e) (%s) A=%r" % (float(min(piv)), origin, A), rp)
            return False
        stats["ambiguous_tiny_pivot"] += 1
        return True
    if len(x) != n or not finite(x):
        ctx.violation("lsolve-nonfinite", "lsolve returned %r for non-singular (%s) A=%r b=%r" % (x, origin, A, b), rp)
        return False
    Ax = frm(A)
    xx = [Fr(v) for v in x]
    bx = [Fr(v) for v in b]
    res = max(abs(sum(Ax[i][j] * xx[j] for j in range(n)) - bx[i]) for i in range(n))
    den = norm_inf_rows(Ax) * max(abs(v) for v in xx) + max(abs(v) for v in bx)
    stats["residual_checked"] += 1
    if res > TOL * den:
        ctx.violation("lsolve-residual", "backward error ||Ax-b||/(||A|| ||x||+||b||) = %.3e > 2^-40 (%s) A=%r b=%r x=%r" % (float(res / den) if den else float("inf"), origin, A, b, x), rp)
        return False
    if n <= 5:
        # forward error relative to the conditioning (exact solution, exact condition number)
        xs = exact_solve(A, b)
        cols = [exact_solve(A, [1 if i == k else 0 for i in range(n)]) for k in range(n)]
        ninv = max(sum(abs(cols[k][i]) for k in range(n)) for i in range(n))
        kappa = norm_inf_rows(Ax) * ninv
        err = max(abs(xx[i] - xs[i]) for i in range(n))
        nx = max(abs(v) for v in xs)
        stats["forward_checked"] += 1
        if kappa * TOL < Fr(1, 4) and err > 4 * kappa * TOL * nx + Fr(1, 2 ** 1000):
            ctx.violation("lsolve-forward-error", "||x-x*||/||x*|| = %.3e > 4*cond*2^-40 (cond %.3e) (%s) A=%r b=%r" % (float(err / nx) if nx else float("inf"), float(kappa), origin, A, b), rp)
            return False
    return True


# ----------------------------------------------------------------------------
# generators (ctx.rng only)
# ----------------------------------------------------------------------------
def rnd_float(rng):
    k = rng.random()
    if k < 0.5:
        return rng.uniform(-1.0, 1.0)
    if k < 0.8:
        return rng.gauss(0.0, 1.0) * 10 ** rng.randrange(-2, 3)
    return float(rng.randint(-9, 9))


def mirror(n, f):
    A = [[0.0] * n for _ in range(n)]
    for i in range(n):
        for j in range(i + 1):
            A[i][j] = A[j][i] = float(f(i, j))
    return A


def householder_sym(rng, n, D):
    """H diag(D) H with H = I - 2 v v^T / v^T v, in float arithmetic, mirrored to be exactly symmetric"""
    v = [rng.uniform(-1, 1) or 1.0 for _ in range(n)]
    vv = sum(x * x for x in v)
    H = [[(1.0 if i == j else 0.0) - 2.0 * v[i] * v[j] / vv for j in range(n)] for i in range(n)]
    return mirror(n, lambda i, j: sum(H[i][k] * D[k] * H[j][k] for k in range(n)))


def gen_sym(rng, n, fam):
    if fam == "dense":
        s = 10.0 ** rng.randrange(-3, 4)
        return mirror(n, lambda i, j: rnd_float(rng) * s)
    if fam == "integer":
        K = rng.choice([1, 3, 9, 100])
        return mirror(n, lambda i, j: rng.randint(-K, K))
    if fam == "diagonal":
        vals = [rng.choice([0.0, 1.0, -1.0, 2.5, rng.uniform(-5, 5), float(rng.randint(-3, 3))]) for _ in range(n)]
        return mirror(n, lambda i, j: vals[i] if i == j else 0.0)
    if fam == "near_singular":
        # PSD M^T M with one row of M nearly a combination of the others: one eigenvalue ~ delta^2
        delta = 10.0 ** rng.uniform(-9, -3)
        Mx = [[rng.uniform(-1, 1) for _ in range(n)] for _ in range(n)]
        if n > 1:
            co = [rng.uniform(-1, 1) for _ in range(n - 1)]
            Mx[n - 1] = [sum(co[k] * Mx[k][j] for k in range(n - 1)) + delta * rng.uniform(-1, 1) for j in range(n)]
        else:
            Mx = [[delta]]
        return mirror(n, lambda i, j: sum(Mx[k][i] * Mx[k][j] for k in range(n)))
    if fam == "repeated":
        k = rng.random()
        if k < 0.25:
            c = rng.choice([1.0, -0.75, 3.0, rng.uniform(-2, 2)])
            return mirror(n, lambda i, j: c if i == j else 0.0)
        if k < 0.45:
            c = rng.choice([1.0, 0.5, rng.uniform(-2, 2)])
            return mirror(n, lambda i, j: c)
        vals = [rng.choice([1.0, 2.0, 5.0, -1.0, 0.0]) for _ in range(max(1, (n + 2) // 3))]
        D = [rng.choice(vals) for _ in range(n)]
        return householder_sym(rng, n, D)
    raise ValueError(fam)


SYM_FAMILIES = ["dense", "integer", "diagonal", "near_singular", "repeated"]
# overall magnitudes: a covariance matrix times a positive constant has the same principal axes; power-of-two factors
# make the float computation an exact scaling of the unscaled one (barring under/overflow); tolerances are relative to ||C||
SCALE_EXPS = [-300, -100, -60, 100, 300]


def scaled(Cm, k):
    return [[math.ldexp(v, k) for v in r] for r in Cm]


def gen_rhs(rng, n, A):
    k = rng.random()
    if k < 0.4:
        return [rnd_float(rng) for _ in range(n)]
    if k < 0.6:
        return [float(rng.randint(-9, 9)) for _ in range(n)]
    if k < 0.7:
        return [1.0] * n          # NSGA-III's right-hand side
    if k < 0.8:
        j = rng.randrange(n)
        return [1.0 if i == j else 0.0 for i in range(n)]
    x0 = [float(rng.randint(-4, 4)) for _ in range(n)]
    return [sum(A[i][j] * x0[j] for j in range(n)) for i in range(n)]


def gen_sys(rng, n, fam):
    if fam == "dense":
        s = 10.0 ** rng.randrange(-2, 3)
        A = [[rnd_float(rng) * s for _ in range(n)] for _ in range(n)]
    elif fam == "integer":
        K = rng.choice([1, 3, 9, 50])
        A = [[float(rng.randint(-K, K)) for _ in range(n)] for _ in range(n)]
    elif fam == "diagonal":
        dv = [rng.choice([-1, 1]) * 10.0 ** rng.uniform(-3, 3) for _ in range(n)]
        perm = list(range(n))
        if rng.random() < 0.5:
            rng.shuffle(perm)     # permuted diagonal: every step has to swap
        A = [[dv[i] if perm[i] == j else 0.0 for j in range(n)] for i in range(n)]
    elif fam == "near_singular":
        delta = 10.0 ** rng.uniform(-11, -5)
        A = [[rng.uniform(-1, 1) for _ in range(n)] for _ in range(n)]
        if n > 1:
            co = [rng.uniform(-1, 1) for _ in range(n - 1)]
            r = rng.randrange(n)
            others = [k for k in range(n) if k != r]
            A[r] = [sum(co[t] * A[k][j] for t, k in enumerate(others)) + delta * rng.uniform(0.5, 1) * rng.choice([-1, 1]) for j in range(n)]
        else:
            A = [[delta * 1e3]]
    elif fam == "repeated":
        A = gen_sym(rng, n, "repeated")
    else:
        raise ValueError(fam)
    return A, gen_rhs(rng, n, A)


SYS_FAMILIES = ["dense", "integer", "diagonal", "near_singular", "repeated"]


def gen_singular_exact(rng, n):
    """exactly singular, and singular in a way no rounding can hide (zero row / zero column /
    duplicate row / power-of-two multiple of a row): every float elimination keeps the defect exactly."""
    K = rng.choice([3, 9, 100])
    if rng.random() < 0.5:
        A = [[float(rng.randint(-K, K)) for _ in range(n)] for _ in range(n)]
    else:
        A = [[rnd_float(rng) for _ in range(n)] for _ in range(n)]
    kind = rng.choice(["zero-row", "zero-col", "dup-row", "pow2-row"] if n > 1 else ["zero-row", "zero-col"])
    r = rng.randrange(n)
    if kind == "zero-row":
        A[r] = [0.0] * n
    elif kind == "zero-col":
        for i in range(n):
            A[i][r] = 0.0
    else:
        s = rng.choice([k for k in range(n) if k != r])
        f = 1.0 if kind == "dup-row" else 2.0 ** rng.choice([-3, -1, 1, 2, 5])
        A[s] = [f * v for v in A[r]]
    return A, gen_rhs(rng, n, A), "singular-exact:" + kind


def gen_singular_column(rng, n):
    """one column an exact power-of-two multiple of another, or the exact sum / difference of two others; entries are
    small binary fractions so the matrix is exactly singular while the elimination (alpha = a/b) is inexact: the rank
    deficiency shows up as rounding residue at a non-last step."""
    den = rng.choice([16.0, 32.0, 8.0])
    lo = 1 if rng.random() < 0.6 else -int(den)
    A = [[rng.randint(lo, int(den)) / den for _ in range(n)] for _ in range(n)]
    cols = list(range(n))
    rng.shuffle(cols)
    if n >= 3 and rng.random() < 0.4:
        j, i1, i2 = cols[0], cols[1], cols[2]
        sg = rng.choice([1.0, -1.0])
        for r in range(n):
            A[r][j] = A[r][i1] + sg * A[r][i2]
        kind = "sum"
    else:
        j, i1 = cols[0], cols[1 % n]
        f = rng.choice([0.5, 2.0, 0.25, -0.5, 1.0])
        for r in range(n):
            A[r][j] = f * A[r][i1] if n > 1 else 0.0
        kind = "multiple"
    k = rng.random()
    b = [float(rng.randint(-5, 5)) for _ in range(n)] if k < 0.5 else ([0.0] * n if k < 0.7 else [1.0] * n)
    return A, b, "singular-column-" + kind


def gen_singular_integer(rng, n):
    K = rng.choice([3, 9, 50])
    A = [[rng.randint(-K, K) for _ in range(n)] for _ in range(n)]
    if n > 1:
        r = rng.randrange(n)
        co = [rng.randint(-2, 2) for _ in range(n)]
        A[r] = [sum(co[k] * A[k][j] for k in range(n) if k != r) for j in range(n)]
    else:
        A = [[0]]
    A = [[float(v) for v in row] for row in A]
    return A, [float(rng.randint(-5, 5)) for _ in range(n)], "singular-integer"


def gen_exact_system(rng, n):
    """A = P L U with dyadic L (|l|<=1), U with power-of-two diagonal; x0 dyadic: the float run is usually exact."""
    kind = rng.random()
    if kind < 0.2 or n == 1:
        A = [[float(rng.randint(-4, 4)) for _ in range(n)] for _ in range(n)]
        b = [float(rng.randint(-8, 8)) for _ in range(n)]
        return A, b
    L = [[(1.0 if i == j else (rng.randint(-4, 4) / 4.0 if j < i else 0.0)) for j in range(n)] for i in range(n)]
    U = [[(rng.choice([-1, 1]) * 2.0 ** rng.randint(-2, 3) if i == j else (rng.randint(-6, 6) / 2.0 if j > i else 0.0)) for j in range(n)] for i in range(n)]
    if kind > 0.85:
        U[rng.randrange(n)][rng.randrange(n)] = 0.0
        z = rng.randrange(n)
        U[z][z] = 0.0            # exactly singular
    A = [[sum(L[i][k] * U[k][j] for k in range(n)) for j in range(n)] for i in range(n)]
    rng.shuffle(A)
    x0 = [rng.randint(-8, 8) / 2.0 for _ in range(n)]
    b = [sum(A[i][j] * x0[j] for j in range(n)) for i in range(n)]
    return A, b


def exact_shadow(A, b):
    """Run the REAL lsolve on Fractions (the code is duck-typed) next to the float run and decide whether the
    float run was exact.  Returns ('solved', x, U, c) / ('singular',) / None when inexact (discard)."""
    from platypus._math import lsolve
    from platypus.errors import SingularError
    tag, x, A1, b1 = impl_lsolve(A, b)
    AF = frm(A)
    bF = [Fr(v) for v in b]
    try:
        lsolve(AF, bF)      # back substitution mixes 0.0 in: only the eliminated AF, bF are exact
        ftag = "solved"
    except SingularError:
        ftag = "singular"
    except ZeroDivisionError:
        ftag = "zerodiv"
    if ftag != tag or tag not in ("solved", "singular"):
        return None
    n = len(A)
    flat1 = [v for r in A1 for v in r] + b1
    if not finite(flat1):
        return None
    if any(Fr(A1[i][j]) != AF[i][j] for i in range(n) for j in range(n)) or any(Fr(b1[i]) != bF[i] for i in range(n)):
        return None
    if tag == "singular":
        return ("singular",)
    # exact back substitution on the (exact) triangular system and comparison with the float x
    xs = [Fr(0)] * n
    for i in range(n - 1, -1, -1):
        xs[i] = (bF[i] - sum(AF[i][j] * xs[j] for j in range(i + 1, n))) / AF[i][i]
    if not finite(x) or any(Fr(x[i]) != xs[i] for i in range(n)):
        return None
    return ("solved", x, A1, b1)


# ----------------------------------------------------------------------------
def balance(lits, cases, shard):
    """reorder (lits, cases) so that every shard of `shard` consecutive literals gets a similar amount of text
    (the big dimension-12 cases are otherwise all in the last shards, which then dominate the wall time)"""
    k = max(1, -(-len(lits) // shard))
    order = sorted(range(len(lits)), key=lambda i: -len(lits[i]))
    buckets = [[] for _ in range(k)]
    for pos, i in enumerate(order):
        buckets[pos % k].append(i)
    # buckets may differ in length by one: pad order so that contiguous slicing by `shard` reproduces them closely
    flat = [i for bkt in buckets for i in bkt]
    return [lits[i] for i in flat], [cases[i] for i in flat]


def run(ctx):
    rng = ctx.rng
    cov = ctx.coverage
    # sanity of the assumptions the float model makes about CPython
    assert math.pow(2.0, -52.0) == 2.0 ** -52 == sys.float_info.epsilon
    import platypus._math as M
    assert M.EPSILON == 2.0 ** -52

    # ---------------- 0. literal constructor is exact -----------------
    probe = [1.0, -1.0, 0.1, -0.3, 5e-324, -5e-324, 2.2250738585072014e-308, 1.7976931348623157e308, -1.7976931348623157e308,
             2.0 ** -52, 1.0 + 2.0 ** -52, 3.0, 1e300, 1e-300, 123456789.125]
    probe += [rng.uniform(-1, 1) * 10.0 ** rng.randrange(-300, 300) for _ in range(40)]
    flits = []
    for x in probe:
        m, e = C.float_parts(x)
        flits.append("FLT %s %s (%s)%%float" % (C.z_lit(m), C.z_lit(e), x.hex()))
    PRE = "From Coq Require Import PrimFloat."
    bad = C.run_coq_cases(ctx, "fl", ["Base.Num", "Model.EigFloat", "Harness.H20"], "flcase", "c20_fl_check", flits, prelude=PRE)
    if bad is not None:
        ctx.obligation("correspondence:float-literal-constructor-exact(%d floats vs Coq's hex parser)" % len(flits), "correspondence", not bad,
                       "fl m e differs from the hex literal on %r" % [flits[i] for i in bad[:5]])

    import time
    T0 = time.time()

    def lap(what):
        cov.setdefault("phase_seconds", {})[what] = round(time.time() - T0, 1)

    lap("literal-selftest")
    reps_e = ctx.scale(2, 42)      # x 12 dims x 5 families
    reps_s = ctx.scale(4, 100)

    # ---------------- 1. eigendecomposition: bit-exact correspondence + oracle -----------------
    eig_lits = []
    eig_cases = []
    dist_e = {"family": {}, "dim": {}, "pow_table_entries": 0, "cases_with_pow_entries": 0, "raised": 0, "cmaes_method_calls": 0}
    cmaes_diff = []
    fixed_sym = [[[3.0]], [[0.0]], [[2.0, 0.0], [0.0, -1.0]],
                 [[-2.0, 0.0, 0.0, 3.0], [0.0, 2.0, 3.0, 1.0], [0.0, 3.0, 2.0, -1.0], [3.0, 1.0, -1.0, 1.0]]]   # the 9b609a5 witnesses
    todo = [(Cm, "corpus") for Cm in fixed_sym]
    todo += [(scaled(fixed_sym[3], k), "corpus*2^%d" % k) for k in (-60, -100, 300)]
    dist_e["scale_exp"] = {}
    for n in range(1, 13):
        for fam in SYM_FAMILIES:
            for r in range(reps_e):
                k = 0 if r % 2 == 0 else rng.choice(SCALE_EXPS)      # every other matrix at a non-unit magnitude
                dist_e["scale_exp"][k] = dist_e["scale_exp"].get(k, 0) + 1
                todo.append((scaled(gen_sym(rng, n, fam), k), fam if k == 0 else "%s*2^%d" % (fam, k)))
    def add_eig_case(Cstore, d0, tag, B, d, e, tab, fam):
        tablit = C.list_lit(["(%s, %s)" % (flit(k), flit(v)) for k, v in tab.items()])
        dist_e["pow_table_entries"] += len(tab)
        dist_e["cases_with_pow_entries"] += 1 if tab else 0
        if tag == "ok":
            out = "(EOk %s %s %s)" % (mlit(B), vlit(d), vlit(e))
        else:
            dist_e["raised"] += 1
            kind = tag.split(":")[1]
            out = "(ERaised %s)" % kind if kind in ("IndexError", "ZeroDivisionError", "ValueError", "UnboundLocalError") else "EOther"
        eig_lits.append("EC %s %s %s %s" % (mlit(Cstore), vlit(d0), tablit, out))
        eig_cases.append((Cstore, fam))

    dist_e["stale_upper_triangle"] = 0
    for idx, (Cm, fam) in enumerate(todo):
        n = len(Cm)
        d0 = [1.0] * n if rng.random() < 0.7 else [rnd_float(rng) for _ in range(n)]
        # storage as CMAES keeps it: the lower triangle is the matrix; every other case has a stale upper triangle
        Cstore = stale_upper(rng, Cm) if (idx % 2 == 1 and n >= 2) else Cm
        if Cstore is not Cm:
            dist_e["stale_upper_triangle"] += 1
            fam = fam + " stale-upper"
        tag, B, d, e, tab, Bfin, Dfin = impl_eig_method(Cstore, d0)
        ctx.count()
        dist_e["cmaes_method_calls"] += 1
        dist_e["family"][fam.split("*")[0].split(" ")[0]] = dist_e["family"].get(fam.split("*")[0].split(" ")[0], 0) + 1
        dist_e["dim"][n] = dist_e["dim"].get(n, 0) + 1
        if n >= 3 and any(Cm[i][j] != 0.0 for i in range(n) for j in range(i)):
            ctx.mark("eig:" + repr(Cstore))
        add_eig_case(Cstore, d0, tag, B, d, e, tab, fam)
        eig_oracle(ctx, Cstore, tag, B, d, fam + " via CMAES.eigendecomposition")
        # cross-check: the method = tred2 + tql2 on the mirrored LOWER triangle, then diag_D = sqrt(max(d, 0))
        tag1, B1, d1, e1, _ = impl_eig(Cm, d0)
        if tag1 != tag or (tag == "ok" and (B1 != B or d1 != d or Bfin != B or Dfin != [math.sqrt(v) if v >= 0.0 else 0.0 for v in d])):
            cmaes_diff.append(Cstore)
    # real CMAES runs: every eigendecomposition call of the run is checked by the oracle, some go to the bit-exact model
    dist_e["cmaes_runs"] = {"runs": [], "calls_checked": 0, "calls_with_asymmetric_storage": 0, "max_rel_offdiag": 0.0, "bit_exact_cases": 0}
    for mine in cmaes_runs(ctx, rng, ctx.scale([2, 3, 5, 8, 12], [2, 3, 4, 5, 6, 8, 10, 12, 2, 3, 5, 8, 12]), dist_e["cmaes_runs"]):
        picks = set([0, 1, len(mine) // 2, len(mine) - 2, len(mine) - 1])
        for t, (Cs, d0, tag, V, d, e, tab) in enumerate(mine):
            n = len(Cs)
            ctx.count()
            dist_e["cmaes_runs"]["calls_checked"] += 1
            if any(Cs[i][j] != Cs[j][i] for i in range(n) for j in range(i)):
                dist_e["cmaes_runs"]["calls_with_asymmetric_storage"] += 1
            mx = max(abs(Cs[i][j]) for i in range(n) for j in range(i + 1))
            off = max([abs(Cs[i][j]) for i in range(n) for j in range(i)] + [0.0])
            dist_e["cmaes_runs"]["max_rel_offdiag"] = max(dist_e["cmaes_runs"]["max_rel_offdiag"], off / mx if mx else 0.0)
            if n >= 3 and off > 0.0:
                ctx.mark("eig:" + repr(Cs))
            eig_oracle(ctx, Cs, tag, V, d, "CMAES run nvars=%d call %d via CMAES.eigendecomposition" % (n, t))
            if t in picks:
                dist_e["cmaes_runs"]["bit_exact_cases"] += 1
                add_eig_case(Cs, d0, tag, V, d, e, tab, "cmaes-run nvars=%d call %d" % (n, t))
    ctx.obligation("cmaes-runs-adapt-a-correlated-covariance-with-stale-upper-triangle", "harness",
                   dist_e["cmaes_runs"]["calls_with_asymmetric_storage"] >= 10 and dist_e["cmaes_runs"]["max_rel_offdiag"] > 1e-3,
                   "the real runs did not produce what they are meant to exercise: %r" % (dist_e["cmaes_runs"],))
    lap("eig-impl+oracle")
    ctx.obligation("cmaes-eigendecomposition-is-tred2-tql2-on-the-lower-triangle-then-sqrt(%d calls of the real method, %d with a stale upper triangle)" % (dist_e["cmaes_method_calls"], dist_e["stale_upper_triangle"]),
                   "correspondence", not cmaes_diff and dist_e["cmaes_method_calls"] > 0,
                   "CMAES.eigendecomposition's B / tql2 output / diag_D differ from tred2+tql2 on the mirrored lower triangle of C and sqrt(max(d,0)) for %r" % (cmaes_diff[:2],))
    ctx.sample({"eig_input": eig_cases[len(eig_cases) // 2][0], "family": eig_cases[len(eig_cases) // 2][1]})
    ctx.sample({"coq_eig_case": min(eig_lits, key=len)[:600]})
    imports = ["Base.Num", "Model.LSolve", "Model.EigFloat", "Harness.H20"]
    eig_lits, eig_cases = balance(eig_lits, eig_cases, max(4, len(eig_lits) // 15 + 1))
    shard_e = max(4, len(eig_lits) // 15 + 1)
    # one pass evaluates both checks (the literals are parsed once); only if something fails are they run separately
    both = C.run_coq_cases(ctx, "eigboth", imports, "eigcase", "(fun k => andb (c20_eig_check k) (c20_eig_residual_check k))", eig_lits, shard=shard_e)
    if both == []:
        bad, bad2 = [], []
    else:
        bad = C.run_coq_cases(ctx, "eig", imports, "eigcase", "c20_eig_check", eig_lits, shard=shard_e)
        bad2 = C.run_coq_cases(ctx, "eigres", imports, "eigcase", "c20_eig_residual_check", eig_lits, shard=shard_e)
    if bad is not None:
        ctx.obligation("correspondence:eig-bit-exact(tred2+tql2 inside the real CMAES.eigendecomposition vs PrimFloat model, %d matrices incl. %d from real CMAES runs)" % (len(eig_lits), dist_e["cmaes_runs"]["bit_exact_cases"]), "correspondence", not bad,
                       "bits differ on cases %r; first input: %r" % (bad[:10], eig_cases[bad[0]] if bad else ""))
        cov["eig_correspondence_cases"] = len(eig_lits)
        cov["eig_correspondence_mismatches"] = len(bad)
        for i in bad[:3]:
            ctx.sample({"eig_model_impl_disagree": repr(eig_cases[i])})
    if bad2 is not None:
        ctx.obligation("coq-exact-residual-accepts-float-model(%d matrices)" % len(eig_lits), "correspondence", not bad2,
                       "the model's V, d fail ||V diag(d) V^T - C|| <= 2^-40 ||C||, ||V^T V - I|| <= 2^-40 n or ordering on cases %r; first: %r" % (bad2[:10], eig_cases[bad2[0]] if bad2 else ""))
    lap("eig-coq")
    # oracle only: more matrices
    extra_e = ctx.scale(120, 6000)
    for _ in range(extra_e):
        n = rng.randrange(1, 13)
        fam = rng.choice(SYM_FAMILIES)
        k = 0 if rng.random() < 0.4 else rng.choice(SCALE_EXPS)
        dist_e["scale_exp"][k] = dist_e["scale_exp"].get(k, 0) + 1
        Cm = scaled(gen_sym(rng, n, fam), k)
        fam = fam if k == 0 else "%s*2^%d" % (fam, k)
        tag, B, d, e, _ = impl_eig(Cm, [1.0] * n)
        ctx.count()
        if n >= 3 and any(Cm[i][j] != 0.0 for i in range(n) for j in range(i)):
            ctx.mark("eig:" + repr(Cm))
        eig_oracle(ctx, Cm, tag, B, d, fam)
    lap("eig-oracle-extra")
    dist_e["oracle_only_matrices"] = extra_e
    cov["eig_input_distribution"] = dist_e

    # ---------------- 2. lsolve at binary64: bit-exact correspondence + oracle -----------------
    stats = {"singular": 0, "known_singular_missed": 0, "ambiguous_tiny_pivot": 0, "residual_checked": 0, "forward_checked": 0}
    lf_lits = []
    lf_cases = []
    dist_l = {"family": {}, "dim": {}, "outcome": {}, "with_row_swap": 0}
    todo = [([[3.0, 0.0, -2.0], [2.0, 2.0, 1.0], [-1.0, 2.0, 3.0]], [1.0, 1.0, 1.0], "singular-integer(corpus)"),     # the known finding, always first
            ([[0.0]], [1.0], "singular-exact:zero-row"), ([[4.0]], [2.0], "corpus"),
            ([[2.0, 1.0, -1.0], [-3.0, -1.0, 2.0], [-2.0, 1.0, 2.0]], [8.0, -11.0, -3.0], "corpus"),
            ([[1.0, 2.0, 3.0], [4.0, 5.0, 6.0], [7.0, 8.0, 9.0]], [1.0, 1.0, 1.0], "singular-integer(corpus)")]
    for n in range(1, 13):
        for fam in SYS_FAMILIES:
            for _ in range(reps_s):
                A, b = gen_sys(rng, n, fam)
                todo.append((A, b, fam))
        for _ in range(reps_s):
            todo.append(gen_singular_exact(rng, n))
        for _ in range(max(1, reps_s // 2)):
            todo.append(gen_singular_integer(rng, n))
        if n >= 4:
            for _ in range(reps_s + 2):
                todo.append(gen_singular_column(rng, n))
    for A, b, fam in todo:
        n = len(A)
        tag, x, A1, b1 = impl_lsolve(A, b)
        ctx.count()
        famk = fam.split(":")[0].split("(")[0]
        dist_l["family"][famk] = dist_l["family"].get(famk, 0) + 1
        dist_l["dim"][n] = dist_l["dim"].get(n, 0) + 1
        dist_l["outcome"][tag] = dist_l["outcome"].get(tag, 0) + 1
        swapped = n >= 2 and any(abs(A[i][0]) > abs(A[0][0]) for i in range(1, n))
        dist_l["with_row_swap"] += 1 if swapped else 0
        if n >= 2 and (swapped or tag != "solved"):
            ctx.mark("lsolve:" + repr((A, b)))
        if tag == "solved":
            out = "(LFSolved %s %s %s)" % (vlit(x), mlit(A1), vlit(b1))
        else:
            out = {"singular": "LFSingular", "zerodiv": "LFDivZero"}.get(tag, "LFOther")
        lf_lits.append("LF %s %s %s" % (mlit(A), vlit(b), out))
        lf_cases.append((A, b, fam))
        lsolve_oracle(ctx, A, b, tag, x, fam, stats)
    lap("lsolve-impl+oracle")
    ctx.sample({"lsolve_input": {"A": lf_cases[40][0], "b": lf_cases[40][1], "family": lf_cases[40][2]}})
    lf_lits, lf_cases = balance(lf_lits, lf_cases, max(8, len(lf_lits) // 15 + 1))
    bad = C.run_coq_cases(ctx, "lsf", imports, "lfcase", "c20_lsolveF_check", lf_lits, shard=max(8, len(lf_lits) // 15 + 1))
    if bad is not None:
        ctx.obligation("correspondence:lsolve-bit-exact(real lsolve vs the generic model at binary64, %d systems: x, eliminated A and b, SingularError)" % len(lf_lits),
                       "correspondence", not bad, "bits differ on cases %r; first input: %r" % (bad[:10], lf_cases[bad[0]] if bad else ""))
        cov["lsolve_float_correspondence_cases"] = len(lf_lits)
        cov["lsolve_float_correspondence_mismatches"] = len(bad)
        for i in bad[:3]:
            ctx.sample({"lsolve_model_impl_disagree": repr(lf_cases[i])})
    lap("lsolve-coq")
    extra_s = ctx.scale(150, 6000)
    for _ in range(extra_s):
        n = rng.randrange(1, 13)
        k = rng.random()
        if k < 0.7:
            fam = rng.choice(SYS_FAMILIES)
            A, b = gen_sys(rng, n, fam)
        elif k < 0.8:
            A, b, fam = gen_singular_exact(rng, n)
        elif k < 0.9:
            A, b, fam = gen_singular_column(rng, max(n, 4))
        else:
            A, b, fam = gen_singular_integer(rng, n)
        tag, x, _, _ = impl_lsolve(A, b)
        ctx.count()
        if n >= 2 and tag != "solved":
            ctx.mark("lsolve:" + repr((A, b)))
        lsolve_oracle(ctx, A, b, tag, x, fam, stats)
    lap("lsolve-oracle-extra")
    dist_l["oracle_only_systems"] = extra_s
    dist_l["oracle"] = stats
    cov["lsolve_input_distribution"] = dist_l

    # ---------------- 3. lsolve over Q: exact correspondence on systems whose float run is exact -----------------
    lq_lits = []
    lq_cases = []
    discarded = 0
    nsing = 0
    want = ctx.scale(150, 3000)
    tries = 0
    fixed_q = [([[2.0, 1.0, -1.0], [-3.0, -1.0, 2.0], [-2.0, 1.0, 2.0]], [8.0, -11.0, -3.0]),
               ([[1.0, 2.0], [2.0, 4.0]], [1.0, 1.0]), ([[0.5]], [3.0]), ([[0.0, 2.0], [4.0, 1.0]], [2.0, 9.0])]
    while len(lq_lits) < want and tries < 20 * want:
        if tries < len(fixed_q):
            A, b = fixed_q[tries]
        else:
            A, b = gen_exact_system(rng, rng.randrange(1, QDIM + 1) if rng.random() < 0.5 else rng.randrange(1, 6))
        tries += 1
        sh = exact_shadow(A, b)
        ctx.count()
        if sh is None:
            discarded += 1
            continue
        if sh[0] == "singular":
            nsing += 1
            out = "LQSingular"
        else:
            _, x, U, c = sh
            out = "(LQSolved %s %s %s)" % (qvlit(x), qmlit(U), qvlit(c))
        if len(A) >= 2:
            ctx.mark("lsolveQ:" + repr((A, b)))
        lq_lits.append("LQ %s %s %s" % (qmlit(A), qvlit(b), out))
        lq_cases.append((A, b))
    lap("lsolveQ-shadow")
    cov["lsolve_exact_correspondence"] = {"cases": len(lq_lits), "singular_cases": nsing, "discarded_inexact": discarded, "generated": tries}
    lq_lits, lq_cases = balance(lq_lits, lq_cases, max(8, len(lq_lits) // 15 + 1))
    bad = C.run_coq_cases(ctx, "lsq", imports, "lqcase", "c20_lsolveQ_check", lq_lits, shard=max(8, len(lq_lits) // 15 + 1), timeout=ctx.scale(150, 600))
    if bad is not None:
        ctx.obligation("correspondence:lsolve-exact(Q model vs real lsolve on %d systems whose float run is exact; %d inexact discarded)" % (len(lq_lits), discarded),
                       "correspondence", (not bad) and len(lq_lits) >= want // 2,
                       "differ on cases %r; first input: %r; cases %d (wanted %d)" % (bad[:10], lq_cases[bad[0]] if bad else "", len(lq_lits), want))
        for i in bad[:3]:
            A, b = lq_cases[i]
            tag, x, _, _ = impl_lsolve(A, b)
            lsolve_oracle(ctx, A, b, tag, x, "exact-model-disagreement", stats)
            ctx.sample({"lsolveQ_model_impl_disagree": repr(lq_cases[i])})

    lap("lsolveQ-coq")
    ctx.rule = ("symmetric matrices and square systems of dimension 1-12 from 5 families each (random dense, integer, diagonal/permuted diagonal, nearly singular, "
                "repeated eigenvalues; every other symmetric matrix multiplied by 2^k, k in {-300,-100,-60,100,300}) + exactly singular systems (zero row/column, duplicate/power-of-two rows; integer combinations) + a fixed corpus; "
                "eig case non-trivial = dimension >= 3 with a non-zero off-diagonal entry; lsolve case non-trivial = dimension >= 2 and (first pivot needs a row swap "
                "or the outcome is not 'solved'); exact-Q case non-trivial = dimension >= 2; distinct by full input")


def replay(ctx, data):
    rp = data.get("replay", {})
    stats = {"singular": 0, "known_singular_missed": 0, "ambiguous_tiny_pivot": 0, "residual_checked": 0, "forward_checked": 0}
    if rp.get("kind") == "eig":
        Cm = unhexm(rp["C"])
        ctx.count()
        if rp.get("via") == "cmaes":
            tag, B, d, e, _, _, _ = impl_eig_method(Cm, [1.0] * len(Cm))
            eig_oracle(ctx, Cm, tag, B, d, "replay via CMAES.eigendecomposition")
        else:
            tag, B, d, e, _ = impl_eig(Cm, [1.0] * len(Cm))
            eig_oracle(ctx, Cm, tag, B, d, "replay")
    elif rp.get("kind") == "lsolve":
        A = unhexm(rp["A"])
        b = [float.fromhex(v) for v in rp["b"]]
        tag, x, _, _ = impl_lsolve(A, b)
        ctx.count()
        lsolve_oracle(ctx, A, b, tag, x, rp.get("origin", "replay"), stats)
    else:
        run(ctx)
