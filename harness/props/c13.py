"""C13 — seeded runs are repeatable; a saved state resumes exactly; consecutive run calls compose."""
import json
import os
import shutil
import subprocess
import sys
import tempfile
from concurrent.futures import ThreadPoolExecutor

from vlib import algos
from vlib import common as C
from props import c13_frame

ID = "C13"
PROPS_FILE = "Props/C13.v"
COQ_TARGETS = ["Harness/H13.vo"]
ALLOWED_AXIOMS = []
META = {
    "level_text": "Machine-checked proof (Coq), on top of the run-loop model of C08, that if one step is a function of the pair (algorithm object, state of the "
                  "global `random` generator) then (a) run is a function of that pair, (b) save -> any use of the loading process's generator -> load -> run(N) "
                  "equals the in-memory run(N) whenever load restores what save captured, (c) consecutive run calls split at a step boundary equal the single "
                  "call run(consumed + N2) whenever the start_run/end_run hooks are neutral on what a step reads; with vm_compute witnesses that a "
                  "fixed-frequency extension whose window is measured from start_run breaks (c) and that a load which does not restore the generator breaks (b). "
                  "The functional-step assumption is tied to /repo on every run by an AST determinism frame check of platypus/ and by replaying every shipped "
                  "algorithm x variable type (incl. subsets/permutations of strings) in fresh interpreters under several PYTHONHASHSEEDs; resumption is checked by "
                  "save_state at EVERY step boundary of seeded runs, load_state in a new process whose generator was disturbed, and exact comparison with the "
                  "in-memory continuation and (where claimed) the uninterrupted run; Coq checks the logged per-step evaluation counts against the composition law.",
    "level_note": "Determinism is a modelling assumption (a Gallina function is deterministic by construction), not a theorem: it is what the frame check and the "
                  "cross-process replays tie, on the sampled configurations only. Trusted: Coq kernel + VM; the harness (child-process runner, exact result "
                  "signatures via float.hex, AST scanner and its allow-lists for MaxTime, LoggingExtension/evaluator clock reads that flow only into log calls, "
                  "the deepcopy memo id() idiom). pickle fidelity, hash randomisation and dict insertion order are CPython runtime facts. The JSON (jsonpickle) "
                  "state format is in the suite's always-failing set and is not claimed. The composition clause excludes eps-NSGA-II and user-added "
                  "fixed-frequency extensions, as the property does (c13_run_compose_refuted_window shows the exclusion is necessary). No axioms.",
    "technique": "Coq proof over the run-loop model + AST frame check + cross-process replay under varied hash seeds + save/load at every step boundary in new processes",
}

HARNESS = os.path.join(C.VERIF, "harness")
CHILD_CODE = "import sys; sys.path.insert(0, %r); from props import c13_child; c13_child.main()" % HARNESS
CHILD_TIMEOUT = 300
REJECTED_ERRORS = ("objective with empty range",)


# ----------------------------------------------------------------------------
# child processes
# ----------------------------------------------------------------------------
def spawn(job, tmp, tag, hashseed):
    jf = os.path.join(tmp, "job_%s.json" % tag)
    of = os.path.join(tmp, "out_%s.json" % tag)
    with open(jf, "w") as f:
        json.dump(job, f)
    try:
        p = subprocess.run([sys.executable, "-c", CHILD_CODE, jf, of], env=C.py_env(hashseed=hashseed), timeout=CHILD_TIMEOUT, preexec_fn=C.child_process_guard,
                           stdout=subprocess.PIPE, stderr=subprocess.STDOUT, text=True, cwd=tmp)
    except subprocess.TimeoutExpired:
        return {"error": "child timed out after %ds (non-termination?)" % CHILD_TIMEOUT}
    if not os.path.exists(of):
        return {"error": "child produced no output (rc=%s): %s" % (p.returncode, p.stdout[-800:])}
    with open(of) as f:
        return json.load(f)


def pmap(fn, items):
    with ThreadPoolExecutor(max_workers=C.NCPU) as ex:
        return list(ex.map(fn, items))


# ----------------------------------------------------------------------------
# configurations
# ----------------------------------------------------------------------------
def base_cfg(alg, vt, seed):
    pop = {"NSGAIII": 1, "PAES": 1}.get(alg, 4)     # NSGAIII: divisions_outer=1 -> population 4
    return {"alg": alg, "vtype": vt, "pop": pop, "off": 4, "seed": seed}


def claimed(cfg):
    """does the property claim that consecutive run calls compose for this configuration"""
    return cfg["alg"] != "EpsNSGAII" and not cfg.get("userext")


def all_configs(ctx, nseeds):
    out = []
    for si in range(nseeds):
        seed = ctx.seed * 100003 + 17 * si + 5
        for alg in algos.ALGORITHMS:
            for vt in algos.applicable_vtypes(alg):
                out.append(base_cfg(alg, vt, seed))
        # variants: restart windows that really fire, a user fixed-frequency extension, constraints, other variators
        out.append(dict(base_cfg("EpsNSGAII", "real", seed), window=2))
        out.append(dict(base_cfg("EpsNSGAII", "subset_str", seed), window=1))
        out.append(dict(base_cfg("EpsNSGAII", "real", seed), window=1))
        # restarts forced only by max_window_size (the size test can never pass): depends on iteration - last_restart
        out.append(dict(base_cfg("EpsNSGAII", "real", seed), window=[1, 3, 1, 2]))
        out.append(dict(base_cfg("NSGAII", "real", seed), userext=2))
        out.append(dict(base_cfg("NSGAII", "perm_str", seed), userext=3))
        out.append(dict(base_cfg("NSGAII", "real", seed), constrained=True))
        out.append(dict(base_cfg("SMPSO", "real", seed), constrained=True))
        out.append(dict(base_cfg("GDE3", "real", seed), constrained=True))
        out.append(dict(base_cfg("NSGAII", "real", seed), variator="pcx3"))
        out.append(dict(base_cfg("SPEA2", "subset_str", seed), variator="mutation"))
        out.append(dict(base_cfg("GA", "subset_str", seed), variator="mutation", pop=3, off=5))
        # MOEA/D with the default weight generator on 3 and 4 objectives (random_weights draws from the generator there)
        out.append(dict(base_cfg("MOEAD", "real", seed), nobjs=3, pop=6))
        out.append(dict(base_cfg("MOEAD", "real", seed), nobjs=4, pop=7))
        out.append(dict(base_cfg("MOEAD", "subset_str", seed), nobjs=3, pop=5))
        out.append(dict(base_cfg("NSGAIII", "real", seed), nobjs=3, pop=2))
        # bounded adaptive-grid archives: small capacity, 2-3 objectives, runs long enough that the archive is full and members
        # are evicted; EVERY step boundary is a save point (these two algorithms are cheap)
        out.append(dict(base_cfg("PESA2", "real", seed), capacity=6, nobjs=2, steps=ctx.scale(36, 60)))
        out.append(dict(base_cfg("PESA2", "real", seed + 1), capacity=5, nobjs=3, steps=ctx.scale(36, 60)))
        out.append(dict(base_cfg("PESA2", "integer", seed), capacity=4, nobjs=2, steps=ctx.scale(24, 40)))
        out.append(dict(base_cfg("PAES", "real", seed), capacity=6, nobjs=2, steps=ctx.scale(70, 120)))
        out.append(dict(base_cfg("PAES", "real", seed + 1), capacity=4, nobjs=3, steps=ctx.scale(70, 120)))
    return out


def cfg_key(cfg):
    return json.dumps(cfg, sort_keys=True)


def short(cfg):
    extra = ",".join("%s=%s" % (k, cfg[k]) for k in ("window", "userext", "constrained", "variator") if cfg.get(k))
    return "%s/%s/pop%s%s/seed%s" % (cfg["alg"], cfg["vtype"], cfg["pop"], ("/" + extra) if extra else "", cfg["seed"])


# ----------------------------------------------------------------------------
# (i) frame check
# ----------------------------------------------------------------------------
def frame_check(ctx):
    findings, stats, files = c13_frame.scan_repo(C.REPO)
    ctx.coverage["frame_check"] = {"files_scanned": len(files), "stats": stats, "findings": findings[:20],
                                   "allow_list": ["%s:%s — %s" % (k[0], k[1], v) for k, v in list(c13_frame.ALLOW_C.items()) + list(c13_frame.ALLOW_B.items()) + list(c13_frame.ALLOW_E.items())]}
    ctx.obligation("frame:determinism(random module only; no order-sensitive set use; no id/hash/clock in logic; no module-level state; no state stored into operator instances by evolve/mutate) over %d files" % len(files),
                   "frame", not findings, "; ".join("%s:%s %s [%s] %s" % (f["file"], f["line"], f["qualname"], f["rule"], f["what"]) for f in findings[:8]))
    ctx.count(len(files))
    return findings


# ----------------------------------------------------------------------------
# (ii) replay under different hash seeds
# ----------------------------------------------------------------------------
def replay_hashseeds(ctx, tmp, cfgs, K, hashseeds):
    chunks = [cfgs[i:i + 6] for i in range(0, len(cfgs), 6)]
    jobs = [(hs, ci, ch) for hs in hashseeds for ci, ch in enumerate(chunks)]

    def one(j):
        hs, ci, ch = j
        return spawn({"job": "replay", "configs": ch, "K": K}, tmp, "rp_%s_%d" % (hs, ci), hs)
    outs = pmap(one, jobs)
    table = {}        # cfg index -> {hashseed: run}
    probes = {}
    for (hs, ci, ch), o in zip(jobs, outs):
        if "error" in o:
            ctx.obligation("child-run:replay(hashseed=%s chunk=%d)" % (hs, ci), "harness", False, o["error"])
            continue
        probes[hs] = o.get("hash_probe")
        for i, r in enumerate(o["runs"]):
            table.setdefault(ci * 6 + i, {})[hs] = r
    ndiff = 0
    nrej = 0
    for idx, cfg in enumerate(cfgs):
        runs = table.get(idx, {})
        errs = {hs: r["error"] for hs, r in runs.items() if "error" in r}
        if errs:
            if all(any(x in e for x in REJECTED_ERRORS) for e in errs.values()) and len(errs) == len(runs):
                nrej += 1
                continue
            ctx.violation("run-raised:%s:%s" % (cfg["alg"], cfg["vtype"]), "%s raised under hash seeds %r: %s" % (short(cfg), sorted(errs), list(errs.values())[0]),
                          {"kind": "hashseed", "config": cfg, "K": K, "hashseeds": sorted(errs)[:2] + ["0"]})
            continue
        ctx.count(len(runs))
        ref_hs = hashseeds[0]
        ref = runs.get(ref_hs)
        if ref is None:
            continue
        for hs in hashseeds[1:]:
            r = runs.get(hs)
            if r is None:
                continue
            if r != ref:
                ndiff += 1
                what = "%s: same seed %d, PYTHONHASHSEED=%s vs %s give different results after %d steps (nfe %s vs %s; first differing solution %s)" % (
                    short(cfg), cfg["seed"], ref_hs, hs, K, ref["sig"]["nfe"], r["sig"]["nfe"], first_diff(ref["sig"]["result"], r["sig"]["result"]))
                ctx.violation("replay-differs-across-hash-seeds:%s:%s" % (cfg["alg"], cfg["vtype"]), what,
                              {"kind": "hashseed", "config": cfg, "K": K, "hashseeds": [ref_hs, hs]})
                break
        if ref["sig"]["result"]:
            ctx.mark("replay|" + cfg_key(cfg))
    ctx.coverage["replay"] = {"configurations": len(cfgs), "hash_seeds": hashseeds, "steps_per_run": K, "child_processes": len(jobs),
                              "differing": ndiff, "rejected_inputs": nrej,
                              "hash('platypus')%1000 per hash seed (shows the seeds took effect)": probes}
    return table


def first_diff(a, b):
    for i, (x, y) in enumerate(zip(a, b)):
        if x != y:
            return "#%d %r vs %r" % (i, x[0], y[0])
    return "lengths %d vs %d" % (len(a), len(b))


# ----------------------------------------------------------------------------
# (ii-b) history independence: the same seeded run after OTHER work in the same interpreter
# ----------------------------------------------------------------------------
def prelude_configs(seed):
    """earlier, unrelated runs: every family of library-default operators (default variator / mutator of each variable type, the
    shared default-argument selector, generator, DE, hypervolume fitness, UM of the restart extension) on LARGER problems"""
    out = []
    for alg, vt in (("NSGAII", "real"), ("ES", "real"), ("SMPSO", "real"), ("GDE3", "real"), ("IBEA", "real"), ("PAES", "real"),
                    ("MOEAD", "real"), ("OMOPSO", "real"), ("NSGAII", "binary"), ("ES", "binary"), ("NSGAII", "integer"),
                    ("NSGAII", "perm_int"), ("ES", "perm_str"), ("NSGAII", "subset_int"), ("ES", "subset_str"), ("SPEA2", "subset_str")):
        out.append(dict(base_cfg(alg, vt, seed), big=True, pop=5 if alg not in ("NSGAIII", "PAES") else 1))
    out.append(dict(base_cfg("EpsNSGAII", "real", seed), big=True, window=1))
    return out


def history_runs(ctx, tmp, cfgs, K, table, ref_hs):
    """cfgs[i] was replayed in fresh interpreters (table[i][hash seed]); run it again after a prelude and after the other targets
    of its chunk, in one interpreter, and compare with the fresh-process result"""
    prelude = prelude_configs(ctx.seed * 31 + 7)
    order = list(range(len(cfgs)))
    ctx.rng.shuffle(order)
    chunks = [order[i:i + 8] for i in range(0, len(order), 8)]

    def one(item):
        ci, idxs = item
        return spawn({"job": "history", "prelude": prelude, "configs": [cfgs[i] for i in idxs], "K": K}, tmp, "hi_%d" % ci, ref_hs)
    outs = pmap(one, list(enumerate(chunks)))
    ndiff = 0
    n = 0
    for (ci, idxs), o in zip(enumerate(chunks), outs):
        if "error" in o:
            ctx.obligation("child-run:history(chunk=%d)" % ci, "harness", False, o["error"])
            continue
        for pos, (i, r) in enumerate(zip(idxs, o["runs"])):
            fresh = table.get(i, {}).get(ref_hs)
            if fresh is None or "error" in r or "error" in fresh:
                continue
            n += 1
            ctx.count()
            if r != fresh:
                ndiff += 1
                cfg = cfgs[i]
                hist = prelude + [cfgs[j] for j in idxs[:pos]]
                ctx.violation("result-depends-on-earlier-runs-in-the-process:%s:%s" % (cfg["alg"], cfg["vtype"]),
                              "%s: the seeded run (library-default operators) gives a different result in an interpreter that earlier optimised other "
                              "problems than in a fresh interpreter (nfe %s vs %s; first differing solution %s)" % (
                                  short(cfg), r["sig"]["nfe"], fresh["sig"]["nfe"], first_diff(fresh["sig"]["result"], r["sig"]["result"])),
                              {"kind": "history", "config": cfg, "K": K, "history": hist})
            else:
                ctx.mark("history|" + cfg_key(cfgs[i]))
    ctx.coverage["history_independence"] = {"targets": n, "prelude_runs": len(prelude), "child_processes": len(chunks), "differing": ndiff,
                                            "what": "each target = seeded run with library-default operators, executed after a prelude of %d runs on larger "
                                                    "problems and after the other targets of its chunk, compared with the fresh-interpreter replay" % len(prelude)}


def repeat_runs(ctx, tmp, cfgs, K, table, ref_hs):
    """(ii-c) the same seeded run twice in a row inside one interpreter must give identical results, equal to the fresh-process one"""
    # budgets come from the fresh-interpreter runs, so that the child does NOTHING before the first of the two runs
    have = [i for i in range(len(cfgs)) if "T" in table.get(i, {}).get(ref_hs, {})]
    chunks = [have[i:i + 8] for i in range(0, len(have), 8)]

    def one(item):
        ci, idxs = item
        return spawn({"job": "repeat", "configs": [cfgs[i] for i in idxs], "K": K, "T": [table[i][ref_hs]["T"] for i in idxs]}, tmp, "rr_%d" % ci, ref_hs)
    outs = pmap(one, list(enumerate(chunks)))
    n = ndiff = 0
    for (ci, idxs), o in zip(enumerate(chunks), outs):
        if "error" in o:
            ctx.obligation("child-run:repeat(chunk=%d)" % ci, "harness", False, o["error"])
            continue
        for i, a, b in zip(idxs, o["runs"], o["runs2"]):
            cfg = cfgs[i]
            fresh = table.get(i, {}).get(ref_hs)
            if "error" in a or "error" in b:
                continue
            n += 1
            ctx.count(2)
            why = None
            if a != b:
                why = "the second run differs from the first (nfe %s vs %s; first differing solution %s)" % (
                    a["sig"]["nfe"], b["sig"]["nfe"], first_diff(a["sig"]["result"], b["sig"]["result"]))
            elif fresh is not None and "error" not in fresh and b != fresh:
                why = "both runs differ from the fresh-interpreter run (first differing solution %s)" % first_diff(fresh["sig"]["result"], b["sig"]["result"])
            if why:
                ndiff += 1
                ctx.violation("same-seed-rerun-in-process-differs:%s:%s" % (cfg["alg"], cfg["vtype"]),
                              "%s: the same seeded configuration run twice in a row in one interpreter (re-seeded, fresh algorithm object): %s" % (short(cfg), why),
                              {"kind": "repeat", "config": cfg, "K": K, "T": table[i][ref_hs]["T"],
                               "preceding": [[cfgs[j], table[j][ref_hs]["T"]] for j in idxs[:idxs.index(i)]]})
            else:
                ctx.mark("repeat|" + cfg_key(cfg))
    ctx.coverage["repeat_in_process"] = {"configurations": n, "child_processes": len(chunks), "differing": ndiff}


# constructors that legitimately draw from the generator (established on the unchanged tree: none of the 15 algorithm constructors in
# the grid does; Multimethod.__init__ calls select() -> roulette and InjectedPopulation-based warm starts evaluate before construction,
# neither is part of this grid).  (alg, key) pairs listed here are excluded from the construct-then-seed mode.
LATE_SEED_EXCLUDED = {}


def late_seed_runs(ctx, tmp, cfgs, K, table, ref_hs):
    """(ii-d) construct the algorithm FIRST, then seed, then run: must equal seed-construct-run (no randomness at construction time)"""
    have = [i for i in range(len(cfgs)) if "T" in table.get(i, {}).get(ref_hs, {}) and not cfgs[i].get("userext")
            and cfgs[i]["alg"] not in LATE_SEED_EXCLUDED]
    chunks = [have[i:i + 8] for i in range(0, len(have), 8)]

    def one(item):
        ci, idxs = item
        return spawn({"job": "replay", "configs": [cfgs[i] for i in idxs], "K": K, "T": [table[i][ref_hs]["T"] for i in idxs],
                      "late_seed": 424242 + 1000 * ci}, tmp, "ls_%d" % ci, ref_hs)
    outs = pmap(one, list(enumerate(chunks)))
    n = ndiff = 0
    drew = []
    for (ci, idxs), o in zip(enumerate(chunks), outs):
        if "error" in o:
            ctx.obligation("child-run:late-seed(chunk=%d)" % ci, "harness", False, o["error"])
            continue
        for pos, (i, r) in enumerate(zip(idxs, o["runs"])):
            fresh = table[i][ref_hs]
            if "error" in r or "error" in fresh:
                continue
            n += 1
            ctx.count()
            cfg = cfgs[i]
            if r.get("ctor_drew"):
                drew.append(short(cfg))
            if {k: r[k] for k in ("T", "sizes", "sig")} != {k: fresh[k] for k in ("T", "sizes", "sig")}:
                ndiff += 1
                ctx.violation("construct-then-seed-differs:%s:%s" % (cfg["alg"], cfg["vtype"]),
                              "%s: constructing the algorithm, THEN random.seed(%d), then run(%d) gives a different result than seeding before construction "
                              "(constructor drew from the generator: %s; first differing solution %s)" % (
                                  short(cfg), cfg["seed"], r["T"], bool(r.get("ctor_drew")), first_diff(fresh["sig"]["result"], r["sig"]["result"])),
                              {"kind": "late_seed", "config": cfg, "K": K, "T": r["T"], "late_seed": 424242 + 1000 * ci + pos})
            else:
                ctx.mark("late-seed|" + cfg_key(cfg))
    ctx.coverage["construct_then_seed"] = {"configurations": n, "differing": ndiff, "constructors_that_drew_randomness": drew,
                                           "excluded": LATE_SEED_EXCLUDED or "none (no constructor in the grid draws randomness on the unchanged tree; "
                                                       "Multimethod.__init__ would, it is not in the grid; user-extension configurations are skipped)"}


def cond_runs(ctx, tmp, cfgs, K, table, ref_hs):
    """(iv) three consecutive run() calls with the budget as int / fresh MaxEvaluations / ONE shared MaxEvaluations object must agree exactly,
    and (where composition is claimed) equal the single call"""
    have = [i for i in range(len(cfgs)) if "sizes" in table.get(i, {}).get(ref_hs, {})]
    chunks = [have[i:i + 8] for i in range(0, len(have), 8)]

    def n_of(i):
        sz = table[i][ref_hs]["sizes"]
        return sum(sz[:2]) + (1 if i % 2 else 0)          # at / just above the second step boundary

    def one(item):
        ci, idxs = item
        return spawn({"job": "conds", "configs": [cfgs[i] for i in idxs], "n": [n_of(i) for i in idxs]}, tmp, "cd_%d" % ci, ref_hs)
    outs = pmap(one, list(enumerate(chunks)))
    n = 0
    stats = {"configurations": 0, "shared_object_differs": 0, "fresh_object_differs": 0, "three_calls_differ_from_single_claimed": 0}
    for (ci, idxs), o in zip(enumerate(chunks), outs):
        if "error" in o:
            ctx.obligation("child-run:conds(chunk=%d)" % ci, "harness", False, o["error"])
            continue
        for i, r in zip(idxs, o["runs"]):
            if "error" in r:
                continue
            cfg = cfgs[i]
            stats["configurations"] += 1
            ctx.count(4)
            rp = {"kind": "conds", "config": cfg, "n": n_of(i)}
            for mode, key in (("shared", "shared_object_differs"), ("fresh", "fresh_object_differs")):
                if r[mode] != r["int"]:
                    stats[key] += 1
                    ctx.violation("consecutive-runs-with-%s-condition-object-differ:%s" % (mode, cfg["alg"]),
                                  "%s: three consecutive run() calls with budget %d: passing %s ends at nfe %d after steps %r, run(int) at nfe %d after steps %r" % (
                                      short(cfg), n_of(i), "the SAME MaxEvaluations object" if mode == "shared" else "a new MaxEvaluations object per call",
                                      r[mode]["sig"]["nfe"], r[mode]["sizes"], r["int"]["sig"]["nfe"], r["int"]["sizes"]), rp)
            flat = [x for c in r["int"]["sizes"] for x in c]
            if claimed(cfg) and (r["single"]["sig"] != r["int"]["sig"] or flat != r["single"]["sizes"]):
                stats["three_calls_differ_from_single_claimed"] += 1
                ctx.violation("consecutive-runs-do-not-compose:%s:%s" % (cfg["alg"], cfg["vtype"]),
                              "%s: three run(%d) calls (steps %r) differ from the single run(%d) (steps %r)" % (
                                  short(cfg), n_of(i), r["int"]["sizes"], r["single"]["F"], r["single"]["sizes"]), rp)
            elif r["shared"] == r["int"]:
                ctx.mark("conds|" + cfg_key(cfg))
    ctx.coverage["condition_objects"] = stats


# ----------------------------------------------------------------------------
# (iii) save at every step boundary, load in a new process, continue
# ----------------------------------------------------------------------------
def split_runs(ctx, tmp, cfgs, K, boundaries_of, lits, replay_table=None, replay_index=None):
    def steps_of(cfg):
        return cfg.get("steps", K)

    def produce(item):
        i, cfg = item
        return spawn({"job": "produce", "config": cfg, "K": steps_of(cfg), "boundaries": boundaries_of(i, cfg), "dir": tmp, "tag": "c%d" % i,
                      "extend": 40 * max(1, cfg["pop"])}, tmp, "pr_%d" % i, "0")
    prods = pmap(produce, list(enumerate(cfgs)))
    resume_jobs = []
    hs_cycle = ["1", "2", str(ctx.rng.randrange(3, 4000000000)), "random"]
    for i, (cfg, pr) in enumerate(zip(cfgs, prods)):
        if "error" in pr:
            continue
        for sp in pr["splits"]:
            resume_jobs.append((i, (sp["k"], sp.get("ext", False)),
                                {"job": "resume", "file": sp["file"], "N2": sp["N2"], "disturb": ctx.rng.randrange(1, 10 ** 9)},
                                hs_cycle[(i + sp["k"]) % len(hs_cycle)]))

    def resume(j):
        i, k, job, hs = j
        return spawn(job, tmp, "rs_%d_%d_%d" % (i, k[0], int(k[1])), hs)
    resumed = pmap(resume, resume_jobs)
    by = {(i, k): (r, hs) for (i, k, _, hs), r in zip(resume_jobs, resumed)}
    state_lost = []
    stats = {"configurations": len(cfgs), "steps_per_run": K, "longest_run_steps": max([steps_of(c) for c in cfgs] + [0]),
             "extended_search_splits": 0, "save_points_where_loaded_state_differs": 0, "splits": 0, "resume_processes": len(resume_jobs), "resume_differs": 0,
             "compose_differs_claimed": 0, "compose_differs_unclaimed": 0, "unclaimed_splits": 0, "rejected_inputs": 0,
             "cross_process_single_vs_replay_differs": 0}
    for i, (cfg, pr) in enumerate(zip(cfgs, prods)):
        if "error" in pr:
            if any(x in pr["error"] for x in REJECTED_ERRORS):
                stats["rejected_inputs"] += 1
                continue
            ctx.violation("run-raised:%s:%s" % (cfg["alg"], cfg["vtype"]), "%s: %s" % (short(cfg), pr["error"]),
                          {"kind": "split", "config": cfg, "K": steps_of(cfg), "k": 1})
            continue
        # the same seeded run in another process (the replay children) must agree with this one
        if replay_table is not None and replay_index is not None and cfg_key(cfg) in replay_index:
            for hs, r in replay_table.get(replay_index[cfg_key(cfg)], {}).items():
                if "sig" in r and r["sig"] != pr["single"]:
                    stats["cross_process_single_vs_replay_differs"] += 1
                    ctx.violation("replay-differs-across-processes:%s:%s" % (cfg["alg"], cfg["vtype"]),
                                  "%s: the same seeded run gives different results in two interpreter processes (PYTHONHASHSEED 0 vs %s)" % (short(cfg), hs),
                                  {"kind": "hashseed", "config": cfg, "K": K, "hashseeds": ["0", hs]})
                    break
        cl = claimed(cfg)
        Kc = steps_of(cfg)
        for sp in pr["splits"]:
            k = sp["k"]
            ext = sp.get("ext", False)
            stats["splits"] += 1
            stats["extended_search_splits"] += 1 if ext else 0
            ctx.count()
            rs, hs = by.get((i, (k, ext)), ({"error": "no resume job"}, "?"))
            if "error" in rs:
                ctx.violation("resume-raised:%s:%s" % (cfg["alg"], cfg["vtype"]), "%s boundary %d: load/continue raised: %s" % (short(cfg), k, rs["error"]),
                              {"kind": "split", "config": cfg, "K": Kc, "k": k})
                continue
            if not ext:
                lost = sorted(f for f in set(sp["at_save"]) | set(rs["at_load"]) if sp["at_save"].get(f) != rs["at_load"].get(f))
                if lost or sp.get("roundtrip_lost"):
                    stats["save_points_where_loaded_state_differs"] += 1
                    state_lost.append("%s boundary %d: %s" % (short(cfg), k, ",".join(lost or sp["roundtrip_lost"])))
            if rs["loaded"] != sp["mem"] or rs["sizes2"] != sp["sizes2"]:
                stats["resume_differs"] += 1
                ctx.violation("resume-differs-from-in-memory-continuation:%s:%s" % (cfg["alg"], cfg["vtype"]),
                              "%s: save_state after %d evaluations (step boundary %d), load_state in a new process (PYTHONHASHSEED=%s, generator disturbed), "
                              "run(%d): nfe %s vs in-memory %s; first differing solution %s" % (
                                  short(cfg), sp["N1"], k, hs, sp["N2"], rs["loaded"]["nfe"], sp["mem"]["nfe"],
                                  first_diff(sp["mem"]["result"], rs["loaded"]["result"])),
                              {"kind": "split", "config": cfg, "K": Kc, "k": k})
            if ext:
                continue
            same_as_single = sp["mem"] == pr["single"] and sp["sizes1"] + sp["sizes2"] == pr["single_sizes"]
            if cl and not same_as_single:
                stats["compose_differs_claimed"] += 1
                ctx.violation("consecutive-runs-do-not-compose:%s:%s" % (cfg["alg"], cfg["vtype"]),
                              "%s: run(%d) then run(%d) differs from the single run(%d): steps %r + %r vs %r; first differing solution %s" % (
                                  short(cfg), sp["N1"], sp["N2"], pr["T"], sp["sizes1"], sp["sizes2"], pr["single_sizes"],
                                  first_diff(pr["single"]["result"], sp["mem"]["result"])),
                              {"kind": "split", "config": cfg, "K": Kc, "k": k})
            if not cl:
                stats["unclaimed_splits"] += 1
                if not same_as_single:
                    stats["compose_differs_unclaimed"] += 1
            if 0 < k < len(pr["single_sizes"]):
                ctx.mark("split|%s|%d" % (cfg_key(cfg), k))
            lits.append(("T13 %d %d %s %s %s %s" % (sp["N1"], sp["N2"], nl(sp["sizes1"]), nl(sp["sizes2"]), nl(pr["single_sizes"]), C.bool_lit(cl)),
                         cfg, k))
            if len(ctx.samples) < 4 and 0 < k < len(pr["single_sizes"]) and (i % 7 == 0):
                ctx.sample({"config": cfg, "split_after_step": k, "N1": sp["N1"], "N2": sp["N2"], "steps_call1": sp["sizes1"], "steps_call2": sp["sizes2"],
                            "steps_single_run": pr["single_sizes"], "composition_claimed": cl, "resumed_equals_in_memory": rs["loaded"] == sp["mem"],
                            "result_size": len(sp["mem"]["result"]), "loader_hash_seed": hs})
    # what load_state hands back must be what save_state saw (population, archive contents, grid bounds and densities, counters)
    ctx.obligation("state-after-load-equals-state-at-save(%d save points)" % (stats["splits"] - stats["extended_search_splits"]), "correspondence",
                   not state_lost, "; ".join(state_lost[:6]))
    return stats


def nl(xs):
    return "[" + ";".join(str(int(x)) for x in xs) + "]"


# ----------------------------------------------------------------------------
def run(ctx):
    tmp = tempfile.mkdtemp(prefix="c13_")
    try:
        frame_findings = frame_check(ctx)
        K = ctx.scale(5, 8)
        cfgs = all_configs(ctx, ctx.scale(1, 2))
        hashseeds = ["0", "1", "2", str(ctx.rng.randrange(3, 4000000000)), "random"]
        rcfgs = [c for c in cfgs if "steps" not in c]
        table = replay_hashseeds(ctx, tmp, rcfgs, K, hashseeds)
        index = {cfg_key(c): i for i, c in enumerate(rcfgs)}
        history_runs(ctx, tmp, rcfgs, K, table, hashseeds[0])
        repeat_runs(ctx, tmp, rcfgs, K, table, hashseeds[0])
        late_seed_runs(ctx, tmp, rcfgs, K, table, hashseeds[0])
        cond_runs(ctx, tmp, rcfgs, K, table, hashseeds[0])
        # quick: every algorithm with a rotating subset of its variable types (+ all variants); thorough: everything
        if ctx.thorough:
            sel = cfgs
        else:
            sel = []
            for alg in algos.ALGORITHMS:
                mine = [c for c in rcfgs if c["alg"] == alg and len(c) == 5]
                rot = ctx.seed % len(mine)
                pick = [mine[rot], mine[(rot + 3) % len(mine)], mine[(rot + 5) % len(mine)]]
                for c in pick:
                    if c not in sel:
                        sel.append(c)
            sel += [c for c in cfgs if len(c) > 5]
        lits = []
        stats = split_runs(ctx, tmp, sel, K, lambda i, cfg: list(range(0, cfg.get("steps", K) + 1)), lits, table, index)
        ctx.coverage["save_load"] = stats
        ctx.coverage["traces_validated_against_impl"] = len(lits)
        ctx.coverage["not_claimed"] = ("the JSON (jsonpickle) state format (suite's always-failing set); composition for eps-NSGA-II and user fixed-frequency "
                                       "extensions (window measured from start_run) — for those only resumption is checked; %d of %d unclaimed splits really differ "
                                       "from the single run" % (stats["compose_differs_unclaimed"], stats["unclaimed_splits"]))
        ctx.rule = ("(i) AST frame check of every platypus/*.py; (ii) every shipped algorithm x applicable variable type (real, binary, integer, permutation and subset of "
                    "ints and of STRINGS) + variants, same seed in fresh interpreters under PYTHONHASHSEED in {0,1,2,<drawn>,random}, results diffed exactly "
                    "(variables, objectives as float.hex, nfe, evaluations per step); (ii-b) each of them again after a prelude of unrelated runs with the library-default "
                    "operators in the same interpreter, (ii-c) each of them twice in a row in one interpreter (re-seeded, fresh object) incl. MOEA/D with the default weight "
                    "generator on 3 and 4 objectives — all compared with the fresh-interpreter result; (iii) for a seeded K-step run: at EVERY step boundary k=0..K save_state (pickle), "
                    "load_state in a new process whose generator was reseeded and used, continue, compare with the in-memory continuation and (where claimed) with "
                    "the single run; non-trivial = replay with a non-empty result, or a split strictly inside the run (both calls make steps); distinct by "
                    "(configuration, seed[, boundary])")
        if lits:
            bad = C.run_coq_cases(ctx, "splits", ["Base.Num", "Model.RunLoop", "Model.Resume", "Harness.H13"], "c13case", "c13_check",
                                  [x[0] for x in lits], shard=400, prelude="Open Scope nat_scope.")
            if bad is not None:
                ctx.obligation("correspondence:composition-law-on-logged-steps(%d splits)" % len(lits), "correspondence", not bad,
                               "model rejects splits %r; first: %s %s" % (bad[:10], short(lits[bad[0]][1]) if bad else "", lits[bad[0]][0] if bad else ""))
                ctx.coverage["correspondence_cases"] = len(lits)
                ctx.coverage["correspondence_mismatches"] = len(bad)
        if frame_findings and not ctx.violations:
            # search: the frame check names a construct; exercise the configurations most likely to reach it with more seeds
            extra = []
            for s in range(6):
                for alg in ("NSGAII", "ES", "PAES", "GA"):
                    for vt in ("subset_str", "perm_str"):
                        extra.append(base_cfg(alg, vt, ctx.seed * 977 + 31 * s + 1))
            replay_hashseeds(ctx, tmp, extra, K + 3, hashseeds)
    finally:
        shutil.rmtree(tmp, ignore_errors=True)


def replay(ctx, data):
    rp = data.get("replay", {})
    tmp = tempfile.mkdtemp(prefix="c13r_")
    try:
        if rp.get("kind") == "hashseed":
            replay_hashseeds(ctx, tmp, [rp["config"]], rp["K"], list(rp["hashseeds"]))
        elif rp.get("kind") == "history":
            cfg = rp["config"]
            fresh = spawn({"job": "replay", "configs": [cfg], "K": rp["K"]}, tmp, "fr", "0")
            after = spawn({"job": "history", "prelude": rp["history"], "configs": [cfg], "K": rp["K"]}, tmp, "hi", "0")
            ctx.count(2)
            if "error" in fresh or "error" in after or fresh["runs"][0] != after["runs"][0]:
                ctx.violation(data.get("key", "replay"), "replay: %s after %d earlier runs differs from the fresh-interpreter run (%s)" % (
                    short(cfg), len(rp["history"]), fresh.get("error") or after.get("error") or
                    first_diff(fresh["runs"][0].get("sig", {}).get("result", []), after["runs"][0].get("sig", {}).get("result", []))), rp)
        elif rp.get("kind") == "late_seed":
            cfg = rp["config"]
            fresh = spawn({"job": "replay", "configs": [cfg], "K": rp["K"], "T": [rp["T"]]}, tmp, "fr", "0")
            late = spawn({"job": "replay", "configs": [cfg], "K": rp["K"], "T": [rp["T"]], "late_seed": rp["late_seed"]}, tmp, "ls", "0")
            ctx.count(2)
            if "error" in fresh or "error" in late or fresh["runs"][0].get("sig") != late["runs"][0].get("sig"):
                ctx.violation(data.get("key", "replay"), "replay: %s construct-then-seed differs from seed-then-construct" % short(cfg), rp)
        elif rp.get("kind") == "conds":
            o = spawn({"job": "conds", "configs": [rp["config"]], "n": [rp["n"]]}, tmp, "cd", "0")
            ctx.count(4)
            r = o.get("runs", [{"error": o.get("error")}])[0]
            if "error" in r or r["shared"] != r["int"] or r["fresh"] != r["int"] or (claimed(rp["config"]) and r["single"]["sig"] != r["int"]["sig"]):
                ctx.violation(data.get("key", "replay"), "replay: %s three consecutive run(%d): int %s / fresh %s / shared %s / single %s" % (
                    short(rp["config"]), rp["n"], r.get("int", {}).get("sizes"), r.get("fresh", {}).get("sizes"), r.get("shared", {}).get("sizes"),
                    r.get("single", {}).get("sizes")), rp)
        elif rp.get("kind") == "repeat":
            cfg = rp["config"]
            pre = list(rp.get("preceding", []))
            fresh = spawn({"job": "replay", "configs": [cfg], "K": rp["K"], "T": [rp["T"]]}, tmp, "fr", "0")
            rep = spawn({"job": "repeat", "configs": [c for c, _ in pre] + [cfg], "K": rp["K"], "T": [t for _, t in pre] + [rp["T"]]}, tmp, "rr", "0")
            ctx.count(3)
            bad = "error" in fresh or "error" in rep
            if not bad:
                a, b, f = rep["runs"][-1], rep["runs2"][-1], fresh["runs"][0]
                bad = a != b or b != f
            if bad:
                ctx.violation(data.get("key", "replay"), "replay: %s run twice in one interpreter: results differ from each other or from the fresh-interpreter run" % short(cfg), rp)
        elif rp.get("kind") == "split":
            lits = []
            st = split_runs(ctx, tmp, [dict(rp["config"], steps=rp["K"])], rp["K"], lambda i, cfg: [rp["k"]], lits)
            ctx.coverage["save_load"] = st
        else:
            run(ctx)
    finally:
        shutil.rmtree(tmp, ignore_errors=True)
