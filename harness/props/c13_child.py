"""C13 helper executed in FRESH interpreter processes (never imported as __main__, so that the classes defined
here pickle under the name props.c13_child):

    python -c "import sys; sys.path.insert(0, HARNESS); from props import c13_child; c13_child.main()" job.json out.json

Jobs
  replay  : for each configuration run the seeded algorithm for K steps; output exact result signatures
  produce : single uninterrupted run(T); then for every requested step boundary k a fresh seeded run(b_k),
            save_state to a file, and the in-memory continuation run(T - b_k)
  resume  : disturb the process-global generator, load_state the file, continue with run(N2)
  repeat  : the replay job twice in a row in one interpreter
  history : first run other problems with the library-default operators in this interpreter, then the replay job
"""
import json
import os
import random
import sys

from platypus.extensions import FixedFrequencyExtension

from vlib import algos


class UserShake(FixedFrequencyExtension):
    """A user-added fixed-frequency extension (by iteration): every `frequency` steps it re-draws the variables of
    one population member.  Its window is measured from start_run, as for every FixedFrequencyExtension."""

    def __init__(self, frequency=2):
        super().__init__(frequency=frequency, by_nfe=False)
        self.actions = 0

    def do_action(self, algorithm):
        self.actions += 1
        pop = getattr(algorithm, "population", None)
        if pop:
            i = random.randrange(len(pop))
            s = pop[i]
            s.variables[:] = [t.rand() for t in algorithm.problem.types]
            s.evaluated = False
            algorithm.evaluate_all([s])


CTOR_DREW = []     # configurations whose constructor changed the state of the global generator (late-seed mode)


def build(cfg, late_seed=None):
    """seed, construct (default)  |  late_seed=x: put the generator in state x, construct, THEN seed"""
    kw = {k: cfg[k] for k in ("pop", "off", "constrained", "variator", "window", "big", "capacity", "divisions", "nobjs") if k in cfg}
    if late_seed is None:
        alg, info = algos.build(cfg["alg"], cfg["vtype"], seed=cfg["seed"], **kw)
    else:
        random.seed(late_seed)
        before = random.getstate()
        alg, info = algos.build(cfg["alg"], cfg["vtype"], seed=None, **kw)
        if random.getstate() != before:
            CTOR_DREW.append(cfg)
        random.seed(cfg["seed"])
    if cfg.get("userext"):
        alg.add_extension(UserShake(cfg["userext"]))
    return alg, info


def run_logged(alg, n):
    """alg.run(n) with the nfe after every step; returns the list of evaluations per step"""
    marks = [alg.nfe]

    def cb(a):
        marks.append(a.nfe)
    alg.run(n, callback=cb)
    return [b - a for a, b in zip(marks, marks[1:])]


def pilot_T(cfg, K):
    """budget at which the run has exactly K steps: nfe after K steps of a seeded pilot"""
    alg, _ = build(cfg)
    for _ in range(K):
        alg.step()
    return alg.nfe


def signature(alg):
    return {"result": algos.result_signature(alg), "nfe": alg.nfe}


def _hex(v):
    if isinstance(v, float):
        return float.hex(v)
    if isinstance(v, (list, tuple)):
        return [_hex(x) for x in v]
    if isinstance(v, (bool, int, str)) or v is None:
        return v
    return repr(v)


def _sols(xs):
    return [[_hex(list(s.variables)), _hex([float(o) for o in s.objectives])] for s in xs]


def deep_signature(alg):
    """internal state a continuation reads besides the result: population, bounded-archive bookkeeping"""
    d = {"nfe": alg.nfe, "result": algos.result_signature(alg)}
    for name in ("population", "particles", "leaders", "local_best"):
        xs = getattr(alg, name, None)
        if xs is not None:
            try:
                d[name] = _sols(list(xs))
            except Exception:  # noqa: BLE001
                pass
    arch = getattr(alg, "archive", None)
    if arch is not None:
        d["archive"] = _sols(list(arch))
        for name in ("minimum", "maximum", "density", "improvements"):
            if hasattr(arch, name):
                d["archive." + name] = _hex(getattr(arch, name))
    for name in ("population_size", "ideal_point", "utilities", "sigma", "xmean", "iteration"):
        if hasattr(alg, name):
            d[name] = _hex(getattr(alg, name))
    return d


def roundtrip_differs(alg):
    """pickle round trip inside this process: names of the deep-signature fields the copy does not reproduce"""
    import pickle
    live = deep_signature(alg)
    copy_ = deep_signature(pickle.loads(pickle.dumps({"algorithm": alg}))["algorithm"])
    return sorted(k for k in set(live) | set(copy_) if live.get(k) != copy_.get(k))


def job_history(job):
    """earlier, unrelated runs in this interpreter (other problems, library-default operators), then the seeded targets"""
    done = []
    for cfg in job["prelude"]:
        try:
            alg, _ = build(cfg)
            for _ in range(job.get("prelude_steps", 3)):
                alg.step()
            done.append(alg.nfe)
        except Exception as e:  # noqa: BLE001
            done.append("%s: %s" % (type(e).__name__, e))
    out = job_replay(job)
    out["prelude"] = done
    return out


def job_conds(job):
    """three consecutive run() calls with the same budget n, handed over as int / a fresh MaxEvaluations per call / ONE shared
    MaxEvaluations object; and the single call run(F) with F = nfe after the three int calls"""
    from platypus import MaxEvaluations
    out = []
    for cfg, n in zip(job["configs"], job["n"]):
        try:
            r = {}
            for mode in ("int", "fresh", "shared"):
                alg, _ = build(cfg)
                shared = MaxEvaluations(n)
                sizes = []
                for _ in range(3):
                    sizes.append(run_logged(alg, n if mode == "int" else (shared if mode == "shared" else MaxEvaluations(n))))
                r[mode] = {"sizes": sizes, "sig": signature(alg)}
            alg, _ = build(cfg)
            F = r["int"]["sig"]["nfe"]
            r["single"] = {"sizes": run_logged(alg, F), "sig": signature(alg), "F": F}
            out.append(r)
        except Exception as e:  # noqa: BLE001
            out.append({"error": "%s: %s" % (type(e).__name__, e)})
    return {"runs": out}


def job_repeat(job):
    """the same seeded configuration twice in a row in THIS interpreter (re-seeded, fresh algorithm object each time)"""
    first = job_replay(job)
    second = job_replay(job)
    return {"runs": first["runs"], "runs2": second["runs"]}


def job_replay(job):
    out = []
    for ci, cfg in enumerate(job["configs"]):
        try:
            # budget given by the parent (taken from the fresh-interpreter run) -> no pilot run in this interpreter
            T = job["T"][ci] if job.get("T") else pilot_T(cfg, job["K"])
            if job.get("late_seed") is not None:
                n0 = len(CTOR_DREW)
                alg, _ = build(cfg, late_seed=job["late_seed"] + ci)
                sizes = run_logged(alg, T)
                out.append({"T": T, "sizes": sizes, "sig": signature(alg), "ctor_drew": len(CTOR_DREW) > n0})
                continue
            alg, _ = build(cfg)
            sizes = run_logged(alg, T)
            out.append({"T": T, "sizes": sizes, "sig": signature(alg)})
        except Exception as e:  # noqa: BLE001
            out.append({"error": "%s: %s" % (type(e).__name__, e)})
    return {"runs": out, "hashseed_env": os.environ.get("PYTHONHASHSEED"), "hash_probe": hash("platypus") % 1000}


def job_produce(job):
    from platypus.io import save_state
    cfg = job["config"]
    K = job["K"]
    T = pilot_T(cfg, K)
    alg, _ = build(cfg)
    single_sizes = run_logged(alg, T)
    single = signature(alg)
    bounds = [0]
    for s in single_sizes:
        bounds.append(bounds[-1] + s)
    splits = []
    ext = job.get("extend", 0)
    for k in job["boundaries"]:
        if k >= len(bounds):
            continue
        n1 = bounds[k]
        alg, _ = build(cfg)
        sizes1 = run_logged(alg, n1) if k > 0 else []
        path = os.path.join(job["dir"], "state_%s_%d.bin" % (job["tag"], k))
        save_state(path, alg)
        at_save = deep_signature(alg)
        lost = roundtrip_differs(alg)
        n2 = max(0, T - n1)
        sizes2 = run_logged(alg, n2)
        splits.append({"k": k, "N1": n1, "N2": n2, "file": path, "sizes1": sizes1, "sizes2": sizes2, "mem": signature(alg),
                       "at_save": at_save, "roundtrip_lost": lost, "ext": False})
        if lost and ext:
            # search: the pickled copy is not the live object at this save point; continue much longer on both sides
            alg, _ = build(cfg)
            if k > 0:
                run_logged(alg, n1)
            n2x = n2 + ext
            sizes2x = run_logged(alg, n2x)
            splits.append({"k": k, "N1": n1, "N2": n2x, "file": path, "sizes1": sizes1, "sizes2": sizes2x, "mem": signature(alg),
                           "at_save": at_save, "roundtrip_lost": lost, "ext": True})
    return {"T": T, "single_sizes": single_sizes, "single": single, "splits": splits}


def job_resume(job):
    from platypus.io import load_state
    # the loading process has used its generator in between
    random.seed(job["disturb"])
    junk = [random.random() for _ in range(17)]
    random.shuffle(junk)
    alg = load_state(job["file"])
    at_load = deep_signature(alg)
    sizes2 = run_logged(alg, job["N2"])
    return {"sizes2": sizes2, "loaded": signature(alg), "at_load": at_load}


def main():
    job = json.load(open(sys.argv[1]))
    try:
        res = {"replay": job_replay, "produce": job_produce, "resume": job_resume, "history": job_history, "repeat": job_repeat, "conds": job_conds}[job["job"]](job)
    except Exception as e:  # noqa: BLE001
        import traceback
        res = {"error": "%s: %s" % (type(e).__name__, e), "trace": traceback.format_exc()[-1500:]}
    with open(sys.argv[2], "w") as f:
        json.dump(res, f)
