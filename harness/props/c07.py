"""C07 — the user's problem function is only ever called with in-domain arguments."""
import itertools
import math
import os
from collections import Counter
from concurrent.futures import ProcessPoolExecutor

from vlib import common as C
from vlib import trace as T

ID = "C07"
PROPS_FILE = "Props/C07.v"
COQ_TARGETS = ["Harness/H07.vo"]
ALLOWED_AXIOMS = []
META = {
    "level_text": "Machine-checked proof (Coq): Type.rand of every variable type yields in-domain encoded values (under the range contract of "
                  "the random primitives), every bit list of the declared length decodes to an integer in [min,max], decode/encode respect the "
                  "domains, the PSO position clamp and the CMA-ES rejection test return in-bounds values for every non-NaN candidate, the default "
                  "operator registry picks an operator acting on the class of every variable (Integer served by Binary operators, mixed types "
                  "rejected), and on the algorithm skeleton shared with C01 every solution submitted to evaluate_all and every argument vector "
                  "the user function receives is in the domain at every step of every trace (restarts and injected populations included). "
                  "Tie to /repo on every run: all 15 algorithms x applicable types are run with a wrapper around the user function / "
                  "Problem.evaluate logging EVERY argument vector; Coq decides InDomain on every logged call; the real _update_positions, "
                  "CMAES.sample and PlatypusConfig registry are compared with their models on generated cases; an independent Python oracle "
                  "asserts the domain on every call.",
    "level_note": "Explicit hypotheses of the theorems: the candidate handed to the PSO clamp / CMA-ES range test is not NaN (NaN-freeness of the "
                  "velocity and covariance float arithmetic is NOT proved; a NaN passes both tests: lemma pso_nan_passes); variation operators "
                  "preserve the encoded domain (C06's validity theorems) enters the skeleton invariant as hypothesis Op_dom; evaluator contract "
                  "as in C01; Integer.nbits is taken from the implementation (its float logarithm is C17's tie) under the stated bound "
                  "2^(nbits-1) <= max-min < 2^nbits. Termination of the CMA-ES rejection loop is not claimed (fuel). The step models of all 15 algorithms (Model/AlgSteps.v) "
                  "are proved to keep the invariant (c07_<alg>_step_in_domain; operators / position update / sampler / generator are abstract "
                  "functions with the domain contracts above); that the real code follows the models is validated on the sampled traces only. Elements of permutations/subsets are integers in the "
                  "harness. Trusted: Coq kernel + VM, the harness wrappers. No axioms.",
    "technique": "Coq proof (domain lemmas per producer + skeleton invariant) + trace validation of every user-function call (vm_compute) + function-case correspondence + independent oracle",
}

IMPORTS = ["Base.Num", "Model.Evaluate", "Model.AlgSkeleton", "Harness.H07"]
NWORKERS = max(2, min(8, (os.cpu_count() or 4) // 2))


def work(cfg):
    r = T.run_config(cfg)
    out = {k: r.get(k) for k in ("cfg", "status", "why", "exc", "exc_type", "tb", "c07_fail", "steps", "evaluations", "n_batches",
                                 "n_multi_batch_steps", "extreme_draws")}
    out["lit"] = None
    if r.get("calls") and r.get("types"):
        out["lit"] = T.c07_case_lit(r, expect=not r["c07_fail"])
        out["ncalls_distinct"] = len(T.dedupe_calls(r["calls"]) or r["calls"])
        out["sample"] = {"cfg": cfg, "types": repr(r["types"]), "first_calls": [repr(a) for a, _ in r["calls"][:3]], "calls": len(r["calls"])}
    return out


def configs(ctx):
    rng = ctx.rng
    grid = T.all_configs()
    cfgs = []
    for rep in range(ctx.scale(1, 6)):
        for i, g in enumerate(grid):
            if not ctx.thorough and (i + ctx.seed) % 2:
                continue                      # quick: half of the grid, rotated by the seed
            c = dict(g)
            c["steps"] = 10 if g["alg"] == "MOEAD" else 20
            c["evaluator"] = rng.choice(["map", "map", "copy", "thread"])
            cfgs.append(T.finalize(c, rng))
    for alg in T.ALGORITHMS:                       # heavy extreme draws (velocity coefficients, Gaussian samples, shuffles)
        kinds = [k for k in T.KINDS if T.applicable(alg, k)]
        for k in (kinds if ctx.thorough or alg in T.REAL_ONLY else [rng.choice(kinds)]):
            for p in (0.5, 0.9):
                cfgs.append(T.finalize({"alg": alg, "kind": k, "cons": "none", "maximize": False, "variator": "default", "script": p,
                                        "evaluator": "map", "steps": 25, "timeout": 90}, rng))
    for alg in ("ES", "PAES", "GA", "NSGAII"):     # mutation-only / BitFlip-heavy runs on Integer ranges whose size is a power of two
        for rep in range(ctx.scale(2, 8)):
            cfgs.append(T.finalize({"alg": alg, "kind": "intpow2", "cons": "none", "maximize": False,
                                    "variator": "default" if alg in ("ES", "PAES") else "explicit:0", "script": rng.choice([None, 0.15]),
                                    "evaluator": "map", "steps": 40, "size": 6}, rng))
    for k in T.KINDS:                              # restarts and injected populations on every type
        for rep in range(ctx.scale(1, 4)):
            cfgs.append(T.finalize({"alg": "EpsNSGAII", "kind": k, "cons": "cmp", "maximize": False, "variator": "default", "restart": True,
                                    "evaluator": "map", "steps": 20}, rng))
            cfgs.append(T.finalize({"alg": "NSGAII", "kind": k, "cons": "none", "maximize": True, "variator": "explicit", "archive": True,
                                    "restart": True, "inject": True, "evaluator": "map", "steps": 20}, rng))
            for alg in ("GA", "SPEA2", "PESA2", "MOEAD", "EpsMOEA") + (("SMPSO",) if k in T.REAL_KINDS else ()):
                cfgs.append(T.finalize({"alg": alg, "kind": k, "cons": "none", "maximize": False, "variator": "default", "inject": True,
                                        "evaluator": "map"}, rng))
    return cfgs


def negative_controls():
    """argument vectors that are NOT in the domain: the Coq decision procedure must say so"""
    nan = math.nan
    out = []
    for kind, vectors in (
        ("real", [[2.0000000000000004, 0.5], [-1.0000000000000002, 0.5], [0.0, nan], [0.0, math.inf], [0.0, -5e-324]]),
        ("integer", [[6, 0], [-4, 0], [0, 7], [0, -1]]),
        ("binary", [[(True,) * 4, (False,) * 3], [(True,) * 5, (False,) * 4], [(), (False,) * 3]]),
        ("binint", [[(True,) * 4, 7], [(True,) * 3, 0]]),
        ("perm", [[(0, 1, 2, 2), (7, 8, 9)], [(0, 1, 2), (7, 8, 9)], [(0, 1, 2, 3), (7, 8, 10)], [(0, 1, 2, 3, 3), (7, 8, 9)]]),
        ("subset", [[(0, 1, 1), (10, 20)], [(0, 1), (10, 20)], [(0, 1, 6), (10, 20)], [(0, 1, 2), (10, 20, 30)]]),
    ):
        types = T.types_desc(T.make_types(kind))
        for v in vectors:
            assert T.in_domain(T.make_types(kind), list(v)) is not None
            out.append("K7 %s %s false" % (C.list_lit([T.ty_lit(t) for t in types]),
                                           C.list_lit([C.list_lit([T.val_lit(td, x, True) for td, x in zip(types, v)])])))
    return out


def run(ctx):
    import time
    phase = {}
    t0 = time.time()
    cfgs = configs(ctx)
    with ProcessPoolExecutor(max_workers=NWORKERS, initializer=C.child_process_guard) as ex:
        results = list(ex.map(work, cfgs, chunksize=4))
    phase["real_runs_s"] = round(time.time() - t0, 1)
    t0 = time.time()
    dist = {"algorithm": Counter(), "type": Counter(), "scripted_extreme": Counter(), "status": Counter(), "operator": Counter(),
            "inject": 0, "restart_runs": 0, "restart_runs_with_extra_batches": 0, "extreme_draws": 0}
    lits, lit_cfg = [], []
    rejected, candidates, unexpected = [], [], []
    ncalls = 0
    for r in results:
        cfg = r["cfg"]
        ctx.count()
        dist["status"][r["status"]] += 1
        if r["status"] == "rejected":
            rejected.append({"cfg": "%s/%s" % (cfg["alg"], cfg["kind"]), "why": r.get("why")})
            continue
        if r["status"] == "exception":
            known = T.is_known_rejected(r)
            if known:
                candidates.append({"input": cfg, "exception": r["exc"], "note": known, "step": r.get("steps")})
            elif r.get("exc_type") == "PlatypusError":
                rejected.append({"cfg": cfg, "why": "library raised " + r["exc"]})
            else:
                unexpected.append(r)
        elif r["status"] == "timeout":
            unexpected.append(r)
        for f in r["c07_fail"][:2]:
            ctx.violation("user-function-called-out-of-domain:%s:%s" % (cfg["alg"], cfg["kind"]),
                          "%s on %s variables (seed %d, scripted %r): %s %s" % (cfg["alg"], cfg["kind"], cfg["seed"], cfg.get("script"),
                                                                              ("call #%d %s" % (f["call"], f["args"])) if "call" in f else "step %d" % f.get("step", -1),
                                                                              f["what"]),
                          {"kind": "run", "cfg": cfg, "fail": f})
        ncalls += r["evaluations"] or 0
        if r["lit"]:
            lits.append(r["lit"])
            lit_cfg.append(cfg)
        if r["status"] == "ok":
            dist["algorithm"][cfg["alg"]] += 1
            dist["type"][cfg["kind"]] += 1
            dist["scripted_extreme"][str(cfg.get("script"))] += 1
            dist["operator"]["default" if cfg.get("variator") == "default" else "explicit"] += 1
            dist["inject"] += bool(cfg.get("inject"))
            dist["extreme_draws"] += r.get("extreme_draws") or 0
            if cfg.get("restart"):
                dist["restart_runs"] += 1
                dist["restart_runs_with_extra_batches"] += bool(r.get("n_multi_batch_steps"))
            if (r["evaluations"] or 0) >= 10:
                ctx.mark("%s|%s|%s|%s|%s|%s|%s" % (cfg["alg"], cfg["kind"], cfg.get("variator"), cfg.get("script"), cfg["seed"],
                                                   bool(cfg.get("inject")), bool(cfg.get("restart"))))
            if r.get("sample"):
                ctx.sample(r["sample"], limit=3)
    ctx.obligation("traced-runs-complete(%d runs)" % len(results), "harness", not unexpected,
                   "; ".join("%s -> %s %s" % (u["cfg"], u["status"], u.get("exc")) for u in unexpected[:4]))
    for u in unexpected[:3]:
        ctx.sample({"unexpected": u["cfg"], "status": u["status"], "exc": u.get("exc"), "tb": u.get("tb")})
        # an exception in library code that prepares arguments of the user function, with operators the library chose itself
        ctx.violation("run-raised:%s:%s" % (u["cfg"]["alg"], u.get("exc_type")),
                      "%s on %s variables (seed %d) raised %s at step %s" % (u["cfg"]["alg"], u["cfg"]["kind"], u["cfg"]["seed"], u.get("exc"), u.get("steps")),
                      {"kind": "run", "cfg": u["cfg"]}, concrete=True) if u["status"] == "exception" else None
    phase["collect_s"] = round(time.time() - t0, 1)
    t0 = time.time()

    # default operators: registry correspondence + applicability oracle
    rng = ctx.rng
    classes = ["real", "binary", "integer", "perm", "subset"]
    combos = [(c,) for c in classes] + list(itertools.product(classes, repeat=2)) + \
             [tuple(rng.choice(classes) for _ in range(3)) for _ in range(ctx.scale(30, 200))] + [("integer",) * 3, ("binary", "integer", "binary")]
    reg_lits, reg_bad = [], []
    for cl in combos:
        names = T.registry_case(cl)
        ctx.count()
        if any(n is not None and n not in T.KNOWN_OPNAMES for n in names):
            reg_bad.append((cl, names))
            continue
        reg_lits.append(T.registry_lit(cl, names))
        ctx.mark("reg|" + ",".join(cl))
    for kind in T.KINDS:
        for key, what, rp in T.default_operator_oracle(kind, rng, ctx.scale(60, 600)):
            ctx.violation(key, what, rp)
        ctx.count(ctx.scale(60, 600) * 2)

    # Integer: EVERY bit string of the declared length decodes into [min, max] (the tie of c07_integer_decode_in_range),
    # for the Integer types of the traced configurations and a pool of ranges (sizes 2^k, 2^k +- 1, negative, wide)
    from platypus import Integer as _Integer
    ranges = list(T.INTEGER_RANGES)
    for kind in T.KINDS:
        for t in T.make_types(kind):
            if isinstance(t, _Integer) and (t.min_value, t.max_value) not in ranges:
                ranges.append((t.min_value, t.max_value))
    ncodes, int_fails = T.integer_decode_sweep(ranges, rng)
    ctx.count(ncodes)
    nbits_bad = [f for f in int_fails if f[0] == "integer-nbits-not-minimal"]
    for key, what, rp in [f for f in int_fails if f[0] != "integer-nbits-not-minimal"][:6]:
        ctx.violation("%s:Integer(%d,%d)" % (key, rp["min"], rp["max"]), what, rp)
    ctx.obligation("correspondence:integer-nbits-bound(%d ranges, %d codes decoded)" % (len(ranges), ncodes), "correspondence", not nbits_bad,
                   "; ".join(f[1] for f in nbits_bad[:4]))
    for (a, b) in ranges:
        ctx.mark("intrange|%d|%d" % (a, b))

    # Real.rand (the initial population) stays inside its bounds, very wide finite bounds included
    ndraws, rr_fails = T.real_rand_oracle(rng, ctx.scale(300, 3000))
    ctx.count(ndraws)
    for key, what, rp in rr_fails[:6]:
        ctx.violation(key, what, rp)
    for (a, b) in T.REAL_BOUNDS_POOL:
        ctx.mark("realrand|%r|%r" % (a, b))

    # PSO position update and CMA-ES sampler: real method vs model, plus bounds oracle
    pso_lits, pso_fails, pso_stats = T.pso_cases(rng, ctx.scale(600, 6000))
    cma_lits, cma_fails, cma_stats = T.cma_cases(rng, ctx.scale(300, 3000))
    ctx.count(len(pso_lits) + len(cma_lits))
    for i in range(0, len(pso_lits), 7):
        ctx.mark("pso|" + pso_lits[i][:160])
    for i in range(0, len(cma_lits), 7):
        ctx.mark("cma|" + cma_lits[i][:160])
    for key, what, rp in (pso_fails + cma_fails)[:6]:
        ctx.violation(key, what, rp)
    ctx.sample({"pso_case": pso_lits[0]}, limit=5)
    ctx.sample({"cma_case": cma_lits[0]}, limit=5)
    phase["function_cases_s"] = round(time.time() - t0, 1)
    t0 = time.time()

    neg = negative_controls()
    bad = C.run_coq_cases(ctx, "calls", IMPORTS, "c07case", "c07_check", lits + neg, shard=ctx.scale(40, 60))
    if bad is not None:
        ctx.obligation("correspondence:every-logged-call-in-domain(%d runs, %d calls, %d negative controls)" % (len(lits), ncalls, len(neg)),
                       "correspondence", not bad,
                       "Coq and the Python oracle disagree about: " + "; ".join(repr(lit_cfg[i]) if i < len(lits) else "negative control %d" % (i - len(lits)) for i in bad[:4]))
    bad = C.run_coq_cases(ctx, "registry", IMPORTS, "c07reg", "c07reg_check", reg_lits)
    if bad is not None:
        ctx.obligation("correspondence:default-operator-registry(%d type lists)" % len(reg_lits), "correspondence", not bad and not reg_bad,
                       "model and PlatypusConfig differ on %r %r" % ([reg_lits[i] for i in bad[:5]], reg_bad[:5]))
    bad = C.run_coq_cases(ctx, "pso", IMPORTS, "c07pso", "c07pso_check", pso_lits)
    if bad is not None:
        ctx.obligation("correspondence:pso_update_positions(%d particles)" % len(pso_lits), "correspondence", not bad,
                       "model and ParticleSwarm._update_positions differ on %r" % [pso_lits[i] for i in bad[:3]])
    bad = C.run_coq_cases(ctx, "cma", IMPORTS, "c07cma", "c07cma_check", cma_lits)
    if bad is not None:
        dis = cma_stats.pop("disagreements", [])
        ctx.obligation("correspondence:cma_sample(%d samples)" % len(cma_lits), "correspondence", not bad and not dis,
                       "model and CMAES.sample differ on %r; implementation asked for more draws than the modelled loop on %r" % (
                           [cma_lits[i] for i in bad[:3]], dis[:2]))
    phase["coq_s"] = round(time.time() - t0, 1)
    ctx.coverage.update({
        "phase_seconds": phase,
        "traces_validated_against_impl": len(lits),
        "user_function_calls_checked": ncalls,
        "negative_controls": len(neg),
        "registry_cases": len(reg_lits),
        "integer_ranges_swept": len(ranges), "integer_codes_decoded": ncodes,
        "pso_cases": len(pso_lits), "pso_stats": pso_stats,
        "cma_cases": len(cma_lits), "cma_stats": cma_stats,
        "input_distribution": {k: (dict(v) if isinstance(v, Counter) else v) for k, v in dist.items()},
        "rejected_configurations": rejected[:40],
        "rejected_configurations_count": len(rejected),
        "finding_candidates": candidates[:10],
        "finding_candidates_count": len(candidates),
    })
    ctx.rule = ("runs: the grid (quick: half of it, rotated by the seed; thorough: all of it x6) algorithm(15) x variable type(10 incl. mixed Binary+Integer, very narrow and very wide Real ranges, power-of-two Integer ranges, a user-defined ScaledReal type; Real only for GDE3/OMOPSO/SMPSO/CMAES) x "
                "{unconstrained, constrained} x {min, max} x {default, explicit operator} (thorough: x6), evaluator/seed/size/scripted-extreme-"
                "probability from ctx.rng, plus heavy-extreme-draw (p=0.5, 0.9), restart and injected-population specials; every call of the "
                "user function is logged; non-trivial run = >= 10 calls, distinct by configuration incl. seed. Function cases: registry = "
                "type-class lists (all singletons and pairs, random triples); PSO/CMA-ES = hand-built particles / scripted Gaussian candidates "
                "incl. values on and one ulp outside the bounds, +-inf, NaN velocities (every 7th literal counted as distinct)")
    ctx.assumptions += ["PSO/CMA-ES candidates are not NaN (explicit hypothesis of the theorems)",
                        "variation operators keep offspring in the encoded domain (C06)",
                        "rejected configurations (DESIGN section 7): size parameters 0, Integer(a,a), Real(lb,lb), Subset(...,0), mixed types without an "
                        "explicit operator, MAXIMIZE with NSGAIII/MOEAD; IBEA on a constrained problem with infeasible members raises "
                        "(recorded under coverage.finding_candidates, not a C07 violation)",
                        "OMOPSO / SMPSO / CMAES are not run on the very wide Real kind (bounds up to +-DBL_MAX): the velocity arithmetic (range/2, C*r*(best - x)) and "
                        "the CMA-ES initial mean (max - min) overflow to inf/NaN there, which is outside the theorems' explicit 'candidate is not NaN' hypothesis",
                        "runs with a ProcessPoolEvaluator are not used here (the call log lives in the workers); C01 covers them"]


def replay(ctx, data):
    rp = data.get("replay", {})
    kind = rp.get("kind")
    key = data.get("key", "replay")
    ctx.count()
    if kind == "run":
        r = T.run_config(rp["cfg"])
        ctx.coverage["replay_status"] = r["status"]
        for f in r["c07_fail"][:1]:
            ctx.violation(key, "replay: " + f["what"], rp)
        if r["status"] == "exception" and key.startswith("run-raised") and not T.is_known_rejected(r):
            ctx.violation(key, "replay: raised " + r["exc"], rp)
    elif kind == "default-op":
        import random
        for k, what, rp2 in T.default_operator_oracle(rp["type"], random.Random(rp.get("seed", 1)), 200):
            if k == key or key == "replay":
                ctx.violation(key, "replay: " + what, rp)
                break
    elif kind in ("integer-decode", "integer-nbits"):
        bad = T.integer_decode_replay(rp)
        if bad:
            ctx.violation(key, "replay: Integer(%d, %d) %s" % (rp["min"], rp["max"], bad), rp)
    elif kind == "real-rand":
        bad = T.real_rand_replay(rp)
        if bad:
            ctx.violation(key, "replay: Real(%s, %s).rand() %s" % (rp["lb"], rp["ub"], bad), rp)
    elif kind == "pso":
        bad = T.pso_replay(rp)
        if bad:
            ctx.violation(key, "replay: " + bad, rp)
    elif kind == "cma":
        bad = T.cma_replay(rp)
        if bad:
            ctx.violation(key, "replay: " + bad, rp)
    else:
        run(ctx)
    ctx.mark("replay")
    ctx.mark("replay-2")
