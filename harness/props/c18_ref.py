"""Independent reference implementations of the benchmark problems, written from the papers (NOT from
platypus/problems.py) for the differential oracle of C18.

  ZDT   Zitzler, Deb, Thiele 2000 (T1-T6)
  DTLZ  Deb, Thiele, Laumanns, Zitzler 2002/2005 (DTLZ1-4, 7)
  UF/CF Zhang et al., CEC 2009 competition report CES-487 (UF1-10, CF1-10; UF13 = WFG1 with k=8, l=22, M=5)
  WFG   Huband, Hingston, Barone, While 2006 (WFG1-9; transformation and shape functions of the toolkit)

Style: the papers' 1-based indices via X(x, i) = x_i; every function takes the decision vector and returns
(objectives, constraints).  Plain `math` floats; the oracle compares with relative tolerance 1e-9.
The toolkit's epsilon for correct_to_01 is 1e-10 as in the authors' C++ code.
"""
import math

PI = math.pi


def X(x, i):
    return x[i - 1]


# ----------------------------------------------------------------------------------------------- ZDT
def _zdt_g(x):
    n = len(x)
    return 1.0 + 9.0 * sum(X(x, i) for i in range(2, n + 1)) / (n - 1)


def zdt1(x):
    f1 = X(x, 1)
    g = _zdt_g(x)
    return [f1, g * (1.0 - math.sqrt(f1 / g))], []


def zdt2(x):
    f1 = X(x, 1)
    g = _zdt_g(x)
    return [f1, g * (1.0 - (f1 / g) ** 2)], []


def zdt3(x):
    f1 = X(x, 1)
    g = _zdt_g(x)
    return [f1, g * (1.0 - math.sqrt(f1 / g) - (f1 / g) * math.sin(10.0 * PI * f1))], []


def zdt4(x):
    n = len(x)
    f1 = X(x, 1)
    g = 1.0 + 10.0 * (n - 1) + sum(X(x, i) ** 2 - 10.0 * math.cos(4.0 * PI * X(x, i)) for i in range(2, n + 1))
    return [f1, g * (1.0 - math.sqrt(f1 / g))], []


def zdt5(bits):
    """bits: list of 11 bit lists (30, then 10 x 5)"""
    u = [sum(1 for b in v if b) for v in bits]
    f1 = 1.0 + u[0]
    g = sum((2 + ui) if ui < 5 else 1 for ui in u[1:])
    return [f1, g * (1.0 / f1)], []


def zdt6(x):
    n = len(x)
    f1 = 1.0 - math.exp(-4.0 * X(x, 1)) * math.sin(6.0 * PI * X(x, 1)) ** 6
    g = 1.0 + 9.0 * (sum(X(x, i) for i in range(2, n + 1)) / (n - 1)) ** 0.25
    return [f1, g * (1.0 - (f1 / g) ** 2)], []


def zdt_g(name, x):
    if name in ("ZDT1", "ZDT2", "ZDT3"):
        return _zdt_g(x)
    n = len(x)
    if name == "ZDT4":
        return 1.0 + 10.0 * (n - 1) + sum(X(x, i) ** 2 - 10.0 * math.cos(4.0 * PI * X(x, i)) for i in range(2, n + 1))
    if name == "ZDT6":
        return 1.0 + 9.0 * (sum(X(x, i) for i in range(2, n + 1)) / (n - 1)) ** 0.25
    raise KeyError(name)


# ----------------------------------------------------------------------------------------------- DTLZ
def _xM(x, M):
    return [X(x, i) for i in range(M, len(x) + 1)]


def _g_multi(xm):        # DTLZ1, DTLZ3
    return 100.0 * (len(xm) + sum((t - 0.5) ** 2 - math.cos(20.0 * PI * (t - 0.5)) for t in xm))


def _g_sphere(xm):       # DTLZ2, DTLZ4
    return sum((t - 0.5) ** 2 for t in xm)


def dtlz1(x, M):
    g = _g_multi(_xM(x, M))
    f = []
    for m in range(1, M + 1):
        v = 0.5 * (1.0 + g)
        for i in range(1, M - m + 1):
            v *= X(x, i)
        if m > 1:
            v *= 1.0 - X(x, M - m + 1)
        f.append(v)
    return f, []


def _spherical(theta, M, scale):
    f = []
    for m in range(1, M + 1):
        v = scale
        for i in range(1, M - m + 1):
            v *= math.cos(theta[i - 1])
        if m > 1:
            v *= math.sin(theta[M - m])
        f.append(v)
    return f


def dtlz2(x, M):
    g = _g_sphere(_xM(x, M))
    return _spherical([X(x, i) * PI / 2.0 for i in range(1, M)], M, 1.0 + g), []


def dtlz3(x, M):
    g = _g_multi(_xM(x, M))
    return _spherical([X(x, i) * PI / 2.0 for i in range(1, M)], M, 1.0 + g), []


def dtlz4(x, M, alpha=100.0):
    g = _g_sphere(_xM(x, M))
    return _spherical([X(x, i) ** alpha * PI / 2.0 for i in range(1, M)], M, 1.0 + g), []


def dtlz7(x, M):
    xm = _xM(x, M)
    g = 1.0 + 9.0 / len(xm) * sum(xm)
    f = [X(x, i) for i in range(1, M)]
    h = M - sum(fi / (1.0 + g) * (1.0 + math.sin(3.0 * PI * fi)) for fi in f)
    return f + [(1.0 + g) * h], []


def dtlz7_front_residual(f):
    """f lies on the g = 1 surface of DTLZ7 iff f_M = 2 (M - sum_i f_i/2 (1 + sin 3 pi f_i))"""
    M = len(f)
    return f[-1] - 2.0 * (M - sum(fi / 2.0 * (1.0 + math.sin(3.0 * PI * fi)) for fi in f[:-1]))


# ----------------------------------------------------------------------------------------------- UF / CF (CEC 2009)
def _J(n, r, mod, start):
    return [j for j in range(start, n + 1) if j % mod == r]


def _mean_sq(js, y):
    return 2.0 / len(js) * sum(y(j) ** 2 for j in js)


def uf1(x):
    n = len(x)
    y = lambda j: X(x, j) - math.sin(6.0 * PI * X(x, 1) + j * PI / n)  # noqa: E731
    return [X(x, 1) + _mean_sq(_J(n, 1, 2, 2), y), 1.0 - math.sqrt(X(x, 1)) + _mean_sq(_J(n, 0, 2, 2), y)], []


def uf2(x):
    n = len(x)
    x1 = X(x, 1)

    def y(j):
        a = 0.3 * x1 * x1 * math.cos(24.0 * PI * x1 + 4.0 * j * PI / n) + 0.6 * x1
        ph = 6.0 * PI * x1 + j * PI / n
        return X(x, j) - a * (math.cos(ph) if j % 2 == 1 else math.sin(ph))
    return [x1 + _mean_sq(_J(n, 1, 2, 2), y), 1.0 - math.sqrt(x1) + _mean_sq(_J(n, 0, 2, 2), y)], []


def _sum_prod_term(js, y):
    s = sum(y(j) ** 2 for j in js)
    p = 1.0
    for j in js:
        p *= math.cos(20.0 * y(j) * PI / math.sqrt(j))
    return 2.0 / len(js) * (4.0 * s - 2.0 * p + 2.0)


def uf3(x):
    n = len(x)
    x1 = X(x, 1)
    y = lambda j: X(x, j) - x1 ** (0.5 * (1.0 + 3.0 * (j - 2) / (n - 2)))  # noqa: E731
    return [x1 + _sum_prod_term(_J(n, 1, 2, 2), y), 1.0 - math.sqrt(x1) + _sum_prod_term(_J(n, 0, 2, 2), y)], []


def uf4(x):
    n = len(x)
    x1 = X(x, 1)
    y = lambda j: X(x, j) - math.sin(6.0 * PI * x1 + j * PI / n)  # noqa: E731
    h = lambda t: abs(t) / (1.0 + math.exp(2.0 * abs(t)))  # noqa: E731
    J1, J2 = _J(n, 1, 2, 2), _J(n, 0, 2, 2)
    return [x1 + 2.0 / len(J1) * sum(h(y(j)) for j in J1), 1.0 - x1 ** 2 + 2.0 / len(J2) * sum(h(y(j)) for j in J2)], []


def uf5(x, N=10, eps=0.1):
    n = len(x)
    x1 = X(x, 1)
    y = lambda j: X(x, j) - math.sin(6.0 * PI * x1 + j * PI / n)  # noqa: E731
    h = lambda t: 2.0 * t * t - math.cos(4.0 * PI * t) + 1.0  # noqa: E731
    J1, J2 = _J(n, 1, 2, 2), _J(n, 0, 2, 2)
    bump = (1.0 / (2.0 * N) + eps) * abs(math.sin(2.0 * N * PI * x1))
    return [x1 + bump + 2.0 / len(J1) * sum(h(y(j)) for j in J1), 1.0 - x1 + bump + 2.0 / len(J2) * sum(h(y(j)) for j in J2)], []


def uf6(x, N=2, eps=0.1):
    n = len(x)
    x1 = X(x, 1)
    y = lambda j: X(x, j) - math.sin(6.0 * PI * x1 + j * PI / n)  # noqa: E731
    bump = max(0.0, 2.0 * (1.0 / (2.0 * N) + eps) * math.sin(2.0 * N * PI * x1))
    return [x1 + bump + _sum_prod_term(_J(n, 1, 2, 2), y), 1.0 - x1 + bump + _sum_prod_term(_J(n, 0, 2, 2), y)], []


def uf7(x):
    n = len(x)
    x1 = X(x, 1)
    y = lambda j: X(x, j) - math.sin(6.0 * PI * x1 + j * PI / n)  # noqa: E731
    r = x1 ** 0.2
    return [r + _mean_sq(_J(n, 1, 2, 2), y), 1.0 - r + _mean_sq(_J(n, 0, 2, 2), y)], []


def _three(x, term):
    """UF8-10 / CF8-10 skeleton: J1 = {j: j-1 multiple of 3}, J2 = {j-2 ...}, J3 = {j multiple of 3}, 3 <= j <= n"""
    n = len(x)
    x1, x2 = X(x, 1), X(x, 2)
    y = lambda j: X(x, j) - 2.0 * x2 * math.sin(2.0 * PI * x1 + j * PI / n)  # noqa: E731
    J1, J2, J3 = _J(n, 1, 3, 3), _J(n, 2, 3, 3), _J(n, 0, 3, 3)
    S = [2.0 / len(J) * sum(term(y(j)) for j in J) for J in (J1, J2, J3)]
    return x1, x2, S


def uf8(x):
    x1, x2, S = _three(x, lambda t: t * t)
    return [math.cos(0.5 * x1 * PI) * math.cos(0.5 * x2 * PI) + S[0], math.cos(0.5 * x1 * PI) * math.sin(0.5 * x2 * PI) + S[1], math.sin(0.5 * x1 * PI) + S[2]], []


def uf9(x, eps=0.1):
    x1, x2, S = _three(x, lambda t: t * t)
    e = max(0.0, (1.0 + eps) * (1.0 - 4.0 * (2.0 * x1 - 1.0) ** 2))
    return [0.5 * (e + 2.0 * x1) * x2 + S[0], 0.5 * (e - 2.0 * x1 + 2.0) * x2 + S[1], 1.0 - x2 + S[2]], []


def uf10(x):
    x1, x2, S = _three(x, lambda t: 4.0 * t * t - math.cos(8.0 * PI * t) + 1.0)
    return [math.cos(0.5 * x1 * PI) * math.cos(0.5 * x2 * PI) + S[0], math.cos(0.5 * x1 * PI) * math.sin(0.5 * x2 * PI) + S[1], math.sin(0.5 * x1 * PI) + S[2]], []


def _sgn(v):
    return 1.0 if v > 0 else (-1.0 if v < 0 else 0.0)


def cf1(x, N=10, a=1.0):
    n = len(x)
    x1 = X(x, 1)
    y = lambda j: X(x, j) - x1 ** (0.5 * (1.0 + 3.0 * (j - 2) / (n - 2)))  # noqa: E731
    f1 = x1 + _mean_sq(_J(n, 1, 2, 2), y)
    f2 = 1.0 - x1 + _mean_sq(_J(n, 0, 2, 2), y)
    return [f1, f2], [f1 + f2 - a * abs(math.sin(N * PI * (f1 - f2 + 1.0))) - 1.0]


def cf2(x, N=2, a=1.0):
    n = len(x)
    x1 = X(x, 1)
    J1, J2 = _J(n, 1, 2, 2), _J(n, 0, 2, 2)
    f1 = x1 + 2.0 / len(J1) * sum((X(x, j) - math.sin(6.0 * PI * x1 + j * PI / n)) ** 2 for j in J1)
    f2 = 1.0 - math.sqrt(x1) + 2.0 / len(J2) * sum((X(x, j) - math.cos(6.0 * PI * x1 + j * PI / n)) ** 2 for j in J2)
    t = f2 + math.sqrt(f1) - a * math.sin(N * PI * (math.sqrt(f1) - f2 + 1.0)) - 1.0
    return [f1, f2], [t / (1.0 + math.exp(4.0 * abs(t)))]


def cf3(x, N=2, a=1.0):
    n = len(x)
    x1 = X(x, 1)
    y = lambda j: X(x, j) - math.sin(6.0 * PI * x1 + j * PI / n)  # noqa: E731
    f1 = x1 + _sum_prod_term(_J(n, 1, 2, 2), y)
    f2 = 1.0 - x1 ** 2 + _sum_prod_term(_J(n, 0, 2, 2), y)
    return [f1, f2], [f2 + f1 ** 2 - a * math.sin(N * PI * (f1 ** 2 - f2 + 1.0)) - 1.0]


def _h2(t):
    return abs(t) if t < 1.5 * (1.0 - math.sqrt(2.0) / 2.0) else 0.125 + (t - 1.0) ** 2


def cf4(x):
    n = len(x)
    x1 = X(x, 1)
    y = lambda j: X(x, j) - math.sin(6.0 * PI * x1 + j * PI / n)  # noqa: E731
    h = lambda j, t: _h2(t) if j == 2 else t * t  # noqa: E731
    f1 = x1 + sum(h(j, y(j)) for j in _J(n, 1, 2, 2))
    f2 = 1.0 - x1 + sum(h(j, y(j)) for j in _J(n, 0, 2, 2))
    t = X(x, 2) - math.sin(6.0 * PI * x1 + 2.0 * PI / n) - 0.5 * x1 + 0.25
    return [f1, f2], [t / (1.0 + math.exp(4.0 * abs(t)))]


def cf5(x):
    n = len(x)
    x1 = X(x, 1)

    def y(j):
        ph = 6.0 * PI * x1 + j * PI / n
        return X(x, j) - 0.8 * x1 * (math.cos(ph) if j % 2 == 1 else math.sin(ph))
    h = lambda j, t: _h2(t) if j == 2 else 2.0 * t * t - math.cos(4.0 * PI * t) + 1.0  # noqa: E731
    f1 = x1 + sum(h(j, y(j)) for j in _J(n, 1, 2, 2))
    f2 = 1.0 - x1 + sum(h(j, y(j)) for j in _J(n, 0, 2, 2))
    return [f1, f2], [X(x, 2) - 0.8 * x1 * math.sin(6.0 * PI * x1 + 2.0 * PI / n) - 0.5 * x1 + 0.25]


def _cf67_constraints(x, amp):
    n = len(x)
    x1 = X(x, 1)
    # 0.5 (1 - x1) - (1 - x1)^2 of the report, written in the algebraically identical factored form: the published form cancels
    # catastrophically next to x1 = 0.5 and sqrt|u| amplifies the 1e-17 rounding residue to 5e-9 (above the 1e-9 tolerance)
    u = (1.0 - x1) * (x1 - 0.5)
    w = 0.25 * math.sqrt(1.0 - x1) - 0.5 * (1.0 - x1)
    c1 = X(x, 2) - amp * math.sin(6.0 * PI * x1 + 2.0 * PI / n) - _sgn(u) * math.sqrt(abs(u))
    c2 = X(x, 4) - amp * math.sin(6.0 * PI * x1 + 4.0 * PI / n) - _sgn(w) * math.sqrt(abs(w))
    return [c1, c2]


def cf6(x):
    n = len(x)
    x1 = X(x, 1)

    def y(j):
        ph = 6.0 * PI * x1 + j * PI / n
        return X(x, j) - 0.8 * x1 * (math.cos(ph) if j % 2 == 1 else math.sin(ph))
    f1 = x1 + sum(y(j) ** 2 for j in _J(n, 1, 2, 2))
    f2 = (1.0 - x1) ** 2 + sum(y(j) ** 2 for j in _J(n, 0, 2, 2))
    return [f1, f2], _cf67_constraints(x, 0.8 * x1)


def cf7(x):
    n = len(x)
    x1 = X(x, 1)

    def y(j):
        ph = 6.0 * PI * x1 + j * PI / n
        return X(x, j) - (math.cos(ph) if j % 2 == 1 else math.sin(ph))
    h = lambda j, t: t * t if j in (2, 4) else 2.0 * t * t - math.cos(4.0 * PI * t) + 1.0  # noqa: E731
    f1 = x1 + sum(h(j, y(j)) for j in _J(n, 1, 2, 2))
    f2 = (1.0 - x1) ** 2 + sum(h(j, y(j)) for j in _J(n, 0, 2, 2))
    return [f1, f2], _cf67_constraints(x, 1.0)


def _cf8910(f, N, a, absolute):
    f1, f2, f3 = f
    q = (f1 ** 2 - f2 ** 2) / (1.0 - f3 ** 2)
    s = math.sin(N * PI * (q + 1.0))
    return [(f1 ** 2 + f2 ** 2) / (1.0 - f3 ** 2) - a * (abs(s) if absolute else s) - 1.0]


def cf8(x):
    f, _ = uf8(x)
    return f, _cf8910(f, 2, 4.0, True)


def cf9(x):
    f, _ = uf8(x)
    return f, _cf8910(f, 2, 3.0, False)


def cf10(x):
    f, _ = uf10(x)
    return f, _cf8910(f, 2, 1.0, False)


# ----------------------------------------------------------------------------------------------- WFG toolkit
WFG_EPS = 1.0e-10


def correct01(a):
    if -WFG_EPS <= a <= 0.0:
        return 0.0
    if 1.0 <= a <= 1.0 + WFG_EPS:
        return 1.0
    return a


def b_poly(y, alpha):
    return correct01(y ** alpha)


def b_flat(y, A, B, C):
    t1 = min(0.0, math.floor(y - B)) * A * (B - y) / B
    t2 = min(0.0, math.floor(C - y)) * (1.0 - A) * (y - C) / (1.0 - C)
    return correct01(A + t1 - t2)


def b_param(y, u, A, B, C):
    v = A - (1.0 - 2.0 * u) * abs(math.floor(0.5 - u) + A)
    return correct01(y ** (B + (C - B) * v))


def s_linear(y, A):
    return correct01(abs(y - A) / abs(math.floor(A - y) + A))


def s_decept(y, A, B, C):
    t1 = math.floor(y - A + B) * (1.0 - C + (A - B) / B) / (A - B)
    t2 = math.floor(A + B - y) * (1.0 - C + (1.0 - A - B) / B) / (1.0 - A - B)
    return correct01(1.0 + (abs(y - A) - B) * (t1 + t2 + 1.0 / B))


def s_multi(y, A, B, C):
    t = abs(y - C) / (2.0 * (math.floor(C - y) + C))
    return correct01((1.0 + math.cos((4.0 * A + 2.0) * PI * (0.5 - t)) + 4.0 * B * t * t) / (B + 2.0))


def r_sum(y, w):
    return correct01(sum(wi * yi for wi, yi in zip(w, y)) / sum(w))


def r_nonsep(y, A):
    n = len(y)
    num = 0.0
    for j in range(1, n + 1):
        num += y[j - 1]
        for k in range(0, A - 1):
            num += abs(y[j - 1] - y[(j + k) % n])          # y_{1 + (j+k) mod |y|}, 1-based
    c = math.ceil(A / 2.0)
    return correct01(num / (n / A * c * (1.0 + 2.0 * A - 2.0 * c)))


def _groups(k, M):
    return [(((i - 1) * k) // (M - 1), (i * k) // (M - 1)) for i in range(1, M)]       # 0-based half-open


def wfg_shape(t, kind, degenerate=False):
    """t = (t_1..t_M) -> objectives.  kind: 'wfg1' (convex + mixed), 'wfg2' (convex + disc), 'linear', 'concave'"""
    M = len(t)
    A = [1.0] * (M - 1)
    if degenerate:
        A = [1.0] + [0.0] * (M - 2)
    x = [max(t[-1], A[i]) * (t[i] - 0.5) + 0.5 for i in range(M - 1)] + [t[-1]]

    def prod(fn, upto):
        p = 1.0
        for i in range(1, upto + 1):
            p *= fn(X(x, i))
        return p
    h = []
    for m in range(1, M + 1):
        if kind in ("wfg1", "wfg2") and m == M:
            x1 = X(x, 1)
            if kind == "wfg1":      # mixed_M, alpha = 1, A = 5
                Am, al = 5.0, 1.0
                h.append(correct01((1.0 - x1 - math.cos(2.0 * Am * PI * x1 + PI / 2.0) / (2.0 * Am * PI)) ** al))
            else:                   # disc_M, alpha = beta = 1, A = 5
                h.append(correct01(1.0 - x1 ** 1.0 * math.cos(5.0 * x1 ** 1.0 * PI) ** 2))
            continue
        if kind in ("wfg1", "wfg2"):
            v = prod(lambda u: 1.0 - math.cos(u * PI / 2.0), M - m)
            if m > 1:
                v *= 1.0 - math.sin(X(x, M - m + 1) * PI / 2.0)
        elif kind == "linear":
            v = prod(lambda u: u, M - m)
            if m > 1:
                v *= 1.0 - X(x, M - m + 1)
        else:
            v = prod(lambda u: math.sin(u * PI / 2.0), M - m)
            if m > 1:
                v *= math.cos(X(x, M - m + 1) * PI / 2.0)
        h.append(correct01(v))
    return [1.0 * x[-1] + 2.0 * m * h[m - 1] for m in range(1, M + 1)], x


def wfg_transform(name, z, k, M):
    """the transition vectors of problem `name` -> t^p (list of M values)"""
    n = len(z)
    y = [z[i] / (2.0 * (i + 1)) for i in range(n)]
    ones = [1.0] * n

    def reduce_sum(y, w):
        t = [r_sum(y[a:b], w[a:b]) for a, b in _groups(k, M)]
        return t + [r_sum(y[k:], w[k:])]

    def reduce_nonsep(y):
        t = [r_nonsep(y[a:b], k // (M - 1)) for a, b in _groups(k, M)]
        return t + [r_nonsep(y[k:], n - k)]
    shift = lambda y: y[:k] + [s_linear(v, 0.35) for v in y[k:]]  # noqa: E731
    if name in ("WFG1", "UF13"):
        y = shift(y)
        y = y[:k] + [b_flat(v, 0.8, 0.75, 0.85) for v in y[k:]]
        y = [b_poly(v, 0.02) for v in y]
        return reduce_sum(y, [2.0 * (i + 1) for i in range(n)])
    if name in ("WFG2", "WFG3"):
        y = shift(y)
        l = n - k
        y = y[:k] + [r_nonsep([y[k + 2 * (i - k) - 2], y[k + 2 * (i - k) - 1]], 2) for i in range(k + 1, k + l // 2 + 1)]
        return reduce_sum(y, [1.0] * len(y))
    if name == "WFG4":
        return reduce_sum([s_multi(v, 30, 10, 0.35) for v in y], ones)
    if name == "WFG5":
        return reduce_sum([s_decept(v, 0.35, 0.001, 0.05) for v in y], ones)
    if name == "WFG6":
        return reduce_nonsep(shift(y))
    if name == "WFG7":
        y = [b_param(y[i], r_sum(y[i + 1:], ones[i + 1:]), 0.98 / 49.98, 0.02, 50) for i in range(k)] + y[k:]
        return reduce_sum(shift(y), ones)
    if name == "WFG8":
        y = y[:k] + [b_param(y[i], r_sum(y[:i], ones[:i]), 0.98 / 49.98, 0.02, 50) for i in range(k, n)]
        return reduce_sum(shift(y), ones)
    if name == "WFG9":
        y = [b_param(y[i], r_sum(y[i + 1:], ones[i + 1:]), 0.98 / 49.98, 0.02, 50) for i in range(n - 1)] + [y[-1]]
        y = [s_decept(v, 0.35, 0.001, 0.05) for v in y[:k]] + [s_multi(v, 30, 95, 0.35) for v in y[k:]]
        return reduce_nonsep(y)
    raise KeyError(name)


WFG_KIND = {"WFG1": ("wfg1", False), "UF13": ("wfg1", False), "WFG2": ("wfg2", False), "WFG3": ("linear", True)}


def wfg(name, z, k, M):
    t = wfg_transform(name, z, k, M)
    kind, deg = WFG_KIND.get(name, ("concave", False))
    f, _x = wfg_shape(t, kind, deg)
    return f, []


# ----------------------------------------------------------------------------------------------- dispatch
SIMPLE = {"ZDT1": zdt1, "ZDT2": zdt2, "ZDT3": zdt3, "ZDT4": zdt4, "ZDT6": zdt6,
          "UF1": uf1, "UF2": uf2, "UF3": uf3, "UF4": uf4, "UF5": uf5, "UF6": uf6, "UF7": uf7, "UF8": uf8, "UF9": uf9, "UF10": uf10,
          "CF1": cf1, "CF2": cf2, "CF3": cf3, "CF4": cf4, "CF5": cf5, "CF6": cf6, "CF7": cf7, "CF8": cf8, "CF9": cf9, "CF10": cf10}
BY_M = {"DTLZ1": dtlz1, "DTLZ2": dtlz2, "DTLZ3": dtlz3, "DTLZ4": dtlz4, "DTLZ7": dtlz7}


def reference(name, x, nobjs, k=None, alpha=None):
    """(objectives, constraints) of problem `name` at x, or None when no independent reference exists (UF11, UF12)"""
    if name in SIMPLE:
        return SIMPLE[name](list(x))
    if name == "DTLZ4" and alpha is not None:
        return dtlz4(list(x), nobjs, alpha)
    if name in BY_M:
        return BY_M[name](list(x), nobjs)
    if name.startswith("WFG") or name == "UF13":
        return wfg(name, list(x), k, nobjs)
    if name == "ZDT5":
        return zdt5(x)
    return None


# fronts of the two-objective UF problems: f2 >= front(f1) for every in-bounds x
def uf_front(name, f1):
    """lower bound of f2 given f1 (None when f1 is outside the range where the bound is defined)"""
    if name in ("UF1", "UF2", "UF3"):
        return 1.0 - math.sqrt(f1) if f1 >= 0 else None
    if name == "UF4":
        return 1.0 - f1 ** 2
    if name == "UF7":
        return 1.0 - f1
    return None
