"""C02 — Pareto dominance is the constraint-first strict partial order."""
import itertools
import math
from vlib import common as C
from vlib import plat

ID = "C02"
PROPS_FILE = "Props/C02.v"
COQ_TARGETS = ["Harness/H02.vo"]
ALLOWED_AXIOMS = []
# second tie (translator): coq/Gen/Core.v is regenerated from the source text of C.REPO on every run and
# coq/Tie/T02.v proves generated definition = hand model (harness/translate/py2coq_core.py)
EXTRA_PROPS = ["Tie/T02.v"]


def prebuild(ctx):
    import os
    import sys
    sys.path.insert(0, os.path.join(C.VERIF, "harness", "translate"))
    import py2coq_core
    py2coq_core.prebuild(ctx, C, ["ParetoDominance.compare", "AttributeDominance.compare"])


META = {
    "level_text": "Machine-checked proof (Coq) that the literal model of ParetoDominance.compare equals the constraint-first Pareto order "
                  "for every number of objectives, direction vector and value (incl. +-inf), with antisymmetry, irreflexivity/twins and transitivity; "
                  "the model is tied to /repo on every run by exact differential correspondence (floats shipped as m*2^e, compared in Coq by vm_compute) "
                  "and an independent oracle of the English definition on the real code.",
    "level_note": "Tie/T02.v also states specification, antisymmetry, irreflexivity and transitivity about the ParetoDominance.compare GENERATED from the source text (tie_c02_generated_*). Trusted: Coq kernel + VM; the harness (literal printer, shard runner); the hand-written model is tied to the code only on the sampled/exhaustive "
                  "inputs of the correspondence (exhaustive over a 5-value pool for <=2 objectives, random beyond). NaN objectives are outside the property. "
                  "No axioms (all theorems closed under the global context).",
    "technique": "Coq proof over an abstract strict weak order + exact model/implementation correspondence (vm_compute)",
}

INF = math.inf
from fractions import Fraction
BIG = 2 ** 60
# objective values need not be floats: Python ints beyond 2**53 and Fractions compare exactly with each other and with
# floats, so a comparator that converts to float first is visible on them
POOL = [-INF, -2.0, -1.0, -0.5, -0.0, 0.0, 0.5, 1.0, 2.0, INF, 1e300, -1e300, 5e-324, 0.1, 0.30000000000000004, 0.3,
        BIG, BIG + 1, -BIG, -(BIG + 1), 2 ** 53 + 1, 3, Fraction(1, 3), Fraction(2 ** 60 + 1, 2 ** 60)]
CVPOOL = [0.0, 5e-324, 1e-9, 0.5, 1.0, 1.0000000000000002, INF]


def spec_better(con, dirs, a, b):
    """English definition, written independently of the model."""
    (oa, ca), (ob, cb) = a, b
    if con and ca < cb:
        return True
    if con and ca != cb:
        return False
    xa = [plat.adj(v, mx) for v, mx in zip(oa, dirs)]
    xb = [plat.adj(v, mx) for v, mx in zip(ob, dirs)]
    return all(x <= y for x, y in zip(xa, xb)) and any(x < y for x, y in zip(xa, xb))


def spec_compare(con, dirs, a, b):
    if spec_better(con, dirs, a, b):
        return -1
    if spec_better(con, dirs, b, a):
        return 1
    return 0


_SHARED = []


def shared_cmp():
    """One comparator instance used for ALL comparisons of a run (the library itself shares default
    ParetoDominance() instances between archives and algorithms), so a result that depends on what the
    comparator saw before shows up as a model/implementation disagreement."""
    from platypus import ParetoDominance
    if not _SHARED:
        _SHARED.append(ParetoDominance())
    return _SHARED[0]


_PROBLEMS = {}
_TOGGLE = [0]


def get_problem(con, dirs):
    """Every other call reuses ONE Problem object per (nobjs, nconstrs) and re-declares its directions in place
    (problem.directions[i] = ...), the way a user flips an objective on an existing problem; the other calls build
    a fresh Problem.  Together with the shared comparator this exposes answers that depend on a stale view of the
    problem's directions."""
    from platypus import Direction
    nc = 1 if con == 1 else (2 if con else 0)
    _TOGGLE[0] += 1
    if _TOGGLE[0] % 2:
        return plat.mk_problem(len(dirs), dirs, nconstrs=nc)
    key = (len(dirs), nc)
    if key not in _PROBLEMS:
        _PROBLEMS[key] = plat.mk_problem(len(dirs), dirs, nconstrs=nc)
    p = _PROBLEMS[key]
    for i, mx in enumerate(dirs):
        p.directions[i] = Direction.MAXIMIZE if mx else Direction.MINIMIZE
    return p


def impl_compare(con, dirs, a, b):
    p = get_problem(con, dirs)
    s1 = plat.mk_solution(p, a[0], a[1])
    s2 = plat.mk_solution(p, b[0], b[1])
    return shared_cmp().compare(s1, s2), p, s1, s2


def case_lit(con, dirs, a, b, r):
    return "C2 %s %s %s %s %s %s %s" % (
        C.bool_lit(bool(con)), C.list_lit([C.bool_lit(d) for d in dirs]),
        C.list_lit([C.xq_lit(v) for v in a[0]]), C.xq_lit(a[1]),
        C.list_lit([C.xq_lit(v) for v in b[0]]), C.xq_lit(b[1]), C.z_lit(r))


def gen_point(rng, n, pool):
    return [rng.choice(pool) if rng.random() < 0.7 else rng.choice([-1, 1]) * math.ldexp(rng.randrange(1, 64), rng.randrange(-6, 3)) for _ in range(n)]


def gen_cases(ctx):
    rng = ctx.rng
    cases = []
    # exhaustive over a 5-value pool: 1 and 2 objectives, all directions, unconstrained;
    small = [-INF, -1.0, 0.0, 1.0, INF]
    for n in (1, 2):
        for dirs in itertools.product([False, True], repeat=n):
            for oa in itertools.product(small, repeat=n):
                for ob in itertools.product(small, repeat=n):
                    cases.append((0, list(dirs), (list(oa), 0.0), (list(ob), 0.0)))
    # 1 objective x all violation pairs
    for dirs in ([False], [True]):
        for oa in small:
            for ob in small:
                for ca in CVPOOL:
                    for cb in CVPOOL:
                        cases.append((1, dirs, ([oa], ca), ([ob], cb)))
    if ctx.thorough:
        for dirs in itertools.product([False, True], repeat=3):
            for oa in itertools.product([-1.0, 0.0, INF], repeat=3):
                for ob in itertools.product([-1.0, 0.0, INF], repeat=3):
                    for con, ca, cb in ((0, 0.0, 0.0), (1, 0.0, 0.5), (1, 0.5, 0.5), (2, 1.0, 0.5)):
                        cases.append((con, list(dirs), (list(oa), ca), (list(ob), cb)))
    # random, with many ties
    nrand = ctx.scale(3000, 100000)
    for _ in range(nrand):
        n = rng.randrange(1, 7)
        dirs = [rng.random() < 0.4 for _ in range(n)]
        con = rng.choice([0, 0, 1, 2])
        pool = rng.sample(POOL, rng.randrange(2, 6)) if rng.random() < 0.6 else POOL
        oa = gen_point(rng, n, pool)
        if rng.random() < 0.5:
            ob = list(oa)
            for i in range(n):
                if rng.random() < 0.4:
                    ob[i] = rng.choice(pool + [math.nextafter(oa[i], INF), math.nextafter(oa[i], -INF)])
        else:
            ob = gen_point(rng, n, pool)
        # on an UNCONSTRAINED problem (con == 0) the solutions may still carry a stale non-zero constraint_violation
        # attribute; the definition says it must be ignored there
        ca = rng.choice(CVPOOL) if (con or rng.random() < 0.3) else 0.0
        cb = (ca if rng.random() < 0.4 else rng.choice(CVPOOL)) if (con or rng.random() < 0.3) else 0.0
        cases.append((con, dirs, (oa, ca), (ob, cb)))
    return cases


def run(ctx):
    cases = gen_cases(ctx)
    # interleave direction vectors / sizes so a shared comparator meets changing problems
    ctx.rng.shuffle(cases)
    lits = []
    dist = {"n_objs": {}, "constrained": 0, "ties_some": 0, "result": {-1: 0, 0: 0, 1: 0}}
    for (con, dirs, a, b) in cases:
        r, p, s1, s2 = impl_compare(con, dirs, a, b)
        ctx.count()
        dist["n_objs"][len(dirs)] = dist["n_objs"].get(len(dirs), 0) + 1
        dist["constrained"] += 1 if con else 0
        dist["result"][r] = dist["result"].get(r, 0) + 1
        ties = sum(1 for x, y in zip(a[0], b[0]) if x == y)
        if 0 < ties < len(dirs):
            dist["ties_some"] += 1
        if (0 < ties < len(dirs)) or (con and a[1] != b[1]) or any(dirs):
            ctx.mark(repr((con, dirs, a, b)))
        lits.append(case_lit(con, dirs, a, b, r))
        # oracle: English definition + laws on the real code
        exp = spec_compare(con, dirs, a, b)
        if r != exp:
            ctx.violation("compare-differs-from-definition", "ParetoDominance.compare(%r,%r) dirs=%r constrained=%r returned %r, definition says %r" % (a, b, dirs, con, r, exp),
                          {"kind": "pair", "con": con, "dirs": dirs, "a": [list(map(repr, a[0])), repr(a[1])], "b": [list(map(repr, b[0])), repr(b[1])], "impl": r, "expected": exp})
        from platypus import ParetoDominance
        rf = ParetoDominance().compare(s1, s2)
        if rf != r:
            ctx.violation("compare-depends-on-comparator-history", "a comparator instance that has been used before answers %r, a fresh one %r, for %r %r dirs=%r constrained=%r" % (r, rf, a, b, dirs, con),
                          {"kind": "pair", "con": con, "dirs": dirs, "a": [list(map(repr, a[0])), repr(a[1])], "b": [list(map(repr, b[0])), repr(b[1])], "impl": r, "expected": exp, "note": "shared comparator instance; replay runs the whole sequence"})
        # re-declare a random subset of objectives in place (negate the values on the same Solution objects, flip the
        # direction on the same Problem object): the answer of the same comparator must not change
        from platypus import Direction
        J = [i for i in range(len(dirs)) if ctx.rng.random() < 0.5] or [0]
        for i in J:
            s1.objectives[i] = -s1.objectives[i]
            s2.objectives[i] = -s2.objectives[i]
            p.directions[i] = Direction.MINIMIZE if dirs[i] else Direction.MAXIMIZE
        rj = shared_cmp().compare(s1, s2)
        for i in J:
            s1.objectives[i] = -s1.objectives[i]
            s2.objectives[i] = -s2.objectives[i]
            p.directions[i] = Direction.MAXIMIZE if dirs[i] else Direction.MINIMIZE
        if rj != r:
            ctx.violation("compare-changes-under-in-place-negation", "after negating objectives %r of both solutions and flipping their directions in place on the same problem, compare answers %r instead of %r for %r %r dirs=%r" % (J, rj, r, a, b, dirs),
                          {"kind": "pair", "con": con, "dirs": dirs, "a": [list(map(repr, a[0])), repr(a[1])], "b": [list(map(repr, b[0])), repr(b[1])], "impl": r, "expected": exp, "note": "in-place re-declaration on a shared comparator; replay runs the whole sequence"})
        r2 = shared_cmp().compare(s2, s1)
        if r2 != -r:
            ctx.violation("compare-not-antisymmetric", "compare(b,a)=%r but compare(a,b)=%r for %r %r dirs=%r" % (r2, r, a, b, dirs),
                          {"kind": "pair", "con": con, "dirs": dirs, "a": [list(map(repr, a[0])), repr(a[1])], "b": [list(map(repr, b[0])), repr(b[1])], "impl": r, "expected": exp})
    ctx.sample({"constrained": cases[-1][0], "maximize": cases[-1][1], "a": repr(cases[-1][2]), "b": repr(cases[-1][3])})
    ctx.sample({"coq_case": lits[len(lits) // 2]})
    # transitivity on triples (oracle on the real code)
    from platypus import ParetoDominance
    rng = ctx.rng
    ntr = ctx.scale(1500, 30000)
    cmp = ParetoDominance()
    tri_hits = 0
    for _ in range(ntr):
        n = rng.randrange(1, 5)
        dirs = [rng.random() < 0.4 for _ in range(n)]
        con = rng.choice([0, 1])
        pool = rng.sample(POOL, 3)
        p = plat.mk_problem(n, dirs, nconstrs=con)
        pts = []
        for _k in range(3):
            pts.append(plat.mk_solution(p, [rng.choice(pool) for _ in range(n)], rng.choice([0.0, 0.5, 1.0]) if con else 0.0))
        ctx.count()
        for x, y, z in itertools.permutations(pts, 3):
            if cmp.compare(x, y) == -1 and cmp.compare(y, z) == -1:
                tri_hits += 1
                if cmp.compare(x, z) != -1:
                    ctx.violation("compare-not-transitive", "x>y>z but not x>z: %s %s %s dirs=%r" % (x, y, z, dirs),
                                  {"kind": "triple", "con": con, "dirs": dirs, "pts": [[list(map(repr, s.objectives[:])), repr(s.constraint_violation)] for s in (x, y, z)]})
    dist["transitive_chains_checked"] = tri_hits
    ctx.coverage["input_distribution"] = dist
    ctx.rule = ("pairs: exhaustive over {-inf,-1,0,1,inf} for 1-2 objectives x all directions, 1 objective x all violation pairs, "
                "plus random pairs (1-6 objectives, value pool incl. +-inf, 1e300, 5e-324, -0.0, adjacent floats, forced ties); "
                "non-trivial = tie in a strict subset of coordinates, or differing violations on a constrained problem, or a maximised objective; distinct by full input")
    bad = C.run_coq_cases(ctx, "pairs", ["Base.Num", "Model.Dominance", "Harness.H02"], "c02case", "c02_check", lits)
    if bad is not None:
        ctx.obligation("correspondence:pareto_compare(%d cases)" % len(lits), "correspondence", not bad,
                       "model and implementation differ on cases %r; first: %s" % (bad[:10], lits[bad[0]] if bad else ""))
        ctx.coverage["correspondence_cases"] = len(lits)
        ctx.coverage["correspondence_mismatches"] = len(bad)
        for i in bad[:5]:
            con, dirs, a, b = cases[i]
            # search: the oracle already ran on this input (above); record the disagreeing input for the replay
            ctx.sample({"model_impl_disagree": repr(cases[i])})


def replay(ctx, data):
    rp = data.get("replay", {})
    if rp.get("kind") == "pair":
        a = ([plat.parse_num(x) for x in rp["a"][0]], float(rp["a"][1]))
        b = ([plat.parse_num(x) for x in rp["b"][0]], float(rp["b"][1]))
        if rp.get("note"):
            return run(ctx)   # history-dependent failure: re-run the whole sequence
        r, *_ = impl_compare(rp["con"], rp["dirs"], a, b)
        exp = spec_compare(rp["con"], rp["dirs"], a, b)
        ctx.count()
        r2, *_ = impl_compare(rp["con"], rp["dirs"], b, a)
        if r != exp or r2 != -r:
            ctx.violation(data.get("key", "replay"), "replay: compare=%r reverse=%r definition=%r" % (r, r2, exp), rp)
    elif rp.get("kind") == "triple":
        from platypus import ParetoDominance
        p = plat.mk_problem(len(rp["dirs"]), rp["dirs"], nconstrs=rp["con"])
        x, y, z = [plat.mk_solution(p, [plat.parse_num(v) for v in o], float(c)) for o, c in rp["pts"]]
        cmp = ParetoDominance()
        if cmp.compare(x, y) == -1 and cmp.compare(y, z) == -1 and cmp.compare(x, z) != -1:
            ctx.violation(data.get("key", "replay"), "replay: transitivity fails", rp)
    else:
        run(ctx)
