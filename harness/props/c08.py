"""C08 — run(N) stops on budget: honest evaluation counter, overshoot under one step."""
import signal

from vlib import algos
from vlib import common as C

ID = "C08"
PROPS_FILE = "Props/C08.v"
COQ_TARGETS = ["Harness/H08.vo"]
ALLOWED_AXIOMS = []
# second tie (translator): coq/Gen/Core.v is regenerated from the source text of C.REPO on every run and
# coq/Tie/T08.v proves generated definition = hand model (harness/translate/py2coq_core.py)
EXTRA_PROPS = ["Tie/T08.v"]


def prebuild(ctx):
    import os
    import sys
    sys.path.insert(0, os.path.join(C.VERIF, "harness", "translate"))
    import py2coq_core
    py2coq_core.prebuild(ctx, C, ["MaxEvaluations.shouldTerminate", "Algorithm.run", "Algorithm.run[callback=None]"])


META = {
    "level_text": "Machine-checked proof (Coq) about a literal model of Algorithm.run / MaxEvaluations / Algorithm.evaluate_all: for every state type, "
                  "step function and hooks that never decrease nfe, run(N) terminates (fuel N suffices), stops at the FIRST step boundary at which the "
                  "evaluations counted since the call reach N (no step is started once the budget is met), overshoots by less than the last step, "
                  "run(0) makes no step, nfe strictly increases per step and bounds the real calls, evaluate_all calls the problem function only on "
                  "members whose flag is clear (at most once each), a second run measures its budget from the current state; the per-step progress "
                  "hypothesis is proved for the batch-size skeleton of all 15 shipped algorithms under sizes >= 1.  Tied to /repo on every run by trace "
                  "validation: real runs of all 15 algorithms (sizes incl. 1, odd sizes, offspring < parents, budgets around step multiples, 1-3 consecutive "
                  "run calls) are logged through a wrapper of Algorithm.evaluate_all and a counting problem function, and Coq (vm_compute) checks each "
                  "logged trace is a run of the model (accepts; its meaning is theorem c08_accepts_sound); an independent per-step oracle with a "
                  "non-progress watchdog asserts the statement's clauses on the same runs.",
    "level_note": "Tie/T08.v also states stops-at-the-first-boundary and run(0) about the Algorithm.run GENERATED from the source text (tie_c08_generated_*). Trusted: Coq kernel + VM; the harness (evaluate_all wrapper, identity bookkeeping, literal printer). The step of each algorithm is modelled "
                  "only through the sizes of the batches it submits (skeleton: GA/ES/NSGAII/NSGAIII/EpsMOEA/EpsNSGAII/GDE3/SPEA2/MOEAD/IBEA/PAES/PESA2/"
                  "OMOPSO/SMPSO/CMAES as functions of population/offspring/swarm size and children per mating); that the real step submits those batches, "
                  "that extensions only evaluate through evaluate_all and that nothing else moves nfe is tied by the sampled traces, not proved from the "
                  "source. A size parameter of 0 is a rejected configuration (run() spins; c08_zero_size_no_progress shows the model agrees); MaxTime and "
                  "user termination conditions are outside the property. No axioms (all theorems closed under the global context).",
    "technique": "Coq proof of an executable run-loop model (fuel proved sufficient) + trace validation of real runs by vm_compute + per-step oracle with watchdog",
}

KIND = {"GA": "K_GA", "ES": "K_ES", "NSGAII": "K_NSGAII", "NSGAIII": "K_NSGAIII", "EpsMOEA": "K_EpsMOEA",
        "EpsNSGAII": "K_EpsNSGAII", "GDE3": "K_GDE3", "SPEA2": "K_SPEA2", "MOEAD": "K_MOEAD", "IBEA": "K_IBEA",
        "PAES": "K_PAES", "PESA2": "K_PESA2", "OMOPSO": "K_OMOPSO", "SMPSO": "K_SMPSO", "CMAES": "K_CMAES"}

STEP_TIMEOUT_S = 120   # wall clock per step; a step takes milliseconds, the margin is for heavily loaded machines
REJECTED_ERRORS = ("objective with empty range",)   # IBEA on a population whose objective range is degenerate (input rejected by the code)


class Abort(Exception):
    pass


class StepTimeout(Exception):
    pass


# ----------------------------------------------------------------------------
# tracing a real run
# ----------------------------------------------------------------------------
class Tracer:
    """Logs every batch handed to Algorithm.evaluate_all and every real call of the problem function."""

    def __init__(self):
        self.ids = {}
        self.keep = []
        self.cur_batches = []
        self.cur_called = []
        self.bad_calls = []      # (sid, why)
        self.dups = 0
        self.cur_vectors = []    # decoded decision vectors the problem function received during the current step

    def sid(self, obj):
        k = id(obj)
        if k not in self.ids:
            self.ids[k] = len(self.keep)
            self.keep.append(obj)    # keep alive so that id() is never reused
        return self.ids[k]

    def on_batch(self, solutions):
        b = [(self.sid(s), bool(s.evaluated)) for s in solutions]
        if len(set(x for x, _ in b)) != len(b):
            self.dups += 1
        self.cur_batches.append(b)

    def on_call(self, solution):
        s = self.sid(solution)
        if solution.evaluated:
            self.bad_calls.append((s, "problem function called on a solution whose evaluated flag is set"))
        self.cur_called.append(s)
        self.cur_vectors.append(repr(list(solution.variables)))

    def take(self):
        b, c = self.cur_batches, self.cur_called
        self.cur_batches, self.cur_called = [], []
        self.last_vectors, self.cur_vectors = self.cur_vectors, []
        return b, c


def install(tracer):
    from platypus.core import Algorithm
    orig = Algorithm.evaluate_all

    def evaluate_all(self, solutions):
        solutions = list(solutions) if not isinstance(solutions, list) else solutions
        tracer.on_batch(solutions)
        return orig(self, solutions)

    Algorithm.evaluate_all = evaluate_all
    return lambda: setattr(Algorithm, "evaluate_all", orig)


def _alarm(*_a):
    raise StepTimeout()


def build_from(cfgd):
    return algos.build(cfgd["alg"], cfgd["vtype"], pop=cfgd["pop"], off=cfgd.get("off"), seed=cfgd["seed"],
                       constrained=cfgd.get("constrained", False), variator=cfgd.get("variator"),
                       window=cfgd.get("window"), inject=cfgd.get("inject", 0), nobjs=cfgd.get("nobjs"), wrapper=cfgd.get("wrapper"),
                       **cfgd.get("extra", {}))


def pilot_boundaries(cfgd, nsteps=5):
    """nfe at the first step boundaries of this configuration and seed (used only to choose budgets)."""
    alg, info = build_from(cfgd)
    out = []
    signal.signal(signal.SIGALRM, _alarm)
    signal.alarm(STEP_TIMEOUT_S)
    try:
        for _ in range(nsteps):
            alg.step()
            out.append(alg.nfe)
            if len(out) > 1 and out[-1] <= out[-2]:
                break
    finally:
        signal.alarm(0)
    return out


def trace_run(cfgd, budgets, cond="int"):
    """Run the configuration with the consecutive budgets; returns a dict with the log and the oracle's findings.
    cond: how the budget is handed to run(): "int" run(N) | "fresh" run(MaxEvaluations(N)), a new object per call |
          "shared" ONE MaxEvaluations(N) object reused by all consecutive calls (budgets must then be equal)."""
    from platypus import MaxEvaluations
    shared_cond = MaxEvaluations(budgets[0]) if cond == "shared" else None
    tr = Tracer()
    restore = install(tr)
    findings = []        # (key, what)
    calls = []
    aborted = None
    try:
        alg, info = build_from(cfgd)
        problem = alg.problem
        problem.hook = tr.on_call
        tr.take()
        injected = list(getattr(alg, "verif_injected", []))
        inj_decoded = {}
        for s_ in injected:
            dec = repr([problem.types[i].decode(s_.variables[i]) for i in range(problem.nvars)])
            inj_decoded[dec] = [float(o) for o in s_.objectives]
        first_step_done = [alg.nfe != 0]
        for N in budgets:
            nfe0 = alg.nfe
            real0 = problem.calls
            steps = []
            state = {"prev": nfe0, "cfg": algos.current_cfg(alg, info), "real": real0}

            def callback(a, steps=steps, state=state, N=N, nfe0=nfe0):
                signal.alarm(STEP_TIMEOUT_S)
                b, called = tr.take()
                st = {"batches": b, "nfe": a.nfe, "called": called, "cfg": state["cfg"], "real": problem.calls}
                steps.append(st)
                # ---- end-to-end clause for warm starts (InjectedPopulation holding already-evaluated solutions) ----
                if injected and not first_step_done[0]:
                    first_step_done[0] = True
                    submitted = sum(len(x) for x in b)
                    consumed = min(len(injected), len(b[0]) if b else 0)
                    if len(called) > submitted - consumed:
                        findings.append(("injected-evaluated-solution-evaluated-again",
                                         "initialisation submitted %d solutions, %d of them injected already evaluated, but the problem function ran %d times "
                                         "(at most %d allowed)" % (submitted, consumed, len(called), submitted - consumed)))
                    if cfgd["vtype"] == "real":
                        again = [v for v in tr.last_vectors if v in inj_decoded]
                        if again:
                            findings.append(("injected-evaluated-solution-evaluated-again",
                                             "the problem function was called with the decision vector of %d injected, already evaluated solution(s), e.g. %s" % (
                                                 len(again), again[0][:90])))
                    held = getattr(a, "population", None) or getattr(a, "particles", None) or []
                    for h in held:
                        dec = repr([problem.types[i].decode(h.variables[i]) for i in range(problem.nvars)])
                        if dec in inj_decoded and ([float(o) for o in h.objectives] != inj_decoded[dec] or not h.evaluated):
                            findings.append(("injected-solution-lost-its-evaluation", "a held solution with injected variables carries objectives %r, injected %r" % (
                                list(h.objectives), inj_decoded[dec])))
                            break
                # ---- oracle, per step (the statement's clauses, independent of the model) ----
                if state["prev"] - nfe0 >= N:
                    findings.append(("step-started-after-budget-met", "a step was started although nfe-nfe0=%d >= N=%d" % (state["prev"] - nfe0, N)))
                if a.nfe <= state["prev"]:
                    findings.append(("step-without-progress", "a step left nfe at %d (was %d): run(%d) would never terminate" % (a.nfe, state["prev"], N)))
                    raise Abort("no progress")
                if problem.calls - state["real"] != len(called):
                    findings.append(("call-counter-mismatch", "problem function ran %d times, hook saw %d" % (problem.calls - state["real"], len(called))))
                if problem.calls - real0 > a.nfe - nfe0:
                    findings.append(("nfe-smaller-than-real-calls", "since the call: %d real calls but nfe advanced by %d" % (problem.calls - real0, a.nfe - nfe0)))
                if len(steps) > max(N, 1) + 2:
                    findings.append(("run-does-not-stop", "more than N+2 steps for run(%d)" % N))
                    raise Abort("too many steps")
                state["prev"] = a.nfe
                state["real"] = problem.calls
                state["cfg"] = algos.current_cfg(a, info)

            signal.signal(signal.SIGALRM, _alarm)
            signal.alarm(STEP_TIMEOUT_S)
            try:
                alg.run(N if cond == "int" else (shared_cond if cond == "shared" else MaxEvaluations(N)), callback=callback)
            finally:
                signal.alarm(0)
            stray_b, stray_c = tr.take()
            call = {"N": N, "steps": steps, "nfe0": nfe0, "nfe_end": alg.nfe, "real0": real0, "real_end": problem.calls}
            calls.append(call)
            # ---- oracle, per call ----
            if stray_b or stray_c:
                findings.append(("evaluation-outside-a-step", "run(%d): %d batches / %d calls outside the step loop" % (N, len(stray_b), len(stray_c))))
            if alg.nfe - nfe0 < N:
                findings.append(("stopped-before-budget", "run(%d) returned with nfe-nfe0=%d" % (N, alg.nfe - nfe0)))
            if N == 0 and (steps or alg.nfe != nfe0 or problem.calls != real0):
                findings.append(("run-zero-evaluated", "run(0) made %d steps, nfe %d->%d, real calls +%d" % (len(steps), nfe0, alg.nfe, problem.calls - real0)))
            if steps:
                last = steps[-1]["nfe"] - (steps[-2]["nfe"] if len(steps) > 1 else nfe0)
                if (alg.nfe - nfe0) - N >= last:
                    findings.append(("overshoot-not-under-one-step", "run(%d): overshoot %d, last step %d" % (N, alg.nfe - nfe0 - N, last)))
                if steps[-1]["nfe"] != alg.nfe:
                    findings.append(("nfe-moved-outside-a-step", "nfe after last step %d, after run %d" % (steps[-1]["nfe"], alg.nfe)))
            if problem.calls > alg.nfe + cfgd.get("inject", 0):
                findings.append(("nfe-smaller-than-real-calls", "total real calls %d > nfe %d" % (problem.calls, alg.nfe)))
        for sid, why in tr.bad_calls:
            findings.append(("evaluated-solution-evaluated-again", "%s (object #%d)" % (why, sid)))
    except Abort as e:
        aborted = "watchdog: %s" % e
    except StepTimeout:
        aborted = "timeout"
        findings.append(("step-does-not-return", "a step did not return within %ds (non-termination)" % STEP_TIMEOUT_S))
    except Exception as e:  # noqa: BLE001
        import traceback
        msg = "%s: %s" % (type(e).__name__, e)
        tb = traceback.format_exc()
        if any(r in msg for r in REJECTED_ERRORS) or (isinstance(e, ZeroDivisionError) and "_update_utility" in tb):
            # MOEAD._update_utility divides by the previous scalarised fitness, which is 0.0 when a member sits on the ideal point
            aborted = "rejected-input: " + msg
        else:
            aborted = "exception: " + msg
            findings.append(("run-raised", "run raised %s" % msg))
    finally:
        signal.alarm(0)
        restore()
    return {"calls": calls, "findings": findings, "aborted": aborted, "dups": tr.dups,
            "info": info if "info" in locals() else None}


# ----------------------------------------------------------------------------
# Coq literal
# ----------------------------------------------------------------------------
def lit_members(b):
    return "[" + ";".join("(%d,%s)" % (s, "true" if f else "false") for s, f in b) + "]"


def lit_step(st, skel):
    pop, off, kids, nsub = st["cfg"]
    return "mkStep [%s] %d [%s] (mkCfg %d %d %d %d) %s" % (
        ";".join(lit_members(b) for b in st["batches"]), st["nfe"], ";".join(str(x) for x in st["called"]),
        pop, off, kids, nsub, "true" if skel else "false")


def lit_case(alg, calls, skel=True):
    cs = []
    for c in calls:
        cs.append("mkCall %d [%s] %d" % (c["N"], "; ".join(lit_step(st, skel) for st in c["steps"]), c["nfe_end"]))
    return "T8 %s [%s]" % (KIND[alg], ";\n  ".join(cs))


# ----------------------------------------------------------------------------
# configurations and budgets
# ----------------------------------------------------------------------------
def size_configs(alg, thorough):
    """(pop, off) pairs: 1 where legal, odd sizes with two-child variators, offspring < parents"""
    m = algos.MIN_POP[alg]
    if alg in ("GA", "ES"):
        base = [(1, 1), (2, 3), (3, 2), (5, 1), (3, 5), (4, 4)]
        if thorough:
            base += [(1, 4), (6, 3), (7, 7), (2, 1)]
        return base
    if alg == "CMAES":
        return [(2, 2), (3, 3), (5, 5)] + ([(4, 4), (7, 7)] if thorough else [])
    if alg == "PAES":
        return [(1, 1)]
    if alg == "NSGAIII":
        return [(1, 1), (4, 4)] + ([(2, 2), (5, 5)] if thorough else [])   # divisions_outer -> population 4, 8
    sizes = sorted(set(max(m, x) for x in ((1, 2, 3, 5, 4, 7) if thorough else (1, 2, 3, 5))))
    return [(p, p) for p in sizes]


def configs(ctx):
    rng = ctx.rng
    out = []
    seedbase = ctx.seed * 7919
    for alg in algos.ALGORITHMS:
        vts = algos.applicable_vtypes(alg)
        for i, (pop, off) in enumerate(size_configs(alg, ctx.thorough)):
            vt = "real" if (i % 2 == 0 or len(vts) == 1) else vts[rng.randrange(1, len(vts))]
            out.append({"alg": alg, "vtype": vt, "pop": pop, "off": off, "seed": seedbase + len(out)})
        # variants
        if alg in ("GA", "NSGAII", "SPEA2", "IBEA", "PESA2", "EpsMOEA", "NSGAIII", "MOEAD", "EpsNSGAII"):
            p = max(3, algos.MIN_POP[alg])
            out.append({"alg": alg, "vtype": vts[rng.randrange(len(vts))], "pop": p, "off": p, "variator": "mutation", "seed": seedbase + len(out)})
            out.append({"alg": alg, "vtype": "real", "pop": p + 1 if alg != "NSGAIII" else 3, "off": 4, "variator": "pcx3", "seed": seedbase + len(out)})
        if alg not in ("CMAES",):
            # warm starts: InjectedPopulation holding k already-evaluated solutions, k <, = and > the population size
            p = max(3, algos.MIN_POP[alg])
            eff = {"NSGAIII": 4, "PAES": 1}.get(alg, p)          # population the algorithm really builds
            for k in sorted(set(x for x in (eff - 1, eff, eff + 2) if x >= 1)):
                out.append({"alg": alg, "vtype": "real", "pop": p if alg != "NSGAIII" else 1, "off": 2, "inject": k, "seed": seedbase + len(out)})
        if alg not in ("GA", "ES", "IBEA", "MOEAD", "NSGAIII"):
            # constrained problem (MOEAD / NSGAIII / IBEA have documented restrictions on it, see DESIGN.md section 7)
            p = max(4, algos.MIN_POP[alg])
            out.append({"alg": alg, "vtype": "real", "pop": p, "off": 3, "constrained": True, "seed": seedbase + len(out)})
        if alg == "EpsNSGAII":
            for w in (1, 2, 3):
                out.append({"alg": alg, "vtype": "real", "pop": 2 + w, "off": 2, "window": w, "seed": seedbase + len(out)})
                out.append({"alg": alg, "vtype": "binary", "pop": 3, "off": 2, "window": w, "seed": seedbase + len(out)})
            # restarts forced by max_window_size only; their extra batch is often EMPTY (evaluate_all([]) inside post_step)
            out.append({"alg": alg, "vtype": "real", "pop": 4, "off": 2, "window": [1, 3, 1, 2], "seed": seedbase + len(out)})
        if alg in ("NSGAII", "EpsNSGAII"):
            # the DEPRECATED wrapper form (platypus/deprecated.py) around the algorithm: the clauses are asserted on the WRAPPER (its nfe, its run())
            for wr in ("atc", "epc"):
                for w in ((1, [1, 3, 1, 2]) if not ctx.thorough else (1, 2, 3, [1, 3, 1, 2], [2, 4, 2, 20])):
                    for vt in ("real", "binary") if isinstance(w, int) and w == 1 else ("real",):
                        out.append({"alg": alg, "vtype": vt, "pop": 3 + (len(out) % 3), "off": 2, "window": w, "wrapper": wr, "seed": seedbase + len(out)})
        if alg == "MOEAD":
            out.append({"alg": alg, "vtype": "real", "pop": 3, "off": 3, "extra": {"update_utility": 2}, "seed": seedbase + len(out)})
            # MOEA/D: utility-based search on/off x weight generator (library default, normal boundary, a tiny user generator with 2-4
            # fixed vectors) x 2-10 weight vectors x 2-3 objectives; neighbourhood <= population
            pops = [2, 3, 4, 5, 6, 10]
            nbw = {2: [1, 2, 3, 4, 5, 9], 3: [1, 2, 3]}           # divisions_outer -> 2,3,4,5,6,10 resp. 3,6,10 weight vectors
            for nobjs in (2, 3):
                for uu in (None, 1, 5):
                    fam = [None] * len(pops), [["nbw", d] for d in nbw[nobjs]], [["fixed", n] for n in (2, 3, 4)]
                    picks = []
                    for j, p in enumerate(pops):
                        if ctx.thorough or (j + nobjs + (uu or 0) + ctx.seed) % 3 == 0:
                            picks.append((None, p))
                    for j, w in enumerate(fam[1]):
                        if ctx.thorough or (j + (uu or 0) + ctx.seed) % 2 == 0:
                            picks.append((w, 0))
                    picks += [(w, 0) for w in fam[2]]
                    for w, p in picks:
                        ex = {"weights": w, "neighborhood_size": 2 + (len(out) % 3)}
                        if uu is not None:
                            ex["update_utility"] = uu
                        out.append({"alg": alg, "vtype": "real", "pop": p, "off": p, "nobjs": nobjs, "extra": ex, "few_budgets": True,
                                    "seed": seedbase + len(out)})
    return out


def budget_sequences(ctx, bounds, quick_n):
    """budget sequences around the observed step boundaries b_k: {0, 1, b_k-1, b_k, b_k+1} and 2-3 consecutive calls"""
    rng = ctx.rng
    seqs = [[0], [1]]
    for k in range(min(3, len(bounds))):
        for d in (-1, 0, 1):
            n = bounds[k] + d
            if n >= 0:
                seqs.append([n])
    steps = [bounds[0]] + [b - a for a, b in zip(bounds, bounds[1:])]
    typical = max(1, steps[-1] if steps else 1)

    def second(cur):
        # budget relative to the current position: 0, 1, j*step-1, j*step, j*step+1
        j = rng.randrange(1, 3)
        return max(0, rng.choice([0, 1, j * typical - 1, j * typical, j * typical + 1]))
    multi = []
    for _ in range(ctx.scale(4, 12)):
        first = rng.choice([0, 1] + [b + d for b in bounds[:3] for d in (-1, 0, 1) if b + d >= 0])
        seq = [first, second(first)]
        if rng.random() < 0.5:
            seq.append(second(0))
        multi.append(seq)
    multi.append([0, 0, typical])
    multi.append([bounds[0], 0, 1])
    # long runs (about a dozen steps and more), so that rarely taken paths of a step are visited too
    longs = [[bounds[-1] + 10 * typical], [bounds[-1] + 3 * typical + 1, 6 * typical, 4 * typical - 1]]
    if ctx.thorough:
        longs += [[bounds[-1] + 40 * typical], [1, 25 * typical + 1]]
    uniq = []
    for s in [[0], [1]] + longs + seqs + multi:
        if s not in uniq:
            uniq.append(s)
    if not ctx.thorough and len(uniq) > quick_n:
        head = uniq[:2 + len(longs)]
        rest = uniq[2 + len(longs):]
        rng.shuffle(rest)
        uniq = head + rest[:quick_n - len(head)]
    return uniq


def classify(N, call):
    """relation of the budget to the step boundaries of this call"""
    rel = [st["nfe"] - call["nfe0"] for st in call["steps"]]
    if N == 0:
        return "zero"
    if rel and rel[-1] == N:
        return "exact-multiple"
    if rel and len(rel) > 1 and N == rel[-2] + 1:
        return "just-above-boundary"
    if rel and N == rel[-1] - 1:
        return "just-below-boundary"
    return "inside-step"


def report(ctx, cfgd, budgets, res, cond="int"):
    for key, what in res["findings"]:
        ctx.violation("%s:%s" % (cfgd["alg"] + ("+" + cfgd["wrapper"] if cfgd.get("wrapper") else ""), key),
                      "%s%s pop=%s off=%s vtype=%s variator=%s seed=%s budgets=%r (%s): %s" % (
                          cfgd["alg"], "+deprecated wrapper " + cfgd["wrapper"] if cfgd.get("wrapper") else "", cfgd["pop"], cfgd.get("off"), cfgd["vtype"],
                          cfgd.get("variator"), cfgd["seed"], budgets,
                          {"int": "run(int)", "fresh": "run(MaxEvaluations(N)), new object per call",
                           "shared": "the SAME MaxEvaluations object passed to every call"}[cond], what),
                      {"kind": "trace", "config": cfgd, "budgets": budgets, "cond": cond, "finding": key})


def run(ctx):
    cfgs = configs(ctx)
    lits, meta = [], []
    dist = {"per_algorithm": {}, "budget_relation": {}, "calls_per_trace": {1: 0, 2: 0, 3: 0}, "steps_total": 0,
            "batches_total": 0, "members_submitted": 0, "members_already_evaluated": 0, "restart_batches": 0,
            "rejected_inputs": 0, "aborted": 0, "batches_listing_an_object_twice": 0, "warm_start_traces": 0, "condition_object": {}, "deprecated_wrapper_traces": 0, "deprecated_wrapper_restarts": 0, "warm_start_k_vs_population": {"k<pop": 0, "k=pop": 0, "k>pop": 0}, "empty_batches": 0, "sizes": {}}
    for cfgd in cfgs:
        try:
            bounds = pilot_boundaries(cfgd)
        except Exception as e:  # noqa: BLE001
            import traceback
            msg = "%s: %s" % (type(e).__name__, e)
            if any(r in msg for r in REJECTED_ERRORS) or (isinstance(e, ZeroDivisionError) and "_update_utility" in traceback.format_exc()):
                dist["rejected_inputs"] += 1
                continue
            ctx.violation("%s:step-raised" % cfgd["alg"], "step() raised %s on %r" % (msg, cfgd), {"kind": "trace", "config": cfgd, "budgets": [bounds_default(cfgd)], "finding": "run-raised"})
            continue
        if not bounds or any(b <= a for a, b in zip([0] + bounds, bounds)):
            # the pilot itself saw a step without progress: let the traced run report it
            bounds = [b for b in bounds if b > 0] or [max(cfgd["pop"], 1)]
        seqs = [(b, "int") for b in budget_sequences(ctx, bounds, ctx.scale(6 if cfgd.get("few_budgets") else 9, 40))]
        # the budget handed over as a TerminationCondition object: a fresh one per call, and ONE object reused by 2-3 consecutive calls
        tb = bounds[min(1, len(bounds) - 1)]
        for n in sorted(set([tb, tb + 1] + ([max(1, tb - 1), bounds[0]] if ctx.thorough else []))):
            seqs.append(([n, n, n], "shared"))
        if cfgd.get("few_budgets") and not ctx.thorough:
            seqs = seqs[:-1]
        else:
            seqs.append(([tb + 1, tb + 1], "shared"))
            seqs.append(([tb, 0, tb + 1], "fresh"))
        for budgets, cond in seqs:
            res = trace_run(cfgd, budgets, cond)
            ctx.count()
            dist["condition_object"][cond] = dist["condition_object"].get(cond, 0) + 1
            report(ctx, cfgd, budgets, res, cond)
            if res["aborted"]:
                if res["aborted"].startswith("rejected-input"):
                    dist["rejected_inputs"] += 1
                else:
                    dist["aborted"] += 1
                continue
            calls = res["calls"]
            alg = cfgd["alg"]
            dist["batches_listing_an_object_twice"] += res["dups"]
            if cfgd.get("inject") and calls and calls[0]["steps"] and calls[0]["nfe0"] == 0:
                dist["warm_start_traces"] += 1
                first = calls[0]["steps"][0]["batches"]
                n0 = len(first[0]) if first else 0
                rel = "k<pop" if cfgd["inject"] < n0 else ("k=pop" if cfgd["inject"] == n0 else "k>pop")
                dist["warm_start_k_vs_population"][rel] += 1
            dist["empty_batches"] += sum(1 for c in calls for st in c["steps"] for b in st["batches"] if not b)
            dist["per_algorithm"][alg] = dist["per_algorithm"].get(alg, 0) + 1
            dist["calls_per_trace"][len(calls)] = dist["calls_per_trace"].get(len(calls), 0) + 1
            key = "%s pop=%s off=%s" % (alg, cfgd["pop"], cfgd.get("off"))
            dist["sizes"][key] = dist["sizes"].get(key, 0) + 1
            nontrivial = len(calls) > 1
            for c in calls:
                r = classify(c["N"], c)
                dist["budget_relation"][r] = dist["budget_relation"].get(r, 0) + 1
                dist["steps_total"] += len(c["steps"])
                for st in c["steps"]:
                    dist["batches_total"] += len(st["batches"])
                    for b in st["batches"]:
                        dist["members_submitted"] += len(b)
                        ev = sum(1 for _, f in b if f)
                        dist["members_already_evaluated"] += ev
                        nontrivial = nontrivial or ev > 0
                if c["steps"] and c["nfe_end"] - c["nfe0"] > c["N"]:
                    nontrivial = True
            if alg == "EpsNSGAII" and not cfgd.get("wrapper"):
                for c in calls:
                    dist["restart_batches"] += sum(1 for st in c["steps"] if len(st["batches"]) > 1)
            if cfgd.get("wrapper"):
                dist["deprecated_wrapper_traces"] += 1
                for c in calls:
                    dist["deprecated_wrapper_restarts"] += sum(1 for st in c["steps"] if len(st["batches"]) > 1)
            if nontrivial and any(c["steps"] for c in calls):
                ctx.mark(repr((sorted((k, repr(v)) for k, v in cfgd.items()), budgets)))
            lits.append(lit_case("EpsNSGAII" if cfgd.get("wrapper") else alg, calls))     # wrapper: NSGA-II step + optional restart batch
            meta.append((cfgd, budgets, cond))
            if len(ctx.samples) < 3 and len(calls) > 1 and any(c["steps"] for c in calls):
                ctx.sample({"config": cfgd, "budgets": budgets,
                            "nfe_per_step": [[st["nfe"] for st in c["steps"]] for c in calls],
                            "real_calls_per_step": [[len(st["called"]) for st in c["steps"]] for c in calls],
                            "batch_sizes": [[[len(b) for b in st["batches"]] for st in c["steps"]] for c in calls]})
    if lits:
        ctx.sample({"coq_case": lits[len(lits) // 2][:1500]})
    ctx.coverage["input_distribution"] = dist
    ctx.coverage["traces_validated_against_impl"] = len(lits)
    ctx.coverage["configurations"] = len(cfgs)
    ctx.coverage["rejected_configurations"] = (
        "size parameters of 0 are rejected inputs (DESIGN.md section 7: initialize evaluates nothing, nfe stays 0, run() spins; the model agrees: "
        "theorem c08_zero_size_no_progress); sizes below the documented minimum of an algorithm (GDE3 < 4, SPEA2 < 3, IBEA < 2, CMAES < 2) raise in the "
        "constructor or first step and are not run; IBEA raising 'objective with empty range' on a degenerate population and MOEAD._update_utility raising ZeroDivisionError "
        "(it divides by the previous scalarised fitness, 0.0 when a member sits on the ideal point; seen with random_weights(3, population_size=2)) are "
        "exceptions unrelated to the budget clauses and are counted under rejected_inputs; MOEA/D with 2-4 weight vectors and neighbourhood <= population runs "
        "normally on the unchanged tree")
    ctx.coverage["rejected_config_probe"] = zero_size_probe()
    ctx.rule = ("traces = every shipped algorithm x size configurations (1 where legal, odd sizes with two-child variators, offspring < parents, one-child and "
                "three-child variators, warm starts through InjectedPopulation with k <, = and > population_size already-evaluated solutions (end-to-end clause: the "
                "initialisation step may call the problem function at most submitted - consumed times and never with an injected solution's variables), constrained problem, eps-NSGA-II with short restart windows, the deprecated wrapper forms AdaptiveTimeContinuation / EpsilonProgressContinuation around NSGA-II and eps-NSGA-II (clauses on the wrapper object), budgets given as int, as a fresh MaxEvaluations per call and as ONE MaxEvaluations object reused by 2-3 consecutive calls, MOEA/D with utility "
                "updates) x budgets {0, 1, b_k-1, b_k, b_k+1 for the observed step boundaries b_k} x 1-3 consecutive run() calls; non-trivial = at least one step "
                "and (more than one call, or an already-evaluated member was submitted, or the budget was overshot); distinct by (configuration, seed, budgets)")
    if lits:
        bad = C.run_coq_cases(ctx, "traces", ["Base.Num", "Model.RunLoop", "Harness.H08"], "c08case", "c08_check", lits,
                              shard=150, prelude="Open Scope nat_scope.")
        if bad is not None:
            ctx.obligation("correspondence:run-loop-trace-accepted(%d traces)" % len(lits), "correspondence", not bad,
                           "model rejects traces %r; first: %r budgets=%r cond=%s" % (bad[:10], meta[bad[0]][0] if bad else "", meta[bad[0]][1] if bad else "",
                                                                                       meta[bad[0]][2] if bad else ""))
            ctx.coverage["correspondence_cases"] = len(lits)
            ctx.coverage["correspondence_mismatches"] = len(bad)
            # search around each rejected trace: same configuration, neighbouring budgets and seeds, oracle only
            for i in bad[:5]:
                cfgd, budgets, cond = meta[i]
                ctx.sample({"model_rejects": {"config": cfgd, "budgets": budgets, "cond": cond}})
                for ds in range(3):
                    for db in (-1, 0, 1):
                        c2 = dict(cfgd, seed=cfgd["seed"] + ds)
                        b2 = [max(0, b + db) for b in budgets]
                        report(ctx, c2, b2, trace_run(c2, b2, cond), cond)
                        ctx.count()


def bounds_default(cfgd):
    return max(1, cfgd.get("pop", 1))


def zero_size_probe():
    """Documents the rejected configuration: with population_size=0 one step evaluates nothing (run() would spin)."""
    try:
        alg, _ = algos.build("NSGAII", "real", pop=0, seed=1)
        alg.step()
        return "NSGAII(population_size=0).step() leaves nfe=%d (rejected configuration, not run)" % alg.nfe
    except Exception as e:  # noqa: BLE001
        return "NSGAII(population_size=0): %s" % type(e).__name__


def replay(ctx, data):
    rp = data.get("replay", {})
    if rp.get("kind") == "trace":
        res = trace_run(rp["config"], rp["budgets"], rp.get("cond", "int"))
        ctx.count()
        report(ctx, rp["config"], rp["budgets"], res, rp.get("cond", "int"))
        ctx.sample({"replayed": rp, "aborted": res["aborted"], "nfe_per_step": [[st["nfe"] for st in c["steps"]] for c in res["calls"]]})
    else:
        run(ctx)
