"""C12 — parallel evaluation returns results in job order under any completion order."""
import itertools
import math
import time
from concurrent.futures import ThreadPoolExecutor
from multiprocessing.pool import ThreadPool

from vlib import common as C
from props import c12_jobs as JB
from props import c12_mpi as M

ID = "C12"
PROPS_FILE = "Props/C12.v"
COQ_TARGETS = ["Harness/H12.vo"]
ALLOWED_AXIOMS = []
# second tie (translator): coq/Gen/Core.v is regenerated from the source text of C.REPO on every run and
# coq/Tie/T12.v proves generated definition = hand model (harness/translate/py2coq_core.py)
EXTRA_PROPS = ["Tie/T12.v"]


def prebuild(ctx):
    import os
    import sys
    sys.path.insert(0, os.path.join(C.VERIF, "harness", "translate"))
    import py2coq_core
    py2coq_core.prebuild(ctx, C, ["_chunks"])


META = {
    "level_text": "Machine-checked proofs (Coq) about executable models of the parallel evaluation code: _chunks (concat = input, chunk sizes, n<=0); "
                  "Submit/Apply evaluators as write-once cells filled in ANY order and read in submission order (collect_in_order, also with the reader "
                  "interleaved with the pool, with and without log_frequency chunking); Map/Pool evaluators chunked; MPIPool.map/wait as a transition system "
                  "(master counters, per-worker state, per-pair FIFO channels with MPI non-overtaking matching, static and load-balanced branches): "
                  "mpi_safety (an invariant — each task index is in exactly one of undispatched / in flight to a worker / running / in flight back carrying "
                  "f(task) / stored — holds initially, is preserved by every step, and gives results = map f tasks on return, for all schedules, all worker "
                  "counts >= 1, all batch sizes, any number of consecutive batches on one pool) and mpi_progress (no reachable non-final state is stuck; a measure "
                  "strictly decreases at every step so every schedule is finite and every maximal one ends with map returned) — BOTH branches proved in full, no "
                  "_partial; evaluate_all pairing (pairing_keeps_variables) and experiment() filing (experiment_filing; experiment_filing_decl: with algorithms declared as bare type / (type,) / (type, kwargs) / (type, kwargs, name), the entries under a declaration's name are the replicates of ITS type with ITS kwargs, the default {} being re-established per declaration). Tie to /repo on every run: the REAL MPIPool "
                  "runs on a simulated mpi4py whose delivery order is an explicit schedule (random, and enumerated: all interleavings for small worker/task counts, one "
                  "per Mazurkiewicz trace beyond), every logged event trace is validated in Coq (vm_compute) by the proved transition system and its results compared "
                  "with the returned list; real thread/process pools and scripted futures with adversarial completion orders for every chunk size; _chunks, evaluate_all "
                  "and experiment() outputs compared with the models; an independent oracle checks the property statement on all of it.",
    "level_note": "Tie/T12.v also states the chunking laws about the _chunks GENERATED from the source text (tie_c12_generated_*). Trusted: Coq kernel + VM; harness (literal printer, shard runner); the simulated mpi4py (harness/props/c12_fakempi.py: per-(src,dst) FIFO mailboxes, "
                  "first-match receives, buffered sends, one rank thread running at a time) stands in for MPI — a real MPI library, OS scheduling and pickling failures "
                  "are not covered; a purely synchronous (rendezvous) MPI is not modelled: with unbuffered sends in both directions the static branch with more tasks "
                  "than workers can block (master in waitall, worker in send), which is a liveness matter outside the property. Tasks that raise are outside the model "
                  "(fn total; the load-balanced branch of the code does not look at MPIPoolException at all). The hand-written models are tied to the code on the "
                  "sampled/enumerated inputs of the correspondence only. Real OS pools are exercised by the oracle with adversarial delays (harness only); their internal "
                  "completion order is observed, not controlled, except for the scripted futures pool. No axioms (all theorems closed under the global context).",
    "technique": "Coq proof over executable models (transition-system invariant + termination measure) + trace validation of the real MPIPool on a schedule-driven simulated mpi4py + differential correspondence (vm_compute) + oracle",
}


def zl(xs):
    return C.list_lit([C.z_lit(int(x)) for x in xs])


def opt_z(x):
    return "None" if x is None else "(Some %s)" % C.z_lit(x)


# =====================================================================================================
# 1. _chunks
# =====================================================================================================
def form_of(as_iter):
    """old replays carry a bool"""
    if isinstance(as_iter, str):
        return as_iter
    return "iter" if as_iter else "list"


def impl_chunks(n, items, as_iter):
    from platypus.evaluator import _chunks
    return [list(c) for c in _chunks(JB.shape(form_of(as_iter), items), n)]


def oracle_chunks(ctx, n, items, out, as_iter):
    rp = {"kind": "chunks", "n": n, "items": list(items), "as_iter": as_iter}
    flat = [x for c in out for x in c]
    if flat != list(items):
        ctx.violation("chunks-loses-or-reorders-items", "_chunks(%r, %r) yields %r: concatenation is not the input" % (items, n, out), rp)
        return
    if any(len(c) == 0 for c in out):
        ctx.violation("chunks-empty-chunk", "_chunks(%r, %r) yields an empty chunk: %r" % (items, n, out), rp)
    if n > 0:
        if any(len(c) != n for c in out[:-1]) or (out and not (0 < len(out[-1]) <= n)) or len(out) != math.ceil(len(items) / n):
            ctx.violation("chunks-wrong-sizes", "_chunks(%r, %r) yields sizes %r" % (items, n, [len(c) for c in out]), rp)


def part_chunks(ctx):
    rng = ctx.rng
    cases = []
    for n in range(-2, ctx.scale(9, 14)):
        for ln in range(0, ctx.scale(13, 30)):
            cases.append((n, [rng.randrange(-9, 100) for _ in range(ln)], JB.FORMS[(n + ln) % len(JB.FORMS)]))
    for _ in range(ctx.scale(150, 3000)):
        ln = rng.randrange(0, 40)
        n = rng.choice([rng.randrange(-3, 45), ln, ln + 1, max(1, ln - 1), 1])
        cases.append((n, [rng.randrange(-1000, 1000) for _ in range(ln)], rng.choice(JB.FORMS)))
    lits = []
    for (n, items, as_iter) in cases:
        out = impl_chunks(n, items, as_iter)
        ctx.count()
        if n > 0 and len(items) % n != 0 and len(items) > n:
            ctx.mark(("chunks", n, tuple(items)))          # several chunks AND a trailing partial one
        oracle_chunks(ctx, n, items, out, as_iter)
        lits.append("CK %s %s %s" % (C.z_lit(n), zl(items), C.list_lit([zl(c) for c in out])))
    ctx.sample({"chunks_case": lits[len(lits) // 3]})
    bad = C.run_coq_cases(ctx, "chunks", ["Base.Num", "Model.Chunks", "Harness.H12"], "c12chunk", "c12_chunk_check", lits)
    if bad is not None:
        ctx.obligation("correspondence:_chunks(%d cases)" % len(lits), "correspondence", not bad,
                       "model and implementation differ on %r; first: %s" % (bad[:10], lits[bad[0]] if bad else ""))
    ctx.coverage["chunks_cases"] = len(lits)


# =====================================================================================================
# 2. evaluators on real pools / scripted futures
# =====================================================================================================
SAME_PROCESS = {"map-serial", "map-executor", "pool-threadpool", "submit-threads", "apply-threads", "submit-scripted", "apply-scripted"}
FUTURES_KIND = {"submit-threads", "apply-threads", "submit-scripted", "apply-scripted", "processpool"}


class Pools:
    """process pools are expensive: one of each kind per run, reused"""

    def __init__(self):
        self.pp = None
        self.mp = None

    def processpool(self):
        if self.pp is None:
            from platypus import ProcessPoolEvaluator
            self.pp = ProcessPoolEvaluator(2)
        return self.pp

    def multiprocessing(self):
        if self.mp is None:
            from platypus import MultiprocessingEvaluator
            self.mp = MultiprocessingEvaluator(2)
        return self.mp

    def close(self):
        for e in (self.pp, self.mp):
            if e is not None:
                try:
                    e.close()
                except Exception:
                    pass


def make_evaluator(name, n, order, nthreads, pools):
    """(evaluator, cleanup) for one batch of n jobs; `order` scripts the completion order where the pool allows it"""
    from platypus import MapEvaluator, SubmitEvaluator, ApplyEvaluator, PoolEvaluator
    if name == "map-serial":
        return MapEvaluator(), lambda: None
    if name == "map-executor":
        ex = ThreadPoolExecutor(nthreads)
        return MapEvaluator(ex.map), ex.shutdown
    if name == "pool-threadpool":
        tp = ThreadPool(nthreads)
        ev = PoolEvaluator(tp)
        return ev, ev.close
    if name == "submit-threads":
        ex = ThreadPoolExecutor(nthreads)
        return SubmitEvaluator(ex.submit), ex.shutdown
    if name == "apply-threads":
        tp = ThreadPool(nthreads)
        return ApplyEvaluator(tp.apply_async), lambda: (tp.close(), tp.join())
    if name == "submit-scripted":
        sp = JB.ScriptedPool(n, order)
        return SubmitEvaluator(sp.submit), sp.join
    if name == "apply-scripted":
        sp = JB.ScriptedPool(n, order)
        return ApplyEvaluator(sp.apply_async), sp.join
    if name == "processpool":
        return pools.processpool(), lambda: None
    if name == "multiprocessing":
        return pools.multiprocessing(), lambda: None
    raise ValueError(name)


DUPS = ("same-adjacent", "same-apart", "equal-values")


def dup_xs(rng, n, dup):
    """job numbers for a batch of n >= 2 with repeats: the same number twice next to each other / first and last /
    several times"""
    base = rng.sample(range(1, 500), n)
    if dup == "same-adjacent":
        base[1] = base[0]
    elif dup == "same-apart":
        base[-1] = base[0]
    elif dup == "equal-values":
        base[-1] = base[0]
        if n >= 3:
            base[1] = base[0]
    return base


def build_jobs(xs, delays, token, dup):
    """dup None: one DelayJob per position.  same-*: ONE job object per distinct number, so a repeated number is the
    same object listed twice.  equal-values: distinct ValueJob objects that compare/hash equal when their numbers agree."""
    if dup in ("same-adjacent", "same-apart"):
        objs = {}
        return [objs.setdefault(x, JB.DelayJob(x, delays[i], token)) for i, x in enumerate(xs)]
    cls = JB.ValueJob if dup == "equal-values" else JB.DelayJob
    return [cls(x, delays[i], token) for i, x in enumerate(xs)]


def run_evaluator_case(name, xs, lf, order, nthreads, pools, token, form="list", job_name=None, dup=None):
    """Evaluate jobs xs through the named evaluator; delays make job order[0] finish first, order[-1] last.
    The batch is handed over in the iterable form `form` (list, tuple, iterator, generator, custom one-shot).
    Returns (jobs, results, observed completion order as indices or None when it cannot be told)."""
    n = len(xs)
    rank = {i: k for k, i in enumerate(order)}
    scripted = name.endswith("-scripted") or name == "map-serial"
    JB.COMPLETION_LOG.clear()
    unit = JB.UNIT * (2.5 if name in ("processpool", "multiprocessing") else 1.0)
    jobs = build_jobs(xs, [0.0 if scripted else unit * (1 + rank[i]) for i in range(n)], token, dup)
    ev, cleanup = make_evaluator(name, n, order, nthreads, pools)
    try:
        kw = {} if lf is None else {"log_frequency": lf}
        if job_name is not None:
            kw["job_name"] = job_name
        results = ev.evaluate_all(JB.shape(form, jobs), **kw)
    finally:
        cleanup()
    results = list(results)
    if name.endswith("-scripted"):
        comp = list(order)                     # the scripted pool completes its futures in exactly this order
    elif dup is not None:
        comp = None
    elif name in SAME_PROCESS:
        comp = [x for (tk, x) in JB.COMPLETION_LOG if tk == token]
        comp = [xs.index(x) for x in comp]
    else:
        done = sorted(range(len(results)), key=lambda i: (getattr(results[i], "t_done", None) or 0.0))
        comp = [xs.index(results[i].x) if getattr(results[i], "x", None) in xs else -1 for i in done]
    return jobs, results, comp


def oracle_evaluator(ctx, name, xs, lf, order, nthreads, jobs, results, form="list", job_name=None, dup=None):
    rp = {"kind": "evaluator", "evaluator": name, "xs": list(xs), "log_frequency": lf, "order": list(order), "nthreads": nthreads,
          "form": form, "job_name": job_name, "dup": dup}
    got = [getattr(r, "x", None) for r in results]
    if len(results) != len(xs):
        ctx.violation("evaluator-result-count:" + name, "%s returned %d results (jobs %r) for the %d jobs %r passed as a %s (log_frequency=%r, job_name=%r, repeats: %s)" % (
            name, len(results), got, len(xs), list(xs), form, lf, job_name, dup or "none"), rp)
        return False
    if name in SAME_PROCESS and any(j.runs != sum(1 for o in jobs if o is j) for j in jobs):
        ctx.violation("evaluator-job-not-run-exactly-once:" + name, "%s ran the jobs %r times (batch passed as a %s, log_frequency=%r, job_name=%r)" % (
            name, [j.runs for j in jobs], form, lf, job_name), rp)
        return False
    if got != list(xs):
        ctx.violation("evaluator-results-out-of-job-order:" + name,
                      "%s with completion order %r, log_frequency=%r returned jobs %r for submitted jobs %r" % (name, order, lf, got, list(xs)), rp)
        return False
    if any(r.value != JB.job_value(x) for r, x in zip(results, xs)):
        ctx.violation("evaluator-wrong-value:" + name, "%s returned values %r" % (name, [r.value for r in results]), rp)
        return False
    if name in SAME_PROCESS and any(r is not j for r, j in zip(results, jobs)):
        ctx.violation("evaluator-results-out-of-job-order:" + name, "%s returned other job objects than the submitted ones" % name, rp)
        return False
    return True


def evaluator_plan(ctx):
    rng = ctx.rng
    plan = []
    lfs = lambda n: [None, 1, 2, 3, n, n + 1, 0, -1]      # noqa: E731
    # scripted futures: every completion order for small n, every chunk size
    for n in range(0, ctx.scale(4, 5)):
        for order in itertools.permutations(range(n)):
            for lf in sorted(set(lfs(n)), key=repr):
                for name in ("submit-scripted", "apply-scripted"):
                    plan.append((name, n, lf, list(order), 1))
    for n in (ctx.scale((4, 6, 9), (5, 6, 7, 9, 12))):
        for _ in range(ctx.scale(6, 40)):
            order = list(range(n))
            rng.shuffle(order)
            if rng.random() < 0.3:
                order = list(reversed(range(n)))
            for name in ("submit-scripted", "apply-scripted"):
                plan.append((name, n, rng.choice(lfs(n)), order, 1))
    # real thread pools, later jobs finish first
    for n in ctx.scale((0, 1, 2, 4, 7), (0, 1, 2, 3, 4, 5, 6, 8, 11)):
        for lf in ctx.scale([None, 1, 2, n + 1], lfs(n)):
            for name in ("map-serial", "map-executor", "pool-threadpool", "submit-threads", "apply-threads"):
                for nthreads in ((2, n + 1) if n > 2 and name != "map-serial" and (ctx.thorough or lf in (None, 2)) else (n + 1 if n > 2 else 3,)):
                    order = list(reversed(range(n)))
                    if rng.random() < 0.3:
                        rng.shuffle(order)
                    plan.append((name, n, lf, order, nthreads))
    # process pools (copies come back): few in quick
    pnames = ctx.scale(("processpool", "multiprocessing"), ("processpool", "multiprocessing"))
    for n in ctx.scale((0, 1, 3, 5), (0, 1, 2, 3, 5, 8)):
        for lf in ctx.scale([None, 2], [None, 1, 2, 3, n + 1]):
            for name in pnames:
                plan.append((name, n, lf, list(reversed(range(n))), 2))
    # every evaluator x every iterable form the API accepts x with/without log_frequency x with/without job_name
    allnames = ("map-serial", "map-executor", "pool-threadpool", "submit-threads", "apply-threads", "submit-scripted", "apply-scripted",
                "processpool", "multiprocessing")
    plan = [e + (rng.choice(JB.FORMS), rng.choice([None, None, "named"]), None) for e in plan]
    for name in allnames:
        proc = name in ("processpool", "multiprocessing")
        for n in ctx.scale((1, 3), (0, 1, 2, 3, 5)):
            for lf in ctx.scale((None, 2), (None, 1, 2, n + 1)):
                for form in JB.FORMS:
                    for jn in (None, "named"):
                        if not ctx.thorough and ((jn is not None and lf is None) or (proc and n > 1 and form in ("tuple", "iter"))):
                            continue        # job_name only matters on the progress-log path
                        order = list(reversed(range(n)))
                        plan.append((name, n, lf, order, 2 if proc else n + 1, form, jn, None))
    # every evaluator: the same job object listed twice (adjacent / first and last), equal-valued jobs (value-based __eq__/__hash__)
    for name in allnames:
        proc = name in ("processpool", "multiprocessing")
        for n in ctx.scale((2, 4), (2, 3, 4, 6)):
            for dup in DUPS:
                for lf in ctx.scale((None, 2), (None, 1, 2, n + 1)):
                    order = list(reversed(range(n)))
                    if not proc and rng.random() < 0.4:
                        rng.shuffle(order)
                    plan.append((name, n, lf, order, 2 if proc else n + 1, rng.choice(JB.FORMS), None, dup))
    return plan


def part_evaluators(ctx, pools):
    rng = ctx.rng
    lits = []
    dist = {}
    reordered = 0
    t0 = time.time()
    forms = {}
    dups = {}
    for k, (name, n, lf, order, nthreads, form, jn, dup) in enumerate(evaluator_plan(ctx)):
        xs = rng.sample(range(1, 500), n) if dup is None else dup_xs(rng, n, dup)
        token = ("ev", k)
        try:
            jobs, results, comp = run_evaluator_case(name, xs, lf, order, nthreads, pools, token, form, jn, dup)
        except Exception as e:  # an evaluator that raises on a legal batch fails "one result per job"
            ctx.violation("evaluator-raised:" + name, "%s raised %r on %d jobs passed as a %s, log_frequency=%r, job_name=%r, order %r" % (name, e, n, form, lf, jn, order),
                          {"kind": "evaluator", "evaluator": name, "xs": xs, "log_frequency": lf, "order": order, "nthreads": nthreads, "form": form, "job_name": jn, "dup": dup})
            continue
        ctx.count()
        dist[name] = dist.get(name, 0) + 1
        forms[form] = forms.get(form, 0) + 1
        ok = oracle_evaluator(ctx, name, xs, lf, order, nthreads, jobs, results, form, jn, dup)
        if dup is not None:
            dups[dup] = dups.get(dup, 0) + 1
            ctx.mark(("evaluator-repeats", name, dup, n, repr(lf)))
        if comp is None:
            comp = [-1]
        elif comp != sorted(comp):
            reordered += 1
            ctx.mark(("evaluator", name, n, repr(lf), tuple(comp)))
        vals = [r.value if getattr(r, "value", None) is not None else -1 for r in results]
        if name in FUTURES_KIND and sorted(comp) == list(range(n)):
            lits.append("FU 0 %s %s %s %s" % (zl(xs), zl(comp), opt_z(lf), zl(vals)))
        else:
            lits.append("FU 1 %s [] %s %s" % (zl(xs), opt_z(lf), zl(vals)))
        if ok and len(ctx.samples) < 3 and comp != sorted(comp) and n >= 3:
            ctx.sample({"evaluator": name, "jobs": xs, "log_frequency": lf, "completion_order": comp, "returned": [r.x for r in results]})
    JB.COMPLETION_LOG.clear()
    bad = C.run_coq_cases(ctx, "evaluators", ["Base.Num", "Model.Futures", "Harness.H12"], "c12fut", "c12_fut_check", lits)
    if bad is not None:
        ctx.obligation("correspondence:evaluators(%d cases)" % len(lits), "correspondence", not bad,
                       "model and implementation differ on %r; first: %s" % (bad[:10], lits[bad[0]] if bad else ""))
    ctx.coverage["evaluator_cases"] = dist
    ctx.coverage["evaluator_batch_forms"] = forms
    ctx.coverage["evaluator_batches_with_repeated_jobs"] = dups
    ctx.coverage["evaluator_cases_with_out_of_order_completion"] = reordered
    ctx.coverage["evaluators_s"] = round(time.time() - t0, 1)


# =====================================================================================================
# 3. Algorithm.evaluate_all pairing
# =====================================================================================================
class Recorder:
    """wraps an evaluator: remembers what was submitted and what came back (objects and their fields then)"""

    def __init__(self, inner, kw=None):
        self.inner = inner
        self.kw = kw or {}
        self.returned = None
        self.snap = None

    def evaluate_all(self, jobs, **kwargs):
        kwargs.update(self.kw)
        r = self.inner.evaluate_all(jobs, **kwargs)
        r = list(r)
        self.returned = r
        try:        # fields of the returned solutions NOW (before the caller's pairing loop touches anything)
            self.snap = [(j.solution, sol_fields(j.solution)) for j in r]
        except Exception:
            self.snap = None
        return r


def sol_fields(s):
    def iz(x):
        assert float(x) == int(x), x
        return int(x)
    if not s.evaluated:
        return [iz(v) for v in s.variables], [], False
    objs = [iz(o) for o in s.objectives] + [iz(c) for c in s.constraints] + [iz(s.constraint_violation), int(bool(s.feasible))]
    return [iz(v) for v in s.variables], objs, True


def sol_lit(sid, f):
    return "mkS %d %s %s %s" % (sid, zl(f[0]), zl(f[1]), C.bool_lit(f[2]))


def pairing_case(ctx, tag, evaluator, vs, pre, slow, rp, lits):
    """vs: variable vectors; pre[i]: marker if solution i counts as evaluated already"""
    problem = JB.make_problem(slow)
    sols = [JB.make_solution(problem, v, pre[i]) for i, v in enumerate(vs)]
    before = [sol_fields(s) for s in sols]
    rec = Recorder(evaluator)
    alg = JB.NullAlgorithm(problem, evaluator=rec)
    err = None
    try:
        alg.evaluate_all(sols)
    except Exception as e:
        err = e
    ctx.count()
    after = [sol_fields(s) for s in sols]
    # oracle, independent of the model: same objects keep their variables; objectives are those of their variables
    for i, s in enumerate(sols):
        if err is not None:
            ctx.violation("evaluate_all-raised", "Algorithm.evaluate_all raised %r with evaluator %s" % (err, tag), rp)
            break
        if [float(x) for x in s.variables] != [float(x) for x in vs[i]]:
            ctx.violation("evaluate_all-variables-changed",
                          "evaluator %s: solution %d had variables %r before Algorithm.evaluate_all and %r after (batch %r)" % (tag, i, vs[i], list(s.variables), vs), rp)
            break
        if pre[i] is not None:
            if after[i] != before[i]:
                ctx.violation("evaluate_all-touched-evaluated-solution", "evaluator %s: already evaluated solution %d changed: %r -> %r" % (tag, i, before[i], after[i]), rp)
                break
            continue
        eo, ec, ev = JB.expected_fields(vs[i])
        if not s.evaluated:
            ctx.violation("evaluate_all-not-evaluated", "evaluator %s: solution %d is still unevaluated after Algorithm.evaluate_all" % (tag, i), rp)
            break
        if list(s.objectives) != eo or list(s.constraints) != ec or s.constraint_violation != ev or s.feasible != (ev == 0.0):
            ctx.violation("evaluate_all-objectives-not-of-own-variables",
                          "evaluator %s: solution %d with variables %r got objectives %r constraints %r (its own are %r %r)" % (
                              tag, i, vs[i], list(s.objectives), list(s.constraints), eo, ec), rp)
            break
    if err is None and alg.nfe != len(sols):
        ctx.violation("evaluate_all-nfe", "nfe=%r after evaluating a batch of %d" % (alg.nfe, len(sols)), rp)
    # correspondence literal: what the evaluator returned (fields at return time), identified by object identity
    if rec.snap is not None:
        res = []
        for j, (rs, f) in enumerate(rec.snap):
            sid = next((k + 1 for k, s in enumerate(sols) if s is rs), 1000 + j)
            res.append(sol_lit(sid, f))
        lits.append("PR %s %s %s" % (
            C.list_lit([sol_lit(i + 1, f) for i, f in enumerate(before)]), C.list_lit(res),
            "None" if err is not None else "(Some %s)" % C.list_lit([sol_lit(i + 1, f) for i, f in enumerate(after)])))
    if any(p is None for p in pre) and len(vs) >= 2:
        ctx.mark(("pairing", tag, tuple(map(tuple, vs)), tuple(pre)))


def gen_solutions(rng, n):
    """distinct integer variable vectors; v[1] decreasing so that (slow problem) later solutions finish first"""
    v1 = sorted(rng.sample(range(0, 9), min(n, 9)), reverse=True) + [0] * max(0, n - 9)
    vs = [[rng.randrange(-20, 20) * 1.0 + 100 * i, float(v1[i])] for i in range(n)]
    pre = [(900 + i if rng.random() < 0.25 else None) for i in range(n)]
    return vs, pre


def part_pairing(ctx, pools):
    from platypus import MapEvaluator, SubmitEvaluator, ApplyEvaluator, PoolEvaluator
    rng = ctx.rng
    lits = []
    dist = {}
    for rep in range(ctx.scale(3, 25)):
        for n in ctx.scale((0, 1, 2, 3, 5), (0, 1, 2, 3, 4, 5, 7)):
            vs, pre = gen_solutions(rng, n)
            nun = sum(1 for p in pre if p is None)
            order = list(reversed(range(nun)))
            if rep % 2:
                rng.shuffle(order)
            todo = [("map-serial", False), ("submit-scripted", False), ("apply-scripted", False), ("submit-threads", True), ("pool-threadpool", True)]
            if rep == 0 or ctx.thorough and rep < 4:
                todo += [("processpool", True)] + ([("multiprocessing", True)] if ctx.thorough or n == 3 else [])
            for name, slow in todo:
                ev, cleanup = make_evaluator(name, nun, order, max(2, nun + 1), pools)
                rp = {"kind": "pairing", "evaluator": name, "vs": vs, "pre": pre, "order": order, "slow": slow}
                try:
                    pairing_case(ctx, name, ev, vs, pre, slow, rp, lits)
                finally:
                    cleanup()
                dist[name] = dist.get(name, 0) + 1
    ctx.sample({"pairing_case": lits[-1][:600]})
    bad = C.run_coq_cases(ctx, "pairing", ["Base.Num", "Model.Futures", "Harness.H12"], "c12pair", "c12_pair_check", lits)
    if bad is not None:
        ctx.obligation("correspondence:evaluate_all_pairing(%d cases)" % len(lits), "correspondence", not bad,
                       "model and implementation differ on %r; first: %s" % (bad[:10], lits[bad[0]][:900] if bad else ""))
    ctx.coverage["pairing_cases"] = dist


# =====================================================================================================
# 4. MPIPool on the simulated mpi4py
# =====================================================================================================
def expected_rets(batches):
    return [[M.task_fn(g, t) for t in tasks] for (g, tasks) in batches]


def mpi_oracle(ctx, out, W, lb, batches, rp, rets=None, want=None):
    rets = out["rets"] if rets is None else rets
    want = expected_rets(batches) if want is None else want
    if out["error"]:
        ctx.violation("mpipool-raised", "MPIPool (workers=%d, loadbalance=%r, batches %r) raised: %s" % (W, lb, batches, out["error"][:300]), rp)
        return False
    if out["deadlock"]:
        ctx.violation("mpipool-stuck", "MPIPool (workers=%d, loadbalance=%r, batches %r) is stuck under this schedule: %s" % (W, lb, batches, out["deadlock"][:300]), rp)
        return False
    if rets != want:
        arr = [e[2] for e in out["trace"] if e[0] == "m"]
        ctx.violation("mpipool-results-out-of-task-order:" + ("loadbalanced" if lb and any(len(t) > W for _, t in batches) else "static"),
                      "MPIPool.map (workers=%d, loadbalance=%r) returned %r for batches %r, expected %r; results arrived at the master with tags %r" % (
                          W, lb, rets, batches, want, arr), rp)
        return False
    return True


def mpi_nontrivial(out):
    """results arrived at the master in an order different from task order (within some batch)"""
    cur = []
    for e in out["trace"]:
        if e[0] == "r":
            cur.append(e[2])
        elif e[0] == "R":
            if cur != sorted(cur):
                return True
            cur = []
    return False


def batch_sizes(rng, W):
    return rng.choice([0, 1, max(0, W - 1), W, W + 1, 2 * W + 1, rng.randrange(0, 10), rng.randrange(0, 10)])


def part_mpi(ctx):
    rng = ctx.rng
    lits = []
    stats = {"random_sessions": 0, "enumerated_full": {}, "enumerated_por": {}, "arrival_order_differs_from_task_order": 0, "platypus_sessions": 0}
    t0 = time.time()

    def record(W, lb, batches, out, rp, rets=None, want=None, lit_batches=None):
        ctx.count()
        ok = mpi_oracle(ctx, out, W, lb, batches, rp, rets, want)
        if out["error"] or out["deadlock"]:
            return ok
        if mpi_nontrivial(out):
            stats["arrival_order_differs_from_task_order"] += 1
            ctx.mark(("mpi", W, lb, tuple(out["trace"])))
        lits.append(M.session_lit(W, lb, lit_batches if lit_batches is not None else batches, out, rets))
        return ok

    # (a) random schedules, 1..N workers, 2-3 consecutive batches on one pool, both branches
    for _ in range(ctx.scale(160, 4000)):
        W = rng.randrange(1, ctx.scale(5, 7))
        lb = rng.random() < 0.6
        batches = [(rng.choice([1, 1, 2, 3]), [rng.randrange(-5, 60) for _ in range(batch_sizes(rng, W))]) for _ in range(rng.choice([1, 2, 2, 3]))]
        eager = rng.random() < 0.5
        dc = rng.random() < 0.5
        wm = rng.random() < 0.3
        ch = M.Chooser(rng=rng)
        out = M.run_session(W, lb, batches, ch, eager=eager, default_comm=dc, workers_call_map=wm)
        rp = {"kind": "mpi", "W": W, "lb": lb, "batches": batches, "choices": [k for k, _ in ch.made], "eager": eager, "default_comm": dc, "workers_call_map": wm}
        record(W, lb, batches, out, rp)
        stats["random_sessions"] += 1
    ctx.sample({"mpi_session": lits[-1][:700]})

    # (b) systematic enumeration of schedules
    def enum(W, lb, batches, mode, limit):
        def on_run(out, ch):
            choices = [fr["cur"] for fr in ch.frames] if mode == "por" else [k for k, _ in ch.made]
            rp = {"kind": "mpi", "W": W, "lb": lb, "batches": batches, "eager": True, "default_comm": False, "workers_call_map": False,
                  ("options" if mode == "por" else "choices"): choices}
            record(W, lb, batches, out, rp)
        key = "W=%d,lb=%s,sizes=%s,fns=%s" % (W, "T" if lb else "F", "+".join(str(len(t)) for _, t in batches), "+".join(str(g) for g, _ in batches))
        if mode == "por":
            full, blocked, done = M.enumerate_por(W, lb, batches, limit=limit, on_run=on_run)
            stats["enumerated_por"][key] = {"complete_runs": full, "sleep_blocked_runs": blocked, "exhausted": done}
        else:
            runs, done = M.enumerate_schedules(W, lb, batches, eager=True, limit=limit, on_run=on_run)
            stats["enumerated_full"][key] = {"runs": runs, "exhausted": done}

    tasks = lambda n: list(range(10, 10 + n))     # noqa: E731
    if not ctx.thorough:
        for W, n, lb in [(1, 3, True), (2, 2, False), (2, 3, False), (2, 3, True)]:
            enum(W, lb, [(1, tasks(n))], "full", 400)
        for W, n, lb in [(2, 4, True), (2, 5, True), (3, 4, True), (3, 5, True), (3, 5, False), (3, 3, True)]:
            enum(W, lb, [(1, tasks(n))], "por", 400)
        enum(2, True, [(1, tasks(3)), (2, tasks(3))], "por", 300)
    else:
        for W in (1, 2):
            for n in range(0, 6):
                for lb in (False, True):
                    enum(W, lb, [(1, tasks(n))], "full", 6000)
        for n in range(0, 4):
            for lb in (False, True):
                enum(3, lb, [(1, tasks(n))], "full", 6000)
        enum(3, False, [(1, tasks(4))], "full", 4000)
        enum(3, True, [(1, tasks(4))], "full", 12000)
        enum(3, False, [(1, tasks(5))], "full", 6000)
        enum(3, True, [(1, tasks(5))], "full", 12000)
        for W in (1, 2, 3):
            for n in range(0, 6):
                for lb in (False, True):
                    enum(W, lb, [(1, tasks(n))], "por", 5000)
        for W, n1, n2 in [(2, 3, 3), (2, 4, 1), (3, 4, 4), (2, 0, 3)]:
            enum(W, True, [(1, tasks(n1)), (2, tasks(n2))], "por", 4000)
            enum(W, True, [(1, tasks(n1)), (1, tasks(n2))], "por", 4000)
        enum(4, True, [(1, tasks(6))], "por", 6000)

    # (c) the pool as a Platypus evaluator: PoolEvaluator(MPIPool) under Algorithm.evaluate_all (workers get
    #     pickled copies, so the copy-back path of evaluate_all runs) and with log_frequency chunking
    from platypus import PoolEvaluator
    plits = []
    for rep in range(ctx.scale(40, 500)):
        W = rng.randrange(1, 4)
        lb = rng.random() < 0.6
        n = batch_sizes(rng, W)
        vs, pre = gen_solutions(rng, min(n, 9))
        lf = rng.choice([None, None, 1, 2, 3, W, W + 1])
        xs = rng.sample(range(1, 300), rng.choice([0, 1, W, W + 2, 5]))
        ch = M.Chooser(rng=rng)
        form = rng.choice(JB.FORMS) if (lf is not None and lf > 0) else "list"     # unchunked, MPIPool.map needs len(tasks)
        rp = {"kind": "mpi-platypus", "W": W, "lb": lb, "vs": vs, "pre": pre, "xs": xs, "log_frequency": lf, "form": form}
        holder = {}

        def body(pool, vs=vs, pre=pre, lf=lf, xs=xs, holder=holder, rp=rp, form=form):
            ev = PoolEvaluator(pool)
            pairing_case(ctx, "pool-mpi", ev, vs, pre, False, rp, plits)
            jobs = [JB.DelayJob(x) for x in xs]
            kw = {} if lf is None else {"log_frequency": lf}
            holder["jobs"] = list(ev.evaluate_all(JB.shape(form, jobs), **kw))

        def key(o):
            return ("job", o.x) if isinstance(o, JB.DelayJob) else ("sol", tuple(o.solution.variables))
        rp["eager"] = rng.random() < 0.5
        out = M.run_session(W, lb, [], ch, eager=rp["eager"], master_body=body, key=key)
        rp["choices"] = [k for k, _ in ch.made]
        stats["platypus_sessions"] += 1
        if not out["error"] and not out["deadlock"]:
            got = [getattr(j, "x", None) for j in holder.get("jobs", [])]
            if got != xs or any(j.value != JB.job_value(j.x) for j in holder["jobs"]):
                ctx.violation("evaluator-results-out-of-job-order:pool-mpi",
                              "PoolEvaluator(MPIPool workers=%d loadbalance=%r).evaluate_all(log_frequency=%r) returned jobs %r for %r" % (W, lb, lf, got, xs), rp)

        lb_batches, lb_rets = M.label_calls(out["calls"])
        want = [[M.task_fn(g, t) for t in ts] for (g, ts) in lb_batches]
        record(W, lb, lb_batches, out, rp, rets=lb_rets, want=want)
    lits_all = lits
    bad = C.run_coq_cases(ctx, "mpi", ["Base.Num", "Model.MPI", "Harness.H12"], "c12sess", "c12_sess_check", lits_all)
    if bad is not None:
        ctx.obligation("correspondence:mpipool_traces_accepted(%d sessions)" % len(lits_all), "correspondence", not bad,
                       "the proved transition system rejects the event trace (or its results differ from the returned list) of sessions %r; first: %s" % (
                           bad[:10], lits_all[bad[0]][:1500] if bad else ""))
    bad2 = C.run_coq_cases(ctx, "mpipairing", ["Base.Num", "Model.Futures", "Harness.H12"], "c12pair", "c12_pair_check", plits)
    if bad2 is not None:
        ctx.obligation("correspondence:evaluate_all_pairing_over_mpipool(%d cases)" % len(plits), "correspondence", not bad2,
                       "model and implementation differ on %r; first: %s" % (bad2[:10], plits[bad2[0]][:900] if bad2 else ""))
    stats["sessions_validated_in_coq"] = len(lits_all)
    stats["mpi_s"] = round(time.time() - t0, 1)
    ctx.coverage["mpi"] = stats
    ctx.coverage["traces_validated_against_impl"] = len(lits_all)
    ctx.coverage["exhaustive"] = False
    # MPIPool.map needs len(tasks): experiment() hands evaluators a generator (recorded, not a property violation)
    try:
        def gbody(pool):
            pool.map(M.FNS[1], (t for t in [1, 2]))
        o = M.run_session(1, False, [], M.Chooser(), master_body=gbody)
        ctx.coverage["note_mpipool_map_on_generator"] = (o["error"] or "accepted")[:120]
    except Exception as e:  # pragma: no cover
        ctx.coverage["note_mpipool_map_on_generator"] = repr(e)[:120]


# =====================================================================================================
# 5. experiment()
# =====================================================================================================
TYPE_IDS = {"TagAlg": 1, "TagAlg2": 2, "TagNSGAII": 3}                 # an algorithm type and its __name__ share the id
NAME_IDS = dict(TYPE_IDS, **{"renamed": 4, "N-default": 5, "T2": 6, "T3": 7, "N6": 8})
PROB_IDS = {"ProbA": 1, "ProbB": 2, "second": 3}


def decl_parts(a):
    """(type, declared kwargs or None, declared name or None, form) of one algorithm declaration"""
    if isinstance(a, tuple):
        return a[0], (a[1] if len(a) >= 2 else None), (a[2] if len(a) >= 3 else None), len(a)
    return a, None, None, 0


def decl_name(a):
    t, _kw, nm, _f = decl_parts(a)
    return nm if nm is not None else t.__name__


def decl_config(a):
    """the configuration value the declaration asks for (the class default when it carries no kwargs)"""
    t, kw, _nm, _f = decl_parts(a)
    return next(iter(kw.values())) if kw else t.default_config


def decl_lit(a):
    t, kw, nm, form = decl_parts(a)
    kwid = next(iter(kw.values())) if kw else 0
    if form == 0:
        return "dB %d" % TYPE_IDS[t.label]
    if form == 1:
        return "dT1 %d" % TYPE_IDS[t.label]
    if form == 2:
        return "dT2 %d %d" % (TYPE_IDS[t.label], kwid)
    return "dT3 %d %d %d" % (TYPE_IDS[t.label], kwid, NAME_IDS[nm])


def experiment_case(ctx, evname, evaluator, algs, probs, seeds, lits, dlits, rp):
    from platypus import experiment
    JB.reset_construction_counter()
    rec = Recorder(evaluator)
    try:
        res = experiment(algs, probs, seeds=seeds, nfe=ctx.scale(8, 16), evaluator=rec)
    except Exception as e:
        ctx.violation("experiment-raised:" + evname, "experiment() raised %r under evaluator %s" % (e, evname), rp)
        return
    ctx.count()

    def pname(p):
        if isinstance(p, tuple):
            return p[1] if len(p) >= 2 else p[0].__name__
        return p.__name__ if isinstance(p, type) else p.__class__.__name__

    def pclass(p):
        q = p[0] if isinstance(p, tuple) else p
        return q.__name__ if isinstance(q, type) else q.__class__.__name__

    anames = [decl_name(a) for a in algs]
    pnames = [pname(p) for p in probs]
    aid = {n: NAME_IDS.get(n, 99) for n in anames}
    pid = {n: PROB_IDS.get(n, 9) for n in pnames}
    cls2pid = {pclass(p): pid[pname(p)] for p in probs}

    def rid(tag):
        """what a result reveals about its producer: type, effective configuration, problem, replicate"""
        return 100000 * TYPE_IDS[tag[0]] + 1000 * tag[3] + 100 * cls2pid[tag[1]] + tag[2]
    # correspondence: (1) declarations -> the jobs the evaluator handed back; (2) those jobs -> the nested dict
    try:
        jl = ["mkJ %d %d %d" % (aid[j.algorithm_name], pid[j.problem_name], rid(j.instance.result.tag)) for j in rec.returned]
        tl = ["mkA %d %s" % (aid[a], C.list_lit(["mkP %d %s" % (pid[p], zl([rid(e.tag) for e in res[a][p]])) for p in res[a]])) for a in res]
        lits.append("FL %s %s" % (C.list_lit(jl), C.list_lit(tl)))
        dlits.append("FD %s %s %d %s" % (C.list_lit([decl_lit(a) for a in algs]), zl([pid[n] for n in pnames]), seeds, C.list_lit(jl)))
    except (KeyError, AttributeError, TypeError):
        pass        # an unrecognisable structure: the oracle below reports it
    # oracle: results[name][prob] = the replicates 0..seeds-1, in order, each produced by exactly the declared
    # (algorithm type, kwargs, problem)
    okay = sorted(res.keys()) == sorted(anames) and all(sorted(res[a].keys()) == sorted(pnames) for a in res)   # key ORDER is not part of the property
    if not okay:
        ctx.violation("experiment-misfiled", "experiment() under %s has keys %r, expected algorithms %r x problems %r" % (
            evname, {a: list(res[a].keys()) for a in res}, anames, pnames), rp)
        return
    for a in algs:
        for p in probs:
            entries = res[decl_name(a)][pname(p)]
            tags = [getattr(e, "tag", None) for e in entries]
            want = [(decl_parts(a)[0].label, pclass(p), k, decl_config(a)) for k in range(seeds)]
            if tags != want:
                ctx.violation("experiment-misfiled",
                              "experiment() under %s with algorithms declared as %s: results[%r][%r] holds the results of (type, problem, replicate, configuration) %r, "
                              "expected the %d replicates %r of the declared algorithm/kwargs in seed order" % (
                                  evname, rp.get("declarations"), decl_name(a), pname(p), tags, seeds, want), rp)
                return
    ctx.mark(("experiment", evname, tuple(anames), tuple(pnames), seeds))


def experiment_configs(ctx):
    A, A2, N = JB.TagAlg, JB.TagAlg2, JB.TagNSGAII
    configs = [
        ([A, N], [JB.ProbA, JB.ProbB], 3),
        ([(A, {"batch": 4}, "renamed"), A2], [JB.ProbA(), (JB.ProbB, "second")], 3),       # kwargs BEFORE a bare type
        ([(N, {"population_size": 6}), (A,), A2], [JB.ProbA, JB.ProbB], 3),                # (type, kwargs) then (type,) then bare
        ([A2, (A, {"batch": 3}), (N, {}, "N-default")], [(JB.ProbA, "second"), JB.ProbB], 2),
    ]
    if ctx.thorough:
        configs += [([(A, {"batch": 2}, "T2"), (A, {"batch": 3}, "T3"), A], [JB.ProbB, JB.ProbA], 4),
                    ([A], [JB.ProbA], 1),
                    ([(N, {"population_size": 6}, "N6"), N, (A2, {"batch": 2})], [(JB.ProbA, "second"), JB.ProbB], 2),
                    ([(A2,), (N,), (A, {"batch": 4})], [JB.ProbA], 3)]
    return configs


def describe_decls(algs):
    return [(decl_parts(a)[0].__name__,) + tuple(x for x in decl_parts(a)[1:3] if x is not None) if isinstance(a, tuple) else a.__name__ for a in algs]


def part_experiment(ctx, pools):
    rng = ctx.rng
    lits = []
    dlits = []
    dist = {}
    configs = experiment_configs(ctx)
    evnames = ["map-serial", "submit-scripted", "apply-scripted", "submit-threads", "apply-threads", "pool-threadpool", "map-executor", "processpool"]
    if ctx.thorough:
        evnames.append("multiprocessing")
    for ci, (algs, probs, seeds) in enumerate(configs):
        njobs = len(algs) * len(probs) * seeds
        for evname in evnames:
            if not ctx.thorough and ((evname == "processpool" and ci not in (0, 1)) or (ci >= 2 and evname in ("apply-scripted", "apply-threads", "map-executor"))):
                continue
            for lf in ([None] if not ctx.thorough else [None, 4]):
                order = list(reversed(range(njobs)))
                if evname.endswith("scripted") and ci % 2:
                    rng.shuffle(order)
                ev, cleanup = make_evaluator(evname, njobs, order, njobs + 1, pools)
                rp = {"kind": "experiment", "evaluator": evname, "config": ci, "order": order, "log_frequency": lf,
                      "declarations": repr(describe_decls(algs))}
                try:
                    inner = ev
                    if lf is not None:
                        class WithLF:           # experiment() itself never passes log_frequency; a user evaluator may
                            def evaluate_all(self, jobs, **kw):
                                return inner.evaluate_all(jobs, log_frequency=lf)
                        ev2 = WithLF()
                    else:
                        ev2 = ev
                    experiment_case(ctx, evname, ev2, algs, probs, seeds, lits, dlits, rp)
                finally:
                    cleanup()
                dist[evname] = dist.get(evname, 0) + 1
    if lits:
        ctx.sample({"experiment_case": dlits[1][:400] if len(dlits) > 1 else lits[0][:400]})
    bad = C.run_coq_cases(ctx, "filing", ["Base.Num", "Model.Futures", "Harness.H12"], "c12file", "c12_file_check", lits)
    if bad is not None:
        ctx.obligation("correspondence:experiment_filing(%d cases)" % len(lits), "correspondence", not bad,
                       "model and implementation differ on %r; first: %s" % (bad[:10], lits[bad[0]][:900] if bad else ""))
    bad = C.run_coq_cases(ctx, "decls", ["Base.Num", "Model.Futures", "Harness.H12"], "c12decl", "c12_decl_check", dlits)
    if bad is not None:
        ctx.obligation("correspondence:experiment_job_generation(%d cases)" % len(dlits), "correspondence", not bad,
                       "the jobs the evaluator returned are not those the declarations generate in the model (type, kwargs, name, problem, replicate): %r; first: %s" % (
                           bad[:10], dlits[bad[0]][:900] if bad else ""))
    ctx.coverage["experiment_cases"] = dist
    ctx.coverage["experiment_declaration_lists"] = [repr(describe_decls(a)) for a, _, _ in configs]


# =====================================================================================================
def run(ctx):
    pools = Pools()
    times = {"coq_build_and_audit_s": round(time.time() - ctx.t0, 1)}

    def timed(name, fn, *a):
        t = time.time()
        fn(*a)
        times[name] = round(time.time() - t, 1)
    try:
        # fork the process pools' workers now, before this process has started any thread
        pools.multiprocessing()
        pools.processpool().evaluate_all([JB.DelayJob(0)])
        timed("chunks_s", part_chunks, ctx)
        timed("evaluators_s", part_evaluators, ctx, pools)
        timed("pairing_s", part_pairing, ctx, pools)
        timed("experiment_s", part_experiment, ctx, pools)
    finally:
        pools.close()
    timed("mpi_s", part_mpi, ctx)
    ctx.coverage["phase_seconds"] = times
    ctx.rule = ("_chunks: every (n, length) pair on a grid incl. n<=0 plus random; evaluators: every completion permutation of <=3 (quick) / <=4 (thorough) jobs on a scripted "
                "futures pool x every log_frequency in {None,1,2,3,n,n+1,0,-1}, random permutations beyond, real thread/process pools with later-jobs-first delays, batch sizes "
                "0,1,<workers,>workers; MPIPool on the simulated mpi4py: random schedules (1-6 workers, 1-3 consecutive batches, both branches, eager and scheduled sends) and "
                "systematic enumeration (all interleavings of receive completions for small worker/task counts, sleep-set reduced — one per Mazurkiewicz trace — beyond; see coverage.mpi); "
                "every evaluator x batches listing the same job object twice (adjacent / first and last) and several equal-valued jobs (value-based __eq__/__hash__); every evaluator x every iterable form of the batch (list, tuple, iterator, generator expression, custom one-shot iterable) x with/without log_frequency x with/without job_name; evaluate_all on batches with already-evaluated members under in-place and copying evaluators; experiment() with declaration lists mixing bare types, (type,), (type, kwargs), (type, kwargs, name) in different orders (algorithms whose result reveals type, constructor configuration, problem and replicate) under 8-9 evaluators. "
                "non-trivial = a case in which completion/arrival order differs from job order (evaluators, MPI), several chunks plus a trailing partial chunk (_chunks), a batch of >= 2 "
                "solutions with an unevaluated member (pairing), an experiment configuration; distinct by full input incl. the event trace")
    ctx.assumptions.append("the simulated mpi4py (buffered sends, per-pair FIFO, first-match receives) stands in for an MPI library; tasks do not raise")


# =====================================================================================================
def replay(ctx, data):
    rp = data.get("replay", {})
    kind = rp.get("kind")
    key = data.get("key", "replay")
    pools = Pools()
    try:
        if kind == "chunks":
            out = impl_chunks(rp["n"], rp["items"], rp.get("as_iter", False))
            ctx.count()
            oracle_chunks(ctx, rp["n"], rp["items"], out, rp.get("as_iter", False))
        elif kind == "evaluator":
            name = rp["evaluator"]
            if name == "pool-mpi":
                return run(ctx)
            jobs, results, comp = run_evaluator_case(name, rp["xs"], rp["log_frequency"], rp["order"], rp["nthreads"], pools, ("replay", 0),
                                                     rp.get("form", "list"), rp.get("job_name"), rp.get("dup"))
            ctx.count()
            oracle_evaluator(ctx, name, rp["xs"], rp["log_frequency"], rp["order"], rp["nthreads"], jobs, results, rp.get("form", "list"), rp.get("job_name"), rp.get("dup"))
        elif kind == "pairing":
            nun = sum(1 for p in rp["pre"] if p is None)
            ev, cleanup = make_evaluator(rp["evaluator"], nun, rp["order"], max(2, nun + 1), pools)
            try:
                pairing_case(ctx, rp["evaluator"], ev, rp["vs"], rp["pre"], rp.get("slow", False), rp, [])
            finally:
                cleanup()
        elif kind == "mpi":
            batches = [(g, list(t)) for g, t in rp["batches"]]
            if "options" in rp:
                frames = [{"enabled": [], "sleep": set(), "done": [], "cur": tuple(o)} for o in rp["options"]]
                ch = M.PorChooser(frames)
            else:
                ch = M.Chooser(prefix=rp["choices"])
            out = M.run_session(rp["W"], rp["lb"], batches, ch, eager=rp.get("eager", True), default_comm=rp.get("default_comm", False),
                                workers_call_map=rp.get("workers_call_map", False))
            ctx.count()
            mpi_oracle(ctx, out, rp["W"], rp["lb"], batches, rp)
        elif kind == "mpi-platypus":
            from platypus import PoolEvaluator
            holder = {}

            def body(pool):
                ev = PoolEvaluator(pool)
                pairing_case(ctx, "pool-mpi", ev, rp["vs"], rp["pre"], False, rp, [])
                kw = {} if rp["log_frequency"] is None else {"log_frequency": rp["log_frequency"]}
                holder["jobs"] = list(ev.evaluate_all(JB.shape(rp.get("form", "list"), [JB.DelayJob(x) for x in rp["xs"]]), **kw))
            out = M.run_session(rp["W"], rp["lb"], [], M.Chooser(prefix=rp.get("choices") or []), eager=rp.get("eager", True), master_body=body)
            ctx.count()
            if out["error"] or out["deadlock"]:
                mpi_oracle(ctx, out, rp["W"], rp["lb"], [], rp)
            elif [getattr(j, "x", None) for j in holder.get("jobs", [])] != rp["xs"]:
                ctx.violation(key, "replay: PoolEvaluator(MPIPool) returned jobs %r for %r" % ([getattr(j, "x", None) for j in holder["jobs"]], rp["xs"]), rp)
        elif kind == "experiment":
            part_experiment(ctx, pools)
        else:
            run(ctx)
    finally:
        pools.close()
