"""C13 determinism frame check: an AST scan of <repo>/platypus that justifies modelling one step as a function
of (algorithm object, state of the global `random` generator).

  A. every randomness source is a module-level function of the `random` module (no own Random instances, no
     SystemRandom / secrets / uuid / os.urandom / numpy.random, no reseeding inside the library);
  B. no order-sensitive use of a set / frozenset (iteration, list(), tuple(), pop(), choice, sample, join, unpacking,
     or letting the set escape to code the analysis does not see).  Order-insensitive uses are accepted: len, in,
     sorted, min, max, any, all, add/remove/discard/update, comparisons, set algebra that stays a set.
     dict iteration is insertion-ordered by the language (CPython >= 3.7), so it is order-stable whenever the code
     that fills the dict is; a dict filled from a set iteration is caught because that iteration is flagged;
  C. no id() / hash() / time / datetime.now / os.urandom / os.getpid in algorithm logic; each existing use must be
     on the allow-list below (by file + enclosing function) or flow only into logging/print calls;
  E. inside Variator.evolve / Mutation.mutate (and the methods of the same class they call through self) nothing is stored
     into `self`: operator instances are shared process-wide (the PlatypusConfig defaults, default-argument instances), so
     state written there makes a seeded run depend on what ran earlier in the interpreter;
  D. no mutable module-level state written from inside functions (`global` statements, mutation of module-level
     containers): such state would live outside the pickled algorithm.

Fail-closed: a construct the scan cannot classify is reported.
Returns a list of findings (dicts with file, line, qualname, rule, what).
"""
import ast
import os

RANDOM_OK = {"random", "uniform", "randint", "randrange", "choice", "choices", "shuffle", "sample", "gauss",
             "getrandbits", "normalvariate", "triangular", "betavariate", "expovariate", "gammavariate",
             "lognormvariate", "vonmisesvariate", "paretovariate", "weibullvariate", "getstate", "setstate"}
# reseeding is a user action: the command line entry point may do it, the library may not
RANDOM_SEED_OK = {("__main__.py", "main")}
BAD_MODULES = {"secrets", "uuid", "numpy.random"}

# files that are not algorithm logic at all (command line, experiment driver, MPI pool, deprecated shims, tests)
SKIP_FILES = {"tests"}

# rule C allow-list: (file, enclosing qualname) -> reason
ALLOW_C = {
    ("core.py", "MaxTime.__init__"): "time-based termination condition (outside the property: MaxTime)",
    ("core.py", "MaxTime.initialize"): "time-based termination condition (outside the property: MaxTime)",
    ("core.py", "MaxTime.shouldTerminate"): "time-based termination condition (outside the property: MaxTime)",
    ("core.py", "Solution.__deepcopy__"): "id(self) is the deepcopy memo key idiom; never iterated or compared",
    ("indicators.py", "Hypervolume.calculate"): "id-keyed dict used for identity de-duplication, iterated in insertion order of a list",
}

# rule B allow-list: (file, enclosing qualname) -> reason
ALLOW_B = {
    ("__main__.py", "main.split_list"): "command line only: the set's characters go inside a regex class [...], where order is irrelevant",
}

# rule E allow-list: (file, class) -> reason
ALLOW_E = {
    ("operators.py", "Multimethod"): "documented adaptive operator: its probabilities/next_variator are per-instance state of an object that is "
                                     "constructed with (and pickled inside) one algorithm, never a library default",
}

SET_CTORS = {"set", "frozenset"}
SET_RETURNING_METHODS = {"union", "intersection", "difference", "symmetric_difference", "copy"}
SET_SAFE_METHODS = {"add", "remove", "discard", "update", "clear", "issubset", "issuperset", "isdisjoint",
                    "difference_update", "intersection_update", "symmetric_difference_update"} | SET_RETURNING_METHODS
SAFE_CONSUMERS = {"len", "sorted", "min", "max", "any", "all", "bool", "set", "frozenset", "isinstance", "print", "repr", "str"}
MUTATORS = {"append", "extend", "insert", "add", "update", "pop", "remove", "clear", "setdefault", "discard",
            "popitem", "sort", "reverse", "__setitem__", "appendleft"}
LOG_NAMES = {"LOGGER", "logging", "logger", "log"}


def _parents(tree):
    for node in ast.walk(tree):
        for ch in ast.iter_child_nodes(node):
            ch._parent = node
    tree._parent = None


def _qualname(node):
    parts = []
    n = node
    while n is not None:
        if isinstance(n, (ast.FunctionDef, ast.AsyncFunctionDef, ast.ClassDef)):
            parts.append(n.name)
        n = getattr(n, "_parent", None)
    return ".".join(reversed(parts)) or "<module>"


def _enclosing_function(node):
    n = getattr(node, "_parent", None)
    while n is not None and not isinstance(n, (ast.FunctionDef, ast.AsyncFunctionDef, ast.Lambda)):
        n = getattr(n, "_parent", None)
    return n


def _dotted(node):
    if isinstance(node, ast.Name):
        return node.id
    if isinstance(node, ast.Attribute):
        b = _dotted(node.value)
        return None if b is None else b + "." + node.attr
    return None


def _inside_log_call(node):
    n = getattr(node, "_parent", None)
    while n is not None and not isinstance(n, (ast.FunctionDef, ast.AsyncFunctionDef, ast.ClassDef, ast.Module)):
        if isinstance(n, ast.Call):
            d = _dotted(n.func) or ""
            if d == "print" or d.split(".")[0] in LOG_NAMES:
                return True
        n = getattr(n, "_parent", None)
    return False


class Scan:
    def __init__(self, path, rel):
        self.rel = rel
        self.src = open(path).read()
        self.tree = ast.parse(self.src, filename=path)
        _parents(self.tree)
        self.findings = []
        self.stats = {"random_calls": 0, "set_exprs": 0, "dict_iterations": 0, "time_reads_logging_only": 0, "allowlisted": 0}
        self.random_aliases = set()      # names bound to the random module
        self.from_random = {}            # local name -> random function
        self.time_aliases = set()
        self.datetime_aliases = set()
        self.os_aliases = set()
        self.numpy_aliases = set()

    def add(self, node, rule, what):
        self.findings.append({"file": self.rel, "line": getattr(node, "lineno", 0), "qualname": _qualname(node),
                              "rule": rule, "what": what})

    # ---------------- imports ----------------
    def imports(self):
        for n in ast.walk(self.tree):
            if isinstance(n, ast.Import):
                for a in n.names:
                    name, asn = a.name, a.asname or a.name.split(".")[0]
                    if name == "random":
                        self.random_aliases.add(asn)
                    elif name == "time":
                        self.time_aliases.add(asn)
                    elif name == "datetime":
                        self.datetime_aliases.add(asn)
                    elif name == "os":
                        self.os_aliases.add(asn)
                    elif name.split(".")[0] == "numpy":
                        self.numpy_aliases.add(asn)
                        if name == "numpy.random":
                            self.add(n, "A", "imports numpy.random")
                    elif name in BAD_MODULES:
                        self.add(n, "A", "imports %s" % name)
            elif isinstance(n, ast.ImportFrom):
                mod = n.module or ""
                for a in n.names:
                    asn = a.asname or a.name
                    if mod == "random":
                        if a.name in RANDOM_OK:
                            self.from_random[asn] = a.name
                        else:
                            self.add(n, "A", "from random import %s" % a.name)
                    elif mod in BAD_MODULES or (mod == "numpy" and a.name == "random") or mod.startswith("numpy.random"):
                        self.add(n, "A", "from %s import %s" % (mod, a.name))
                    elif mod == "os" and a.name in ("urandom", "getpid"):
                        self.add(n, "C", "from os import %s" % a.name)
                    elif mod == "time":
                        self.time_aliases.add("<from>" + asn)
                        self.from_time = getattr(self, "from_time", set()) | {asn}
                    elif mod == "datetime" and a.name == "datetime":
                        self.datetime_cls = getattr(self, "datetime_cls", set()) | {asn}

    # ---------------- rule A ----------------
    def rule_a(self):
        for n in ast.walk(self.tree):
            if isinstance(n, ast.Attribute):
                d = _dotted(n)
                if d is None:
                    continue
                head = d.split(".")
                if head[0] in self.random_aliases and len(head) >= 2:
                    fn = head[1]
                    if fn == "seed":
                        if (self.rel, _qualname(n)) not in RANDOM_SEED_OK:
                            self.add(n, "A", "reseeds the global generator (random.seed) inside the library")
                    elif fn not in RANDOM_OK:
                        self.add(n, "A", "random.%s is not a module-level draw of the global generator" % fn)
                    else:
                        self.stats["random_calls"] += 1
                if head[0] in self.numpy_aliases and len(head) >= 2 and head[1] == "random":
                    self.add(n, "A", "uses numpy.random")
            elif isinstance(n, ast.Name) and isinstance(n.ctx, ast.Load) and n.id in self.from_random:
                self.stats["random_calls"] += 1

    # ---------------- rule B ----------------
    def set_names(self, fn):
        """names assigned from a set-typed expression anywhere in the function (conservative)"""
        names = set()
        changed = True
        while changed:
            changed = False
            for n in ast.walk(fn):
                targets, value = [], None
                if isinstance(n, ast.Assign):
                    targets, value = n.targets, n.value
                elif isinstance(n, ast.AnnAssign) and n.value is not None:
                    targets, value = [n.target], n.value
                elif isinstance(n, ast.AugAssign):
                    targets, value = [n.target], n.value
                elif isinstance(n, ast.NamedExpr):
                    targets, value = [n.target], n.value
                if value is not None and self.is_set(value, names):
                    for t in targets:
                        if isinstance(t, ast.Name) and t.id not in names:
                            names.add(t.id)
                            changed = True
                        elif isinstance(t, ast.Attribute):
                            d = _dotted(t)
                            if d and d not in names:
                                names.add(d)
                                changed = True
        return names

    def is_set(self, e, names):
        if isinstance(e, (ast.Set, ast.SetComp)):
            return True
        if isinstance(e, ast.Call):
            f = e.func
            if isinstance(f, ast.Name) and f.id in SET_CTORS:
                return True
            if isinstance(f, ast.Attribute) and f.attr in SET_RETURNING_METHODS and self.is_set(f.value, names):
                return True
            if isinstance(f, ast.Attribute) and f.attr == "keys" and False:
                return False
        if isinstance(e, ast.BinOp) and isinstance(e.op, (ast.Sub, ast.BitOr, ast.BitAnd, ast.BitXor)):
            return self.is_set(e.left, names) or self.is_set(e.right, names)
        if isinstance(e, ast.Name) and e.id in names:
            return True
        if isinstance(e, ast.Attribute):
            d = _dotted(e)
            return d in names if d else False
        if isinstance(e, ast.IfExp):
            return self.is_set(e.body, names) or self.is_set(e.orelse, names)
        return False

    def rule_b(self):
        scopes = [n for n in ast.walk(self.tree) if isinstance(n, (ast.FunctionDef, ast.AsyncFunctionDef))]
        scopes.append(self.tree)
        seen = set()
        for fn in scopes:
            names = self.set_names(fn)
            for n in ast.walk(fn):
                if id(n) in seen or not isinstance(n, ast.expr):
                    continue
                if not self.is_set(n, names):
                    continue
                if isinstance(n, (ast.Name, ast.Attribute)) and isinstance(getattr(n, "ctx", None), (ast.Store, ast.Del)):
                    continue
                seen.add(id(n))
                self.stats["set_exprs"] += 1
                why = self.set_use(n, names)
                if why and (self.rel, _qualname(n)) in ALLOW_B:
                    self.stats["allowlisted"] += 1
                elif why:
                    self.add(n, "B", why)
        # dict iteration: counted (order = insertion order), not flagged
        for n in ast.walk(self.tree):
            if isinstance(n, ast.Call) and isinstance(n.func, ast.Attribute) and n.func.attr in ("keys", "values", "items"):
                self.stats["dict_iterations"] += 1

    def set_use(self, n, names):
        """None if this occurrence of a set-typed expression is order-insensitive, else a description"""
        p = getattr(n, "_parent", None)
        if isinstance(p, ast.Compare):
            return None                       # x in S, S == T, S <= T
        if isinstance(p, ast.BinOp) and isinstance(p.op, (ast.Sub, ast.BitOr, ast.BitAnd, ast.BitXor)):
            return None                       # stays a set; the result is classified at its own use
        if isinstance(p, (ast.Assign, ast.AnnAssign, ast.AugAssign, ast.NamedExpr)) and getattr(p, "value", None) is n:
            tg = p.targets if isinstance(p, ast.Assign) else [p.target]
            if all(isinstance(t, (ast.Name, ast.Attribute)) for t in tg):
                return None                   # bound to a name the analysis tracks
            return "set is unpacked / stored into a container (order-sensitive or escapes the analysis)"
        if isinstance(p, ast.Attribute) and p.value is n:
            if p.attr in SET_SAFE_METHODS:
                return None
            if p.attr == "pop":
                return "set.pop() returns an arbitrary (hash-order) element"
            return "method .%s on a set is not known to be order-insensitive" % p.attr
        if isinstance(p, ast.Call):
            if p.func is n:
                return None
            d = _dotted(p.func) or ""
            if d in SAFE_CONSUMERS:
                return None
            if isinstance(p.func, ast.Attribute) and p.func.attr in SET_SAFE_METHODS and self.is_set(p.func.value, names):
                return None                   # S.update(T), S.union(T)
            return "set passed to %s(): its iteration order (hash order) reaches program state" % (d or "a call")
        if isinstance(p, (ast.For, ast.AsyncFor)) and p.iter is n:
            return "for-loop over a set: iteration order is hash order"
        if isinstance(p, ast.comprehension) and p.iter is n:
            gp = getattr(p, "_parent", None)
            if isinstance(gp, ast.SetComp):
                return None
            return "comprehension over a set: iteration order is hash order"
        if isinstance(p, ast.Starred):
            return "set is unpacked with *"
        if isinstance(p, (ast.BoolOp, ast.UnaryOp, ast.If, ast.While, ast.IfExp, ast.Assert)):
            return None                       # truth value
        if isinstance(p, ast.Expr):
            return None
        if isinstance(p, ast.Return):
            return "set is returned (escapes the analysis)"
        if isinstance(p, (ast.JoinedStr, ast.FormattedValue)):
            return "set is formatted into a string (order-sensitive)"
        return "set used in a %s (not classified; treated as order-sensitive)" % type(p).__name__

    # ---------------- rule C ----------------
    def rule_c(self):
        # id / hash used as a VALUE (key=id, map(hash, ...)) is as address / hash-seed dependent as a call
        for n in ast.walk(self.tree):
            if isinstance(n, ast.Name) and isinstance(n.ctx, ast.Load) and n.id in ("id", "hash"):
                p = getattr(n, "_parent", None)
                if isinstance(p, ast.Call) and p.func is n:
                    continue
                if (self.rel, _qualname(n)) in ALLOW_C:
                    continue
                self.add(n, "C", "builtin %s passed as a value in %s (address / hash-seed dependent ordering or keys)" % (n.id, _qualname(n)))
        from_time = getattr(self, "from_time", set())
        datetime_cls = getattr(self, "datetime_cls", set())
        # names whose only loads are inside logging calls may hold a clock reading
        for n in ast.walk(self.tree):
            if not isinstance(n, ast.Call):
                continue
            d = _dotted(n.func) or ""
            head = d.split(".")
            what = None
            if d in ("id", "hash"):
                what = "%s() (address / hash-seed dependent)" % d
            elif head[0] in self.time_aliases and len(head) == 2:
                what = "clock read %s()" % d
            elif d in from_time:
                what = "clock read %s()" % d
            elif (head[0] in self.datetime_aliases and head[-1] in ("now", "utcnow", "today")) or \
                 (head[0] in datetime_cls and head[-1] in ("now", "utcnow", "today")):
                what = "clock read %s()" % d
            elif head[0] in self.os_aliases and head[-1] in ("urandom", "getpid", "getrandom", "times"):
                what = "%s()" % d
            if what is None:
                continue
            q = _qualname(n)
            if (self.rel, q) in ALLOW_C:
                self.stats["allowlisted"] += 1
                continue
            if what.startswith("clock read") and self.clock_is_logging_only(n):
                self.stats["time_reads_logging_only"] += 1
                continue
            self.add(n, "C", "%s in %s" % (what, q))

    def clock_is_logging_only(self, call):
        """the reading flows only into LOGGER.* / print arguments, directly or through one name/attribute"""
        if _inside_log_call(call):
            return True
        p = getattr(call, "_parent", None)
        # allow  x = time.time()  /  self.x = time.time()  when every load of x is inside a logging call
        if isinstance(p, ast.Assign) and p.value is call and len(p.targets) == 1:
            t = p.targets[0]
            key = _dotted(t)
            if key is None:
                return False
            if isinstance(t, ast.Name):
                scope = _enclosing_function(call) or self.tree
            else:
                scope = call
                while scope is not None and not isinstance(scope, ast.ClassDef):
                    scope = getattr(scope, "_parent", None)
                scope = scope or self.tree
            for m in ast.walk(scope):
                if isinstance(m, (ast.Name, ast.Attribute)) and isinstance(getattr(m, "ctx", None), ast.Load) and _dotted(m) == key:
                    if not _inside_log_call(m):
                        return False
            return True
        return False

    # ---------------- rule D ----------------
    def rule_d(self):
        module_names = {}
        for st in self.tree.body:
            tg = []
            if isinstance(st, ast.Assign):
                tg, val = st.targets, st.value
            elif isinstance(st, ast.AnnAssign) and st.value is not None:
                tg, val = [st.target], st.value
            else:
                continue
            for t in tg:
                if isinstance(t, ast.Name):
                    module_names[t.id] = val
        for fn in ast.walk(self.tree):
            if not isinstance(fn, (ast.FunctionDef, ast.AsyncFunctionDef)):
                continue
            local = {a.arg for a in fn.args.args + fn.args.kwonlyargs + fn.args.posonlyargs}
            if fn.args.vararg:
                local.add(fn.args.vararg.arg)
            if fn.args.kwarg:
                local.add(fn.args.kwarg.arg)
            globs = set()
            for n in ast.walk(fn):
                if isinstance(n, ast.Global):
                    globs.update(n.names)
                    self.add(n, "D", "`global %s`: module-level state written from a function (lives outside the pickled algorithm)" % ", ".join(n.names))
                elif isinstance(n, ast.Name) and isinstance(n.ctx, ast.Store):
                    local.add(n.id)
            local -= globs
            for n in ast.walk(fn):
                base = None
                if isinstance(n, (ast.Subscript, ast.Attribute)) and isinstance(n.ctx, (ast.Store, ast.Del)):
                    b = n.value
                    while isinstance(b, (ast.Subscript, ast.Attribute)):
                        b = b.value
                    base = b
                    kind = "store into"
                elif isinstance(n, ast.Call) and isinstance(n.func, ast.Attribute) and n.func.attr in MUTATORS:
                    b = n.func.value
                    while isinstance(b, (ast.Subscript,)):
                        b = b.value
                    base = b
                    kind = ".%s() on" % n.func.attr
                if isinstance(base, ast.Name) and base.id in module_names and base.id not in local:
                    v = module_names[base.id]
                    if isinstance(v, (ast.List, ast.Dict, ast.Set, ast.ListComp, ast.DictComp, ast.SetComp)) or \
                       (isinstance(v, ast.Call) and (_dotted(v.func) or "") in ("list", "dict", "set", "collections.defaultdict", "defaultdict",
                                                                                "collections.deque", "deque", "collections.Counter", "Counter",
                                                                                "itertools.count", "count")):
                        self.add(n, "D", "%s module-level container `%s` inside %s" % (kind, base.id, _qualname(n)))
            # next(<module-level iterator>)
            for n in ast.walk(fn):
                if isinstance(n, ast.Call) and (_dotted(n.func) or "") == "next" and n.args and isinstance(n.args[0], ast.Name) \
                        and n.args[0].id in module_names and n.args[0].id not in local:
                    self.add(n, "D", "next() on module-level iterator `%s`" % n.args[0].id)

    # ---------------- rule E ----------------
    def rule_e(self):
        for cls in ast.walk(self.tree):
            if not isinstance(cls, ast.ClassDef):
                continue
            methods = {m.name: m for m in cls.body if isinstance(m, (ast.FunctionDef, ast.AsyncFunctionDef))}
            roots = [n for n in ("evolve", "mutate") if n in methods]
            if not roots:
                continue
            reach, todo = set(), list(roots)
            while todo:
                name = todo.pop()
                if name in reach or name not in methods:
                    continue
                reach.add(name)
                for n in ast.walk(methods[name]):
                    if isinstance(n, ast.Call) and isinstance(n.func, ast.Attribute) and isinstance(n.func.value, ast.Name) \
                            and n.func.value.id == "self":
                        todo.append(n.func.attr)
            for name in sorted(reach):
                for n in ast.walk(methods[name]):
                    hit = None
                    if isinstance(n, (ast.Attribute, ast.Subscript)) and isinstance(n.ctx, (ast.Store, ast.Del)):
                        b = n.value
                        while isinstance(b, (ast.Attribute, ast.Subscript)):
                            b = b.value
                        if isinstance(b, ast.Name) and b.id == "self":
                            hit = "stores into self.%s" % (_dotted(n) or "...").split(".", 1)[-1] if isinstance(n, ast.Attribute) else "stores into a container held by self"
                    elif isinstance(n, ast.Call) and isinstance(n.func, ast.Attribute) and n.func.attr in MUTATORS:
                        b = n.func.value
                        while isinstance(b, (ast.Attribute, ast.Subscript)):
                            b = b.value
                        if isinstance(b, ast.Name) and b.id == "self" and n.func.value is not b:
                            hit = "calls .%s() on a container held by self" % n.func.attr
                    if hit:
                        if (self.rel, cls.name) in ALLOW_E:
                            self.stats["allowlisted"] += 1
                        else:
                            self.add(n, "E", "%s.%s %s: hidden state on a (possibly shared) operator instance" % (cls.name, name, hit))
            self.stats["operator_methods_checked"] = self.stats.get("operator_methods_checked", 0) + len(reach)

    def run(self):
        self.imports()
        self.rule_e()
        self.rule_a()
        self.rule_b()
        self.rule_c()
        self.rule_d()
        return self.findings


def scan_repo(repo):
    root = os.path.join(repo, "platypus")
    findings, stats, files = [], {}, []
    for fn in sorted(os.listdir(root)):
        if fn in SKIP_FILES or not fn.endswith(".py"):
            continue
        sc = Scan(os.path.join(root, fn), fn)
        try:
            findings += sc.run()
        except Exception as e:  # noqa: BLE001 — fail closed
            findings.append({"file": fn, "line": 0, "qualname": "<scan>", "rule": "scan", "what": "scanner failed: %s: %s" % (type(e).__name__, e)})
        files.append(fn)
        for k, v in sc.stats.items():
            stats[k] = stats.get(k, 0) + v
    return findings, stats, files


if __name__ == "__main__":
    import json
    import sys
    f, s, fl = scan_repo(sys.argv[1] if len(sys.argv) > 1 else "/repo")
    print(json.dumps({"findings": f, "stats": s, "files": fl}, indent=1))
