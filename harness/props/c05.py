"""C05 — epsilon-box archive: one solution per box, epsilon-covers everything offered."""
import math
from fractions import Fraction as Fr
from vlib import common as C
from vlib import plat

ID = "C05"
PROPS_FILE = "Props/C05.v"
COQ_TARGETS = ["Harness/H05.vo"]
ALLOWED_AXIOMS = []
# second tie (translator): coq/Gen/Core.v is regenerated from the source text of C.REPO on every run and
# coq/Tie/T05.v proves generated definition = hand model (harness/translate/py2coq_core.py)
EXTRA_PROPS = ["Tie/T05.v"]


def prebuild(ctx):
    import os
    import sys
    sys.path.insert(0, os.path.join(C.VERIF, "harness", "translate"))
    import py2coq_core
    py2coq_core.prebuild(ctx, C, ["EpsilonDominance.same_box", "EpsilonDominance.compare", "Archive.add"])


META = {
    "level_text": "Machine-checked proof (Coq) about a literal, exception-aware model over exact rationals of EpsilonDominance.compare/same_box, "
                  "Archive.add and EpsilonBoxArchive.add: compare = violation class, then Pareto on box indices floor(adj/eps) (last epsilon reused), "
                  "then nearer corner inside one box (never 0 there; the repaired Pareto-first tie-break is proved equal to the distance rule); "
                  "same_box <-> equal class and equal boxes; compare never contradicts ParetoDominance (the C02 model); eps-dominance transitive; "
                  "for EVERY insertion history the invariant EInv: one member per (class, box), no member's box dominates another's, every offered solution "
                  "is weakly box-dominated by (or more violating than) a member - hence within one epsilon in every objective -, no member is eps-/Pareto-"
                  "dominated by anything ever offered, improvements = number of accepted offers entering an unoccupied box; rejected add changes nothing; "
                  "Archive(EpsilonDominance) holds the same contents. Tied to /repo on every run by exact differential correspondence (operation "
                  "sequences on both archive classes and direct pair cases, vm_compute) and an independent Fraction-based oracle on the real objects.",
    "level_note": "Tie/T05.v also states the archive invariant and transitivity about the Archive.add and EpsilonDominance.compare GENERATED from the source text (tie_c05_generated_*). Theorems are about EXACT rational arithmetic under eps > 0, one objective per direction, violation >= 0 (no other hypothesis). "
                  "binary64 rounding of o/eps, i*eps, o - i*eps, squares and sums is NOT modelled: the correspondence only uses dyadic inputs on which "
                  "every one of these float operations is exact and the driver verifies that per case with fractions.Fraction (inexact cases are "
                  "discarded and counted). Arbitrary floats and non-dyadic epsilons (0.1, 0.3, ...) are exercised by the oracle only, which judges the "
                  "box clauses against the box floor(o/eps) as computed in binary64 (what the statement calls the box) and the Pareto clause directly; "
                  "the real-valued 'within one epsilon' consequence can be off by rounding there and is reported as a count, not judged. "
                  "Trusted: Coq kernel + VM; harness (literal printer, shard runner); the hand-written model is tied to the code only on the sampled "
                  "inputs. NaN/inf objectives are outside the property. No axioms (all theorems closed under the global context).",
    "technique": "Coq proof over an exact-rational executable model + exact model/implementation correspondence on operation sequences (vm_compute) + Fraction oracle",
}

EPS_POW2 = [0.125, 0.25, 0.5, 1.0, 2.0]
EPS_ODD = [0.75, 1.5, 0.375]          # dyadic but not a power of two: quotients are often inexact -> exercised exactness filter
INBOX = [0.0, 0.0, 0.125, 0.25, 0.5, 0.75, 0.875]
CVPOOL = [0.0, 0.0, 0.0, 0.25, 0.5, 1.0]
FLOAT_EPS = [0.1, 0.3, 0.7, 0.05, 1.0 / 3.0, 0.01]


# ----------------------------------------------------------------------------
# configurations and real objects
# ----------------------------------------------------------------------------
class Cfg:
    """eps: what is handed to the constructor (list of floats, or a bare float), dirs: True = MAXIMIZE, con: nconstrs > 0"""

    def __init__(self, eps, dirs, con):
        self.eps = eps
        self.dirs = list(dirs)
        self.con = bool(con)

    @property
    def eps_list(self):
        return list(self.eps) if isinstance(self.eps, (list, tuple)) else [self.eps]

    def problem(self):
        return plat.mk_problem(len(self.dirs), self.dirs, nconstrs=1 if self.con else 0)

    def to_json(self):
        return {"eps": [repr(e) for e in self.eps_list], "scalar": not isinstance(self.eps, (list, tuple)),
                "dirs": self.dirs, "con": self.con}

    @staticmethod
    def from_json(d):
        es = [float(e) for e in d["eps"]]
        return Cfg(es[0] if d.get("scalar") else es, d["dirs"], d["con"])

    def lit(self):
        return "(ECfg %s %s %s)" % (C.list_lit([C.q_lit(e) for e in self.eps_list]),
                                    C.list_lit([C.bool_lit(d) for d in self.dirs]), C.bool_lit(self.con))


def sol_lit(sid, objs, cv):
    return "(ESol %s %s %s)" % (C.nat_lit(sid), C.list_lit([C.q_lit(o) for o in objs]), C.q_lit(cv))


def mk_archive(cfg, box):
    from platypus import EpsilonBoxArchive, Archive, EpsilonDominance
    eps = list(cfg.eps) if isinstance(cfg.eps, (list, tuple)) else cfg.eps
    return EpsilonBoxArchive(eps) if box else Archive(EpsilonDominance(eps))


def mk_sols(cfg, ops):
    """ops: list of (sid, objs, cv); the same sid is the same Solution object"""
    p = cfg.problem()
    objs_by_sid = {}
    out = []
    for sid, objs, cv in ops:
        if sid not in objs_by_sid:
            s = plat.mk_solution(p, objs, cv)
            s._sid = sid
            objs_by_sid[sid] = s
        out.append(objs_by_sid[sid])
    return out


# ----------------------------------------------------------------------------
# exactness of every float operation of the implementation (per solution)
# ----------------------------------------------------------------------------
def exact_ok(cfg, objs):
    es = cfg.eps_list
    if not es:
        return True       # the implementation raises IndexError before any arithmetic
    dist = 0.0
    for i, o in enumerate(objs):
        if cfg.dirs[i]:
            o = -o
        eps = float(es[i if i < len(es) else -1])
        if eps == 0.0:
            return True   # the implementation raises before any arithmetic
        q = o / eps
        if Fr(q) != Fr(o) / Fr(eps):
            return False
        i1 = math.floor(q)
        t = i1 * eps
        if Fr(t) != i1 * Fr(eps):
            return False
        d = o - t
        if Fr(d) != Fr(o) - Fr(t):
            return False
        p = math.pow(d, 2.0)
        if Fr(p) != Fr(d) * Fr(d):
            return False
        nd = dist + p
        if Fr(nd) != Fr(dist) + Fr(p):
            return False
        dist = nd
    return True


# ----------------------------------------------------------------------------
# the oracle: the property statement on the real objects, Fraction arithmetic,
# written independently of the Coq model
# ----------------------------------------------------------------------------
class Oracle:
    def __init__(self, cfg, float_boxes=False):
        self.cfg = cfg
        self.float_boxes = float_boxes
        self.n = len(cfg.dirs)
        es = cfg.eps_list
        self.eps_f = [float(es[i]) if i < len(es) else float(es[-1]) for i in range(self.n)]
        self.eps = [Fr(e) for e in self.eps_f]
        self._cache = {}
        self._keep = []   # keeps the cached objects alive so id() stays unique

    def _memo(self, tag, s, f):
        # solutions are not modified during a history; cache the exact quantities per object
        k = (tag, id(s))
        v = self._cache.get(k)
        if v is None:
            v = self._cache[k] = f(s)
            self._keep.append(s)
        return v

    def adj(self, s):
        return self._memo("adj", s, lambda s: [(-Fr(o) if mx else Fr(o)) for o, mx in zip(s.objectives[:], self.cfg.dirs)])

    def box_exact(self, s):
        return self._memo("bx", s, lambda s: tuple(math.floor(a / e) for a, e in zip(self.adj(s), self.eps)))

    def box_float(self, s):
        return self._memo("bf", s, lambda s: tuple(math.floor((-o if mx else o) / e)
                                                   for o, mx, e in zip(s.objectives[:], self.cfg.dirs, self.eps_f)))

    def box(self, s):
        return self.box_float(s) if self.float_boxes else self.box_exact(s)

    def cls(self, s):
        return self._memo("cls", s, lambda s: Fr(s.constraint_violation) if self.cfg.con else Fr(0))

    def key(self, s):
        return (self.cls(s), self.box(s))

    def dist(self, s):
        return self._memo("dist", s, lambda s: sum((a - i * e) ** 2 for a, i, e in zip(self.adj(s), self.box_exact(s), self.eps)))

    @staticmethod
    def le(b1, b2):
        return all(x <= y for x, y in zip(b1, b2))

    @staticmethod
    def dom(b1, b2):
        return all(x <= y for x, y in zip(b1, b2)) and any(x < y for x, y in zip(b1, b2))

    def covers(self, m, x):
        """m weakly box-dominates x, or x is more constraint-violating"""
        return self.cls(m) < self.cls(x) or (self.cls(m) == self.cls(x) and self.le(self.box(m), self.box(x)))

    def within_eps(self, m, x):
        if self.cls(m) < self.cls(x):
            return True
        return self.cls(m) == self.cls(x) and all(a < b + e for a, b, e in zip(self.adj(m), self.adj(x), self.eps))

    def beats_or_ties(self, m, s):
        """definition of 'm is at least as good as s' (exact arithmetic): s must be rejected iff some member is"""
        if self.cls(m) != self.cls(s):
            return self.cls(m) < self.cls(s)
        bm, bs = self.box(m), self.box(s)
        if self.dom(bm, bs):
            return True
        return bm == bs and self.dist(m) <= self.dist(s)

    def compare(self, a, b):
        """the English definition; equal distance inside one box keeps the incumbent (answers 1)"""
        if self.cls(a) != self.cls(b):
            return -1 if self.cls(a) < self.cls(b) else 1
        ba, bb = self.box(a), self.box(b)
        if self.dom(ba, bb):
            return -1
        if self.dom(bb, ba):
            return 1
        if ba == bb:
            return -1 if self.dist(a) < self.dist(b) else 1
        return 0

    def same_box(self, a, b):
        return self.cls(a) == self.cls(b) and self.box(a) == self.box(b)


def check_history(cfg, box, ops, float_boxes=False, stats=None):
    """Run the history on the real archive and check the property after every operation.
    Returns (observations, failures); failures = list of (key, what, op index)."""
    from platypus import ParetoDominance
    orc = Oracle(cfg, float_boxes)
    arch = mk_archive(cfg, box)
    sols = mk_sols(cfg, ops)
    dominance = arch._dominance
    pareto = ParetoDominance()
    offered = []
    obs = []
    fails = []
    expected_imp = 0
    kind = "EpsilonBoxArchive" if box else "Archive(EpsilonDominance)"

    def fail(key, what, k):
        fails.append((key, "%s after op %d (%s): %s" % (kind, k, describe(ops[k]), what), k))

    for k, s in enumerate(sols):
        before = list(arch._contents)
        imp_before = getattr(arch, "improvements", 0)
        # Pareto consistency of the comparator on (newcomer, member) pairs
        for m in before:
            pc = pareto.compare(s, m)
            if pc != 0:
                ec = dominance.compare(s, m)
                if ec != pc:
                    fail("eps-compare-contradicts-pareto",
                         "ParetoDominance.compare(%s, %s) = %d but EpsilonDominance.compare = %d" % (describe_sol(s), describe_sol(m), pc, ec), k)
        unoccupied = all(orc.key(m) != orc.key(s) for m in before)
        ret = arch.add(s)
        offered.append(s)
        members = list(arch._contents)
        imp = getattr(arch, "improvements", 0)
        obs.append((bool(ret), [m._sid for m in members], imp))
        if ret is not True and ret is not False:
            fail("add-return-value", "add returned %r" % (ret,), k)
        # rejected add leaves contents and counter unchanged
        if not ret:
            if len(members) != len(before) or any(x is not y for x, y in zip(members, before)) or imp != imp_before:
                fail("rejected-add-changed-state", "contents/counter changed by a rejected add", k)
        else:
            if not any(m is s for m in members):
                fail("accepted-not-member", "accepted solution is not a member", k)
        # accept decision (exact boxes only: inside one box it depends on the rounded distances)
        must_reject = any(orc.beats_or_ties(m, s) for m in before)
        if not float_boxes and bool(ret) == must_reject:
            fail("accept-decision-differs-from-definition",
                 "add returned %r but %s member is at least as good (box-dominates it, or shares its box at no greater corner distance)"
                 % (ret, "a" if must_reject else "no"), k)
        # members are offered solutions
        if any(not any(m is x for x in offered) for m in members):
            fail("member-never-offered", "a member was never offered", k)
        # (i) at most one member per (class, box)
        keys = [orc.key(m) for m in members]
        if len(set(keys)) != len(keys):
            dup = [kk for kk in keys if keys.count(kk) > 1][0]
            fail("two-members-in-one-box", "two members share class/box %r: sids %r" % (dup, [m._sid for m in members if orc.key(m) == dup]), k)
        # (ii) one class, no member's box dominates another's
        if len(set(orc.cls(m) for m in members)) > 1:
            fail("members-of-different-violation-class", "members with different violation classes coexist", k)
        for a in members:
            for b in members:
                if a is not b and orc.dom(orc.box(a), orc.box(b)):
                    fail("member-box-dominates-member", "box %r of sid %d dominates box %r of sid %d" % (orc.box(a), a._sid, orc.box(b), b._sid), k)
        # (iii) coverage of everything ever offered
        for x in offered:
            if not any(orc.covers(m, x) for m in members):
                fail("offered-solution-not-covered", "offered %s (box %r) is not weakly box-dominated by any member (boxes %r)"
                     % (describe_sol(x), orc.box(x), [orc.box(m) for m in members]), k)
            elif not any(orc.within_eps(m, x) for m in members):
                if float_boxes:
                    if stats is not None:
                        stats["within_eps_rounding_exceedances"] = stats.get("within_eps_rounding_exceedances", 0) + 1
                        stats.setdefault("within_eps_example", {"cfg": cfg.to_json(), "x": describe_sol(x), "members": [describe_sol(m) for m in members]})
                else:
                    fail("offered-solution-not-within-epsilon", "no member is within one epsilon of offered %s in every objective" % describe_sol(x), k)
            # no member may be Pareto-dominated by something that was offered
            for m in members:
                if x is not m and pareto.compare(x, m) == -1:
                    if float_boxes and orc.box_float(x) == orc.box_float(m) and orc.cls(x) == orc.cls(m):
                        # same float box: the outcome hinges on rounded corner distances of third parties
                        if stats is not None:
                            stats["member_dominated_same_box_rounding"] = stats.get("member_dominated_same_box_rounding", 0) + 1
                            stats.setdefault("member_dominated_example", {"cfg": cfg.to_json(), "box": box, "ops": [op_json(o) for o in ops[:k + 1]]})
                    else:
                        fail("member-pareto-dominated-by-offered", "member %s is Pareto-dominated by offered %s" % (describe_sol(m), describe_sol(x)), k)
        # (iv) the improvements counter
        if box:
            if ret and unoccupied:
                expected_imp += 1
            if imp != expected_imp:
                fail("improvements-counter", "improvements = %d, but %d accepted offers entered an unoccupied box (this offer: accepted=%r, box unoccupied=%r)"
                     % (imp, expected_imp, bool(ret), unoccupied), k)
                expected_imp = imp   # report each discrepancy once
        if stats is not None and float_boxes:
            if any(orc.box_float(x) != orc.box_exact(x) for x in (s,)):
                stats["float_box_differs_from_exact_box"] = stats.get("float_box_differs_from_exact_box", 0) + 1
    return obs, fails


def check_pair(cfg, a, b, float_boxes=False):
    """direct compare / same_box on one pair; a, b = (objs, cv). Returns (cmp or None, same_box or None, failures)."""
    from platypus import EpsilonDominance, ParetoDominance
    eps = list(cfg.eps) if isinstance(cfg.eps, (list, tuple)) else cfg.eps
    dom = EpsilonDominance(eps)
    p = cfg.problem()
    s1 = plat.mk_solution(p, a[0], a[1])
    s2 = plat.mk_solution(p, b[0], b[1])
    fails = []
    try:
        r = dom.compare(s1, s2)
    except (IndexError, ZeroDivisionError):
        r = None
    try:
        sb = dom.same_box(s1, s2)
    except (IndexError, ZeroDivisionError):
        sb = None
    es = cfg.eps_list
    valid = len(es) > 0 and all(e > 0 for e in es)
    if valid:
        orc = Oracle(cfg, float_boxes)
        pc = ParetoDominance().compare(s1, s2)
        if pc != 0 and r != pc:
            fails.append(("eps-compare-contradicts-pareto", "ParetoDominance.compare = %d but EpsilonDominance(%r).compare = %r on %r %r dirs=%r"
                          % (pc, es, r, a, b, cfg.dirs)))
        exp_sb = orc.same_box(s1, s2)
        if sb is not exp_sb:
            fails.append(("same-box-differs-from-definition", "same_box = %r, definition (equal class and equal box indices %r / %r) says %r for %r %r eps=%r dirs=%r"
                          % (sb, orc.box(s1), orc.box(s2), exp_sb, a, b, es, cfg.dirs)))
        exp = orc.compare(s1, s2)
        same = orc.same_box(s1, s2)
        if not (float_boxes and same):      # inside one float box the answer depends on rounded distances
            if r != exp:
                fails.append(("compare-differs-from-definition", "compare = %r, definition says %r (boxes %r / %r) for %r %r eps=%r dirs=%r con=%r"
                              % (r, exp, orc.box(s1), orc.box(s2), a, b, es, cfg.dirs, cfg.con)))
        elif r not in (-1, 1):
            fails.append(("compare-zero-inside-one-box", "compare = %r inside one box for %r %r eps=%r" % (r, a, b, es)))
    return r, sb, fails


def describe_sol(s):
    return "sid %d %r cv=%r" % (s._sid, list(s.objectives[:]), s.constraint_violation)


def describe(op):
    return "offer sid %d %r cv=%r" % (op[0], list(op[1]), op[2])


def op_json(op):
    return [op[0], [repr(float(o)) for o in op[1]], repr(float(op[2]))]


def op_from_json(j):
    return (int(j[0]), [float(o) for o in j[1]], float(j[2]))


def shrink_history(cfg, box, ops, float_boxes, key):
    """delta-debug: drop operations while the same clause still fails"""
    def failing(o):
        try:
            return any(f[0] == key for f in check_history(cfg, box, o, float_boxes)[1])
        except Exception:
            return False
    cur = list(ops)
    changed = True
    while changed and len(cur) > 1:
        changed = False
        for i in range(len(cur) - 1, -1, -1):
            cand = cur[:i] + cur[i + 1:]
            if cand and failing(cand):
                cur = cand
                changed = True
    return cur


# ----------------------------------------------------------------------------
# generators (ctx.rng only)
# ----------------------------------------------------------------------------
def gen_cfg(rng, float_mode=False):
    n = rng.choice([1, 2, 2, 2, 3, 3, 4])
    if float_mode:
        pool = FLOAT_EPS + [0.5, 0.25]
    else:
        pool = EPS_POW2 if rng.random() < 0.85 else EPS_POW2 + EPS_ODD + EPS_ODD
    mode = rng.choice(["shared", "scalar", "per", "short", "short", "long"])
    if mode == "short" and n == 1:
        mode = "shared"
    if mode == "shared":
        eps = [rng.choice(pool)]
    elif mode == "scalar":
        eps = rng.choice(pool)
    elif mode == "per":
        eps = [rng.choice(pool) for _ in range(n)]
    elif mode == "short":
        eps = [rng.choice(pool) for _ in range(rng.randrange(1, n))]
        if len(eps) >= 2 and eps[0] == eps[-1]:
            eps[-1] = rng.choice([e for e in pool if e != eps[0]])
    else:
        eps = [rng.choice(pool) for _ in range(n + 1)]
    dirs = [rng.random() < 0.35 for _ in range(n)]
    con = rng.random() < 0.4
    return Cfg(eps, dirs, con), mode


def eps_for(cfg, i):
    es = cfg.eps_list
    return float(es[i if i < len(es) else -1])


def gen_value(rng, cfg, i, float_mode=False):
    """a raw objective value whose sign-adjusted form straddles box boundaries of objective i"""
    e = eps_for(cfg, i)
    r = rng.random()
    if float_mode:
        j = rng.randrange(-4, 4)
        if r < 0.3:
            v = j * e                                   # a float 'multiple' of eps
        elif r < 0.5:
            v = math.nextafter(j * e, rng.choice([-math.inf, math.inf]))
        elif r < 0.7:
            v = rng.randrange(-40, 40) / 10.0           # decimal grid
        elif r < 0.8:
            v = round(rng.uniform(-0.5, 0.5), rng.choice([1, 2, 3]))
        else:
            v = rng.uniform(-4 * e, 4 * e)
    else:
        if r < 0.75:
            j = rng.randrange(-3, 3)
            v = e * (j + rng.choice(INBOX))             # box-relative: exact multiples and interior points
        else:
            v = rng.randrange(-40, 41) / 16.0           # absolute dyadic grid
    return -v if cfg.dirs[i] else v


def gen_ops(rng, cfg, length, float_mode=False):
    ops = []
    nsid = 0
    for _ in range(length):
        r = rng.random()
        if ops and r < 0.08:
            ops.append(rng.choice(ops))                 # the same object offered again
            continue
        if ops and r < 0.18:
            _, objs, cv = rng.choice(ops)               # twin (new identity, same values)
            ops.append((nsid, list(objs), cv))
            nsid += 1
            continue
        if ops and r < 0.40:
            _, objs, cv = rng.choice(ops)               # neighbour: move some coordinates a little (often inside the box)
            objs = list(objs)
            for i in range(len(objs)):
                if rng.random() < 0.6:
                    e = eps_for(cfg, i)
                    if float_mode:
                        objs[i] = rng.choice([math.nextafter(objs[i], math.inf), math.nextafter(objs[i], -math.inf), objs[i] + e, objs[i] - e, objs[i] + e / 3])
                    else:
                        objs[i] = objs[i] + e * rng.choice([-1, -0.5, -0.25, -0.125, 0.125, 0.25, 0.5, 1])
        elif len(cfg.dirs) >= 2 and r < 0.75:
            # trade-off shaped: box indices sum to about 0, so that many boxes are mutually non-dominating
            n = len(cfg.dirs)
            js = [rng.randrange(-2, 3) for _ in range(n - 1)]
            js.append(-sum(js) + rng.choice([-1, 0, 0, 0, 1]))
            objs = []
            for i in range(n):
                e = eps_for(cfg, i)
                if float_mode:
                    v = rng.choice([js[i] * e, js[i] * e + rng.uniform(0, e), math.nextafter(js[i] * e, rng.choice([-math.inf, math.inf]))])
                else:
                    v = e * (js[i] + rng.choice(INBOX))
                objs.append(-v if cfg.dirs[i] else v)
        else:
            objs = [gen_value(rng, cfg, i, float_mode) for i in range(len(cfg.dirs))]
        if cfg.con:
            cv = rng.choice(CVPOOL)
        else:
            cv = 0.0 if rng.random() < 0.93 else 0.5    # stale attribute on an unconstrained problem: must be ignored
        ops.append((nsid, objs, cv))
        nsid += 1
    return ops


def seq_lit(cfg, box, ops, obs):
    return "C5S %s %s %s %s" % (
        cfg.lit(), C.bool_lit(box),
        C.list_lit([sol_lit(sid, objs, cv) for sid, objs, cv in ops]),
        C.list_lit(["(C5O %s %s %s)" % (C.bool_lit(r), C.list_lit([C.nat_lit(x) for x in sids]), C.nat_lit(imp if box else 0))
                    for r, sids, imp in obs]))


def pair_lit(cfg, a, b, r, sb):
    return "C5P %s %s %s %s %s" % (cfg.lit(), sol_lit(0, a[0], a[1]), sol_lit(1, b[0], b[1]),
                                   C.opt_lit(r, C.z_lit), C.opt_lit(sb, C.bool_lit))


def seq_replay(cfg, box, ops, float_boxes):
    return {"kind": "seq", "cfg": cfg.to_json(), "box": bool(box), "float_boxes": bool(float_boxes), "ops": [op_json(o) for o in ops]}


def pair_replay(cfg, a, b, float_boxes):
    return {"kind": "pair", "cfg": cfg.to_json(), "float_boxes": bool(float_boxes),
            "a": [[repr(float(o)) for o in a[0]], repr(float(a[1]))], "b": [[repr(float(o)) for o in b[0]], repr(float(b[1]))]}


def report_history_failures(ctx, cfg, box, ops, float_boxes, fails, reported):
    for key, what, k in fails:
        if key in reported:
            continue
        reported.add(key)
        small = shrink_history(cfg, box, ops[:k + 1], float_boxes, key)
        msg = what
        again = [f for f in check_history(cfg, box, small, float_boxes)[1] if f[0] == key]
        if again:
            msg = again[0][1] + " [history shrunk to %d operations: %s]" % (len(small), "; ".join(describe(o) for o in small))
        ctx.violation(key, "eps=%r dirs=%r constrained=%r: %s" % (cfg.eps, cfg.dirs, cfg.con, msg), seq_replay(cfg, box, small, float_boxes))


# ----------------------------------------------------------------------------
def run(ctx):
    rng = ctx.rng
    dist = {"sequences": 0, "seq_length_hist": {}, "nobjs": {}, "eps_mode": {}, "constrained": 0, "with_maximised": 0,
            "box_archive": 0, "plain_archive": 0, "accepted": 0, "rejected": 0, "same_box_replacements": 0,
            "discarded_inexact_sequences": 0, "pairs": 0, "discarded_inexact_pairs": 0, "pair_results": {},
            "pairs_same_box": 0, "pairs_raising": 0, "non_power_of_two_eps_sequences": 0}
    reported = set()

    # ---------------- operation sequences on both archive classes (exact inputs) ----------------
    nseq = ctx.scale(700, 14000)
    seq_lits = []
    seq_meta = []
    tries = 0
    while len(seq_lits) < nseq and tries < 4 * nseq:
        tries += 1
        cfg, mode = gen_cfg(rng)
        length = rng.choice([0, 1, 2, 3]) if rng.random() < 0.1 else rng.randrange(4, 41)
        ops = gen_ops(rng, cfg, length)
        box = rng.random() < 0.6
        if not all(exact_ok(cfg, objs) for _, objs, _ in ops):
            dist["discarded_inexact_sequences"] += 1
            continue
        obs, fails = check_history(cfg, box, ops)
        ctx.count()
        report_history_failures(ctx, cfg, box, ops, False, fails, reported)
        # the other archive class must hold the same contents after the same history
        obs2, fails2 = check_history(cfg, not box, ops)
        report_history_failures(ctx, cfg, not box, ops, False, fails2, reported)
        if [(r, s) for r, s, _ in obs] != [(r, s) for r, s, _ in obs2] and "archives-differ" not in reported:
            reported.add("archives-differ")
            ctx.violation("box-archive-and-plain-archive-differ", "EpsilonBoxArchive and Archive(EpsilonDominance) hold different contents after the same history; eps=%r dirs=%r"
                          % (cfg.eps, cfg.dirs), seq_replay(cfg, box, ops, False))
        seq_lits.append(seq_lit(cfg, box, ops, obs))
        seq_meta.append((cfg, box, ops))
        dist["sequences"] += 1
        b = "%d-%d" % (10 * (length // 10), 10 * (length // 10) + 9)
        dist["seq_length_hist"][b] = dist["seq_length_hist"].get(b, 0) + 1
        dist["nobjs"][len(cfg.dirs)] = dist["nobjs"].get(len(cfg.dirs), 0) + 1
        dist["eps_mode"][mode] = dist["eps_mode"].get(mode, 0) + 1
        dist["constrained"] += cfg.con
        dist["with_maximised"] += any(cfg.dirs)
        dist["box_archive" if box else "plain_archive"] += 1
        if any(e not in EPS_POW2 for e in cfg.eps_list):
            dist["non_power_of_two_eps_sequences"] += 1
        acc = sum(1 for r, _, _ in obs if r)
        dist["accepted"] += acc
        dist["rejected"] += len(obs) - acc
        # same-box replacement = accepted while the counter of the box archive stays
        obs_box = obs if box else obs2
        repl = sum(1 for i, (r, _, imp) in enumerate(obs_box) if r and imp == (obs_box[i - 1][2] if i else 0))
        dist["same_box_replacements"] += repl
        if len(ops) >= 2 and (repl > 0 or acc < len(obs)):
            ctx.mark(repr((cfg.eps, cfg.dirs, cfg.con, box, ops)))
        if len(seq_lits) in (1, 7):
            ctx.sample({"eps": cfg.eps, "maximize": cfg.dirs, "constrained": cfg.con,
                        "archive": "EpsilonBoxArchive" if box else "Archive(EpsilonDominance)",
                        "history": [describe(o) for o in ops[:8]] + (["... %d more" % (len(ops) - 8)] if len(ops) > 8 else []),
                        "after_each_add(return, sids, improvements)": [list(o) for o in obs[:8]]})
    ctx.sample({"coq_case": seq_lits[len(seq_lits) // 2][:1500]})

    # ---------------- direct pair cases (exact inputs, plus raising configurations) ----------------
    npair = ctx.scale(2500, 40000)
    pair_lits = []
    pair_meta = []
    for t in range(npair):
        cfg, mode = gen_cfg(rng)
        r0 = rng.random()
        if r0 < 0.03:
            es = cfg.eps_list
            es[rng.randrange(len(es))] = 0.0                       # ZeroDivisionError unless an early exit comes first
            cfg = Cfg(es, cfg.dirs, cfg.con)
        elif r0 < 0.04:
            cfg = Cfg([], cfg.dirs, cfg.con)                       # IndexError
        elif r0 < 0.07:
            es = cfg.eps_list
            es[rng.randrange(len(es))] *= -1.0                     # negative epsilon: no exception, outside the theorems
            cfg = Cfg(es, cfg.dirs, cfg.con)
        ops = gen_ops(rng, cfg if cfg.eps_list and all(cfg.eps_list) else Cfg([0.5], cfg.dirs, cfg.con), 2)
        a = (ops[0][1], ops[0][2])
        b = (ops[1][1], ops[1][2])
        if not (exact_ok(cfg, a[0]) and exact_ok(cfg, b[0])):
            dist["discarded_inexact_pairs"] += 1
            continue
        r, sb, fails = check_pair(cfg, a, b)
        ctx.count()
        for key, what in fails:
            if key not in reported:
                reported.add(key)
                ctx.violation(key, what, pair_replay(cfg, a, b, False))
        pair_lits.append(pair_lit(cfg, a, b, r, sb))
        pair_meta.append((cfg, a, b))
        dist["pairs"] += 1
        dist["pair_results"][str(r)] = dist["pair_results"].get(str(r), 0) + 1
        dist["pairs_same_box"] += bool(sb)
        dist["pairs_raising"] += r is None or sb is None
        if sb or any(cfg.dirs) or (cfg.con and a[1] != b[1]) or r is None:
            ctx.mark(repr((cfg.eps, cfg.dirs, cfg.con, a, b)))
    ctx.sample({"coq_case": pair_lits[len(pair_lits) // 2]})

    # ---------------- correspondence in Coq ----------------
    imports = ["Base.Num", "Model.Epsilon", "Harness.H05"]
    bad = C.run_coq_cases(ctx, "seq", imports, "c05seq", "c05_seq_check", seq_lits, shard=50)
    if bad is not None:
        ctx.obligation("correspondence:archive_histories(%d sequences, both archive classes)" % len(seq_lits), "correspondence", not bad,
                       "model and implementation differ on sequences %r; first: %s" % (bad[:10], seq_lits[bad[0]][:1200] if bad else ""))
        ctx.coverage["correspondence_sequences"] = len(seq_lits)
        ctx.coverage["correspondence_sequence_mismatches"] = len(bad)
        for i in bad[:3]:
            cfg, box, ops = seq_meta[i]
            ctx.sample({"model_impl_disagree_sequence": seq_replay(cfg, box, ops, False)}, limit=10)
            # search the neighbourhood: prefixes and the other archive class, with the oracle
            for kk in range(1, len(ops) + 1):
                for bx in (box, not box):
                    _, fails = check_history(cfg, bx, ops[:kk])
                    report_history_failures(ctx, cfg, bx, ops[:kk], False, fails, reported)
    badp = C.run_coq_cases(ctx, "pairs", imports, "c05pair", "c05_pair_check", pair_lits, shard=400)
    if badp is not None:
        ctx.obligation("correspondence:eps_compare+same_box(%d pairs)" % len(pair_lits), "correspondence", not badp,
                       "model and implementation differ on pairs %r; first: %s" % (badp[:10], pair_lits[badp[0]] if badp else ""))
        ctx.coverage["correspondence_pairs"] = len(pair_lits)
        ctx.coverage["correspondence_pair_mismatches"] = len(badp)
        for i in badp[:5]:
            cfg, a, b = pair_meta[i]
            ctx.sample({"model_impl_disagree_pair": pair_replay(cfg, a, b, False)}, limit=10)
            # neighbourhood: swapped arguments
            for (x, y) in ((b, a),):
                _, _, fails = check_pair(cfg, x, y)
                for key, what in fails:
                    if key not in reported:
                        reported.add(key)
                        ctx.violation(key, what, pair_replay(cfg, x, y, False))

    # ---------------- oracle only: arbitrary floats, non-dyadic epsilons ----------------
    fstats = {}
    # adjacent floats on either side of a box boundary: largest float below k*eps and its successor
    nb = 0
    kmax = ctx.scale(200, 2000)
    for eps in FLOAT_EPS:
        for mx in (False, True):
            cfg = Cfg([eps], [mx], False)
            for k in range(-kmax, kmax + 1):
                ex = Fr(k) * Fr(eps)
                t = float(ex)
                lo = t if Fr(t) < ex else math.nextafter(t, -math.inf)
                hi = math.nextafter(lo, math.inf)
                for (x, y) in ((lo, hi), (hi, lo), (math.nextafter(lo, -math.inf), lo), (hi, math.nextafter(hi, math.inf))):
                    a = ([-x if mx else x], 0.0)
                    b = ([-y if mx else y], 0.0)
                    _, _, fails = check_pair(cfg, a, b, float_boxes=True)
                    nb += 1
                    for key, what in fails:
                        if key not in reported:
                            reported.add(key)
                            ctx.violation(key, what, pair_replay(cfg, a, b, True))
    ctx.count(nb)
    nfl = ctx.scale(400, 6000)
    for _ in range(nfl):
        cfg, mode = gen_cfg(rng, float_mode=True)
        ops = gen_ops(rng, cfg, rng.randrange(2, 41), float_mode=True)
        for box in (True, False):
            _, fails = check_history(cfg, box, ops, float_boxes=True, stats=fstats)
            ctx.count()
            report_history_failures(ctx, cfg, box, ops, True, fails, reported)
    npf = ctx.scale(3000, 40000)
    for _ in range(npf):
        cfg, mode = gen_cfg(rng, float_mode=True)
        ops = gen_ops(rng, cfg, 2, float_mode=True)
        a = (ops[0][1], ops[0][2])
        b = (ops[1][1], ops[1][2])
        _, _, fails = check_pair(cfg, a, b, float_boxes=True)
        ctx.count()
        for key, what in fails:
            if key not in reported:
                reported.add(key)
                ctx.violation(key, what, pair_replay(cfg, a, b, True))
    dist["float_oracle_histories"] = 2 * nfl
    dist["float_oracle_boundary_pairs"] = nb
    dist["float_oracle_random_pairs"] = npf
    dist["float_oracle_stats"] = fstats
    ctx.coverage["input_distribution"] = dist
    ctx.coverage["finding_candidates"] = {k: v for k, v in fstats.items() if k.endswith("example")}
    ctx.rule = ("operation sequences (length 0-40) of add() on EpsilonBoxArchive and Archive(EpsilonDominance): 1-4 objectives, eps from {1/8,1/4,1/2,1,2} "
                "(15%: also 3/8,3/4,3/2) given as scalar / shared / per-objective / shorter than nobjs (last reused) / longer, 35% maximised objectives, 40% constrained "
                "(violations 0, 1/4, 1/2, 1), values eps*(box + {0,1/8,1/4,1/2,3/4,7/8}) for boxes -3..2 or k/16, re-offered objects, twins, in-box neighbours; every float "
                "operation of the implementation is verified exact per solution with fractions.Fraction, inexact cases are discarded and counted; plus direct compare/same_box "
                "pairs incl. configurations that raise (eps 0, empty eps) and negative eps. A sequence is non-trivial if it has >= 2 operations and contains a rejected add or a "
                "same-box replacement (accepted without counter increment); a pair is non-trivial if it is in one box, has a maximised objective, differing violations or raises; "
                "distinct by full input. Oracle-only inputs (not counted as non-trivial): float histories/pairs with eps in {0.1,0.3,0.7,0.05,1/3,0.01} and adjacent floats across every box boundary k*eps")


def replay(ctx, data):
    rp = data.get("replay", {})
    key = data.get("key", "replay")
    if rp.get("kind") == "seq":
        cfg = Cfg.from_json(rp["cfg"])
        ops = [op_from_json(j) for j in rp["ops"]]
        _, fails = check_history(cfg, rp["box"], ops, rp.get("float_boxes", False))
        ctx.count()
        if key == "box-archive-and-plain-archive-differ":
            o1, _ = check_history(cfg, True, ops, rp.get("float_boxes", False))
            o2, _ = check_history(cfg, False, ops, rp.get("float_boxes", False))
            if [(r, s) for r, s, _ in o1] != [(r, s) for r, s, _ in o2]:
                ctx.violation(key, "replay: the two archive classes still differ", rp)
        seen = set()
        for k2, what, _ in fails:
            if k2 not in seen:
                seen.add(k2)
                ctx.violation(k2, "replay: " + what, rp)
    elif rp.get("kind") == "pair":
        cfg = Cfg.from_json(rp["cfg"])
        a = ([float(x) for x in rp["a"][0]], float(rp["a"][1]))
        b = ([float(x) for x in rp["b"][0]], float(rp["b"][1]))
        _, _, fails = check_pair(cfg, a, b, rp.get("float_boxes", False))
        ctx.count()
        seen = set()
        for k2, what in fails:
            if k2 not in seen:
                seen.add(k2)
                ctx.violation(k2, "replay: " + what, rp)
    else:
        run(ctx)
