"""C16 — GD, IGD, additive epsilon and spacing equal their textbook definitions."""
import itertools
import math
from fractions import Fraction

from vlib import common as C
from vlib import plat

ID = "C16"
PROPS_FILE = "Props/C16.v"
COQ_TARGETS = ["Harness/H16.vo"]
ALLOWED_AXIOMS = []
# second tie (translator): coq/Gen/Core.v is regenerated from the source text of C.REPO on every run and
# coq/Tie/T16.v proves generated definition = hand model (harness/translate/py2coq_core.py)
EXTRA_PROPS = ["Tie/T16.v"]


def prebuild(ctx):
    import os
    import sys
    sys.path.insert(0, os.path.join(C.VERIF, "harness", "translate"))
    import py2coq_core
    py2coq_core.prebuild(ctx, C, ["manhattan_dist", "euclidean_dist"])


META = {
    "level_text": "Machine-checked proof (Coq, exact rational arithmetic) about a literal model of core.normalize (writing normalized_objectives onto the solution objects: "
                  "a store keyed by object identity; the reference set is normalised in the constructor and again at the start of every calculate), distance_to_nearest / euclidean / manhattan distances and "
                  "the calculate methods of EpsilonIndicator, GenerationalDistance, InvertedGenerationalDistance and Spacing: the model values unfold to the textbook formulas "
                  "(eps = max_r min_s max_k +-(s_k - r_k) in the declared direction; the exact ingredients of GD/IGD = the squared nearest-neighbour distances and the divisor; "
                  "spacing^2 = sum (d_i - mean)^2/(n-1) with d_i the smallest L1 distance to another listed object); they are 0 on the reference set itself, "
                  "GD/IGD/spacing ingredients are non-negative, eps never decreases when members get worse in their declared directions, GD/IGD/eps are +inf "
                  "without a feasible member, nothing depends on the order of the solutions, and calculate gives the textbook value from EVERY prior content of the objects' normalized_objectives attributes "
                  "(no dependence on other indicators that touched the shared Solution objects earlier; the pre-repair variant is refuted by an Example). The model is tied to /repo on every run by a correspondence on dyadic grids "
                  "(eps, every squared Euclidean and every L1 distance compared exactly; the final sqrt/pow value through an exact algebraic relation with tolerance 2^-40) and an "
                  "independent textbook oracle on the real classes, including histories in which other indicators (Hypervolume on the reference set, indicators with other bounds "
                  "sharing objects) run between construction and calculate.",
    "level_note": "Trusted: Coq kernel + VM; the harness (literal printer, shard runner, the logging wrappers around math.sqrt in platypus.distance, distance_to_nearest and "
                  "manhattan_dist); the hand-written model is tied to the code only on the sampled inputs (1-5 objectives, all direction vectors, reference sets of 1-6 and sets of "
                  "0-7 solutions). sqrt and pow are NOT modelled: GD/IGD/spacing theorems are stated on the exact rational ingredients (value^2 * n^2 = sum of squared nearest "
                  "distances for d=2, value * n = sum of nearest distances for d=1, spacing^2 = ...), and the only tolerance of the framework (2^-40 relative) is used to tie the "
                  "implementation's final float to them; powers d other than 1 and 2 are exercised by the oracle only (1e-9). Float rounding off the dyadic grid is not covered. "
                  "Theorems assume well-formed inputs (vectors as long as the problem's nobjs; equal sid = same object) and a reference set the constructor accepts "
                  "(non-degenerate ranges). Spacing uses raw objectives and object identity, exactly as the code does; a set consisting of one object listed several times raises "
                  "ValueError in the code and is an error in the model (outside the statement). No axioms (all theorems closed under the global context).",
    "technique": "Coq proof over exact Q about a literal model with an explicit object store + exact correspondence of every intermediate distance (vm_compute) + textbook oracle",
}

ERRMAP = {"PlatypusError": "EEmptyRange", "ValueError": "EValueEmpty", "TypeError": "ENoneUnpack",
          "IndexError": "EIndex", "AttributeError": "EAttr"}
INF = math.inf


# ----------------------------------------------------------------------------
# building objects, running the real classes with logging wrappers
# ----------------------------------------------------------------------------
def build(nobjs, dirs, ref, st):
    p = plat.mk_problem(nobjs, dirs, nconstrs=1)
    objs = {}

    def get(m):
        sid, o, cv = m
        if sid not in objs:
            objs[sid] = plat.mk_solution(p, o, cv)
        return objs[sid]
    return p, [get(m) for m in ref], [get(m) for m in st]


class MathProxy:
    """stands in for the `math` module inside platypus.distance: logs the argument of every sqrt"""

    def __init__(self, log):
        self._log = log

    def sqrt(self, x):
        self._log.append(x)
        return math.sqrt(x)

    def __getattr__(self, name):
        return getattr(math, name)


class Logging:
    """logs (from outside) the squared distances handed to math.sqrt per distance_to_nearest call, the values
    distance_to_nearest returns, and every manhattan_dist value computed by Spacing"""

    def __enter__(self):
        import platypus.distance as D
        import platypus.indicators as I
        self.D, self.I = D, I
        self.rows, self.rvals, self.l1 = [], [], []
        self.cur = []
        self.saved = (D.math, I.distance_to_nearest, I.manhattan_dist)
        orig_dtn, orig_l1 = I.distance_to_nearest, I.manhattan_dist
        D.math = MathProxy(self.cur)

        def dtn(solution, st):
            del self.cur[:]
            r = orig_dtn(solution, st)
            self.rows.append(list(self.cur))
            self.rvals.append(r)
            return r

        def l1(x, y):
            r = orig_l1(x, y)
            self.l1.append(r)
            return r
        I.distance_to_nearest = dtn
        I.manhattan_dist = l1
        return self

    def __exit__(self, *a):
        self.D.math, self.I.distance_to_nearest, self.I.manhattan_dist = self.saved
        return False


def run_indicator(kind, nobjs, dirs, ref, st, d=None, log=False):
    """kind in eps/gd/igd/spacing -> ('ok', value, logs) | ('err', name, text)"""
    from platypus import EpsilonIndicator, GenerationalDistance, InvertedGenerationalDistance, Spacing
    try:
        p, robjs, sobjs = build(nobjs, dirs, ref, st)
        lg = None
        if log:
            with Logging() as lg:
                v = _call(kind, robjs, sobjs, d, EpsilonIndicator, GenerationalDistance, InvertedGenerationalDistance, Spacing)
        else:
            v = _call(kind, robjs, sobjs, d, EpsilonIndicator, GenerationalDistance, InvertedGenerationalDistance, Spacing)
        return ("ok", v, lg)
    except Exception as e:  # noqa
        return ("err", ERRMAP.get(type(e).__name__, "other:" + type(e).__name__), "%s: %s" % (type(e).__name__, e))


def _call(kind, robjs, sobjs, d, E, G, IG, S):
    if kind == "eps":
        return E(robjs).calculate(sobjs)
    if kind == "gd":
        return (G(robjs) if d is None else G(robjs, d=d)).calculate(sobjs)
    if kind == "igd":
        return (IG(robjs) if d is None else IG(robjs, d=d)).calculate(sobjs)
    return S().calculate(sobjs)


# ----------------------------------------------------------------------------
# textbook oracle (independent of the model), exact on Fractions where possible
# ----------------------------------------------------------------------------
def ref_bounds(nobjs, ref):
    feas = [m for m in ref if m[2] == 0.0]
    if not feas:
        return None
    lo = [min(Fraction(m[1][i]) for m in feas) for i in range(nobjs)]
    hi = [max(Fraction(m[1][i]) for m in feas) for i in range(nobjs)]
    if any(abs(h - l) < Fraction(2) ** -52 for l, h in zip(lo, hi)):
        return None
    return lo, hi


def nrm(o, b):
    return [(Fraction(x) - l) / (h - l) for x, l, h in zip(o, b[0], b[1])]


def tb_eps(nobjs, dirs, ref, st):
    """additive epsilon: the smallest eps such that every reference point is weakly dominated by some member shifted by eps"""
    b = ref_bounds(nobjs, ref)
    R = [nrm(m[1], b) for m in ref if m[2] == 0.0]
    S = [nrm(m[1], b) for m in st if m[2] == 0.0]
    if not S:
        return INF
    return max(min(max((r[k] - s[k]) if dirs[k] else (s[k] - r[k]) for k in range(nobjs)) for s in S) for r in R)


def tb_nearest_sq(x, Y):
    return min(sum((a - c) ** 2 for a, c in zip(x, y)) for y in Y)


def tb_gd(nobjs, ref, st, d, inverted):
    b = ref_bounds(nobjs, ref)
    R = [nrm(m[1], b) for m in ref if m[2] == 0.0]
    S = [nrm(m[1], b) for m in st if m[2] == 0.0]
    if not S:
        return INF
    A, B = (R, S) if inverted else (S, R)
    ds = [math.sqrt(tb_nearest_sq(x, B)) for x in A]
    return sum(x ** d for x in ds) ** (1.0 / d) / len(A)


def tb_spacing(st):
    S = [(m[0], [Fraction(x) for x in m[1]]) for m in st if m[2] == 0.0]
    if len(S) < 2:
        return 0.0
    ds = []
    for i, (sid, x) in enumerate(S):
        others = [sum(abs(a - c) for a, c in zip(x, y)) for (sj, y) in S if sj != sid]
        if not others:
            return None      # one object listed several times: not defined
        ds.append(min(others))
    mean = sum(ds) / len(ds)
    return math.sqrt(sum((x - mean) ** 2 for x in ds) / (len(ds) - 1))


def dyadic_ok(vals, fbits=12, mag=1024):
    for v in vals:
        d = Fraction(v).denominator
        if d & (d - 1) or d > (1 << fbits) or abs(v) > mag:
            return False
    return True


def fexact(fr):
    try:
        return Fraction(float(fr)) == fr
    except OverflowError:
        return False


def exact_case(nobjs, dirs, ref, st, raw=False):
    """every float operation of normalize / eps / squared distances / L1 distances is exact on this case, decided on
    Fractions alone (independently of the implementation): o - min, max - min and the quotient are binary64 numbers, and all
    (normalised) coordinates are dyadic with <= 12 fractional bits and magnitude <= 2^10, so differences, squares, sums of
    <= 5 squares and L1 sums need < 53 bits"""
    if raw:
        return dyadic_ok([Fraction(x) for m in st for x in m[1]])
    b = ref_bounds(nobjs, ref)
    if b is None:
        return True
    allv = []
    for m in [r for r in ref if r[2] == 0.0] + [s for s in st if s[2] == 0.0]:
        for x, lo, hi in zip(m[1], b[0], b[1]):
            a, w = Fraction(x) - lo, hi - lo
            z = a / w
            if not (fexact(a) and fexact(w) and fexact(z)):
                return False
            allv.append(z)
    return dyadic_ok(allv)


# ----------------------------------------------------------------------------
# literals
# ----------------------------------------------------------------------------
def sol_lit(m):
    return "(ISol %s %s %s)" % (C.nat_lit(m[0]), C.list_lit([C.q_lit(x) for x in m[1]]), C.q_lit(m[2]))


def xval_lit(v):
    return "XInf" if v == INF else "(XFin %s)" % C.q_lit(v)


def res_lit(res, f):
    return "(Ok %s)" % f(res[1]) if res[0] == "ok" else "(Err %s)" % res[1]


def show(nobjs, dirs, ref, st, **kw):
    d = {"nobjs": nobjs, "maximize": list(dirs), "reference_set(sid,objectives,violation)": [list(m) for m in ref],
         "set(sid,objectives,violation)": [list(m) for m in st]}
    d.update(kw)
    return d


def to_json(nobjs, dirs, ref, st):
    def mem(m):
        return [m[0], [float(x).hex() for x in m[1]], float(m[2]).hex()]
    return {"nobjs": nobjs, "dirs": [bool(x) for x in dirs], "ref": [mem(m) for m in ref], "set": [mem(m) for m in st]}


def from_json(j):
    def mem(m):
        return (m[0], [float.fromhex(x) for x in m[1]], float.fromhex(m[2]))
    return j["nobjs"], list(j["dirs"]), [mem(m) for m in j["ref"]], [mem(m) for m in j["set"]]


# ----------------------------------------------------------------------------
# the clauses of the property on the real classes
# ----------------------------------------------------------------------------
def rel_close(a, b, tol):
    if a == b:
        return True
    if a in (INF, -INF) or b in (INF, -INF):
        return False
    return abs(a - b) <= tol * max(1.0, abs(a), abs(b))


def check_clauses(ctx, nobjs, dirs, ref, st, rng, exact, tag):
    """textbook value, zero on the reference set, non-negativity, eps monotone, +inf without feasible members, order independence"""
    tol = 1e-9
    b = ref_bounds(nobjs, ref)
    rp = {"kind": "case", "case": to_json(nobjs, dirs, ref, st), "exact": exact}

    def viol(key, what):
        ctx.violation(key, "%s %s; %r" % (tag, what, show(nobjs, dirs, ref, st)), rp)

    def value(kind, r, s, d=None):
        res = run_indicator(kind, nobjs, dirs, r, s, d)
        ctx.count()
        return res
    if b is None:
        return
    feas = [m for m in st if m[2] == 0.0]
    # --- epsilon
    e = value("eps", ref, st)
    if e[0] == "err":
        viol("eps:raises", "EpsilonIndicator raised %s" % e[2])
    else:
        want = tb_eps(nobjs, dirs, ref, st)
        if (exact and (e[1] != want if want != INF else e[1] != INF)) or (not exact and not rel_close(e[1], float(want), tol)):
            viol("eps:differs-from-definition", "EpsilonIndicator = %r, definition max_r min_s max_k gives %s" % (e[1], want))
        if not feas and e[1] != INF:
            viol("eps:no-feasible-member-not-inf", "EpsilonIndicator = %r without a feasible member" % e[1])
        if feas:
            # make some members worse in their declared directions
            worse = []
            for m in st:
                o = list(m[1])
                for k in range(nobjs):
                    if rng.random() < 0.5:
                        step = rng.choice([0.125, 0.25, 0.5, 1.0]) if exact else rng.uniform(0, 1)
                        o[k] = o[k] - step if dirs[k] else o[k] + step
                worse.append((m[0], o, m[2]))
            seen = {}
            worse = [seen.setdefault(m[0], m) for m in worse]          # one object = one vector
            e2 = value("eps", ref, worse)
            if e2[0] == "ok" and e2[1] < e[1] - (0 if exact else tol):
                ctx.violation("eps:decreases-when-members-get-worse",
                              "%s EpsilonIndicator %r -> %r after making members worse: %r; %r" % (tag, e[1], e2[1], worse, show(nobjs, dirs, ref, st)),
                              dict(rp, worse=to_json(nobjs, dirs, ref, worse)["set"]))
        if len(st) >= 2 or len(ref) >= 2:
            s2, r2 = st[:], ref[:]
            rng.shuffle(s2)
            rng.shuffle(r2)
            e3 = value("eps", r2, s2)
            if e3[0] == "ok" and e3[1] != e[1] and (exact or not rel_close(e3[1], e[1], 1e-12)):
                viol("eps:order-dependent", "EpsilonIndicator %r -> %r after reordering" % (e[1], e3[1]))
    e0 = value("eps", ref, ref)
    if e0[0] == "ok" and e0[1] != 0.0:
        viol("eps:reference-set-not-zero", "EpsilonIndicator(reference set) = %r" % e0[1])
    # --- GD / IGD
    for kind, inverted in (("gd", False), ("igd", True)):
        for d in (None, 1.0, 2.0, 3.0):
            g = value(kind, ref, st, d)
            dd = d if d is not None else (1.0 if inverted else 2.0)
            name = kind.upper() if kind == "igd" else kind
            if g[0] == "err":
                viol("%s:no-feasible-member" % name if not feas else "%s:raises" % kind, "%s(d=%r) raised %s" % (kind, d, g[2]))
                continue
            want = tb_gd(nobjs, ref, st, dd, inverted)
            if not rel_close(g[1], want, tol):
                viol("%s:differs-from-definition" % kind, "%s(d=%r) = %r, textbook (sum d_i^p)^(1/p)/n = %r" % (kind, d, g[1], want))
            if not feas and g[1] != INF:
                viol("%s:no-feasible-member-not-inf" % kind, "%s = %r without a feasible member" % (kind, g[1]))
            if g[1] < 0:
                viol("%s:negative" % kind, "%s = %r" % (kind, g[1]))
            if d is None:
                g0 = value(kind, ref, ref)
                if g0[0] == "ok" and g0[1] != 0.0:
                    viol("%s:reference-set-not-zero" % kind, "%s(reference set) = %r" % (kind, g0[1]))
                s2, r2 = st[:], ref[:]
                rng.shuffle(s2)
                rng.shuffle(r2)
                g3 = value(kind, r2, s2)
                if g3[0] == "ok" and not rel_close(g3[1], g[1], 1e-12):
                    viol("%s:order-dependent" % kind, "%s %r -> %r after reordering" % (kind, g[1], g3[1]))
    acts = [a for a in ACTIONS if (nobjs >= 2 or not a.startswith("hv"))]
    rng.shuffle(acts)
    check_history(ctx, nobjs, dirs, ref, st, acts[:rng.randrange(1, len(acts) + 1)], tag)
    check_reuse(ctx, nobjs, dirs, ref, st, rng, tag)
    check_spacing(ctx, nobjs, dirs, st, rng, tag)


def deep_state(sols):
    return [(id(s), list(s.objectives), list(s.constraints), list(s.variables), s.constraint_violation, s.feasible, s.evaluated) for s in sols]


def check_reuse(ctx, nobjs, dirs, ref, st, rng, tag):
    """the SAME indicator objects and the SAME Solution objects used repeatedly: same set twice, another set in between,
    directions re-declared in place on the same Problem; values must equal those of fresh objects, solutions must stay untouched"""
    from platypus import EpsilonIndicator, GenerationalDistance, InvertedGenerationalDistance, Spacing, Direction
    if ref_bounds(nobjs, ref) is None:
        return
    rp = {"kind": "reuse", "case": to_json(nobjs, dirs, ref, st)}

    def viol(key, what):
        ctx.violation(key, "%s %s; %r" % (tag, what, show(nobjs, dirs, ref, st)), rp)
    try:
        p, robjs, sobjs = build(nobjs, dirs, ref, st)
        everyone = list({id(s): s for s in robjs + sobjs}.values())
        before = deep_state(everyone)
        inds = [("gd", GenerationalDistance(robjs)), ("igd", InvertedGenerationalDistance(robjs)), ("eps", EpsilonIndicator(robjs)), ("spacing", Spacing())]

        def values(objs):
            out = []
            for name, ind in inds:
                try:
                    out.append(ind.calculate(objs))
                except ValueError:
                    out.append("ValueError")
            return out
        v1 = values(sobjs)
        if deep_state(everyone) != before:
            viol("indicator:calculate-modifies-solutions", "calculate changed objectives/constraints/variables of its arguments: %r -> %r" % (
                [b[1] for b in before], [b[1] for b in deep_state(everyone)]))
            return
        fresh = []
        for name, _ in inds:
            r = run_indicator(name, nobjs, dirs, ref if name != "spacing" else [], st)
            fresh.append(r[1] if r[0] == "ok" else "ValueError")
        if v1 != fresh:
            viol("indicator:changes-on-re-evaluation", "[gd, igd, eps, spacing] on one shared set of objects %r, on fresh objects per indicator %r" % (v1, fresh))
        # another set (members of the same objects) in between, then the first set again
        idx = [i for i in range(len(st)) if rng.random() < 0.6]
        rng.shuffle(idx)
        values([sobjs[i] for i in idx] + robjs[:1])
        v2 = values(sobjs)
        if v2 != v1:
            viol("indicator:changes-on-re-evaluation", "the same indicator objects on the same set: %r first, %r after measuring another set" % (v1, v2))
        # directions re-declared in place on the same Problem
        dirs2 = [rng.random() < 0.5 for _ in dirs]
        if dirs2 == list(dirs):
            dirs2[rng.randrange(len(dirs2))] ^= True
        p.directions[:] = [Direction.MAXIMIZE if d else Direction.MINIMIZE for d in dirs2]
        v3 = values(sobjs)
        e2 = run_indicator("eps", nobjs, dirs2, ref, st)
        want = [v1[0], v1[1], e2[1] if e2[0] == "ok" else None, v1[3]]
        if v3 != want:
            viol("indicator:value-depends-on-earlier-indicator-calls",
                 "after problem.directions[:] = %r (was %r) the same indicator objects return [gd, igd, eps, spacing] = %r, fresh objects %r" % (dirs2, list(dirs), v3, want))
        if deep_state(everyone) != before:
            viol("indicator:calculate-modifies-solutions", "after repeated calls the solutions differ from their initial state")
        ctx.count(4 * 4 + 5)
        HIST["reuse"] = HIST.get("reuse", 0) + 1
    except Exception as e:  # noqa
        viol("indicator:raises-in-history", "repeated use raised %s: %s" % (type(e).__name__, e))


def check_spacing(ctx, nobjs, dirs, st, rng, tag):
    rp = {"kind": "spacing", "case": to_json(nobjs, dirs, [], st)}
    want = tb_spacing(st)
    if want is None:
        return
    s = run_indicator("spacing", nobjs, dirs, [], st)
    ctx.count()
    if s[0] == "err":
        ctx.violation("spacing:raises", "%s Spacing raised %s on %r" % (tag, s[2], st), rp)
        return
    if not rel_close(s[1], want, 1e-9):
        ctx.violation("spacing:differs-from-definition", "%s Spacing = %r, textbook sqrt(sum (d_i - mean)^2/(n-1)) = %r on %r" % (tag, s[1], want, st), rp)
    if s[1] < 0:
        ctx.violation("spacing:negative", "%s Spacing = %r on %r" % (tag, s[1], st), rp)
    s2 = st[:]
    rng.shuffle(s2)
    s3 = run_indicator("spacing", nobjs, dirs, [], s2)
    ctx.count()
    if s3[0] == "ok" and not rel_close(s3[1], s[1], 1e-12):
        ctx.violation("spacing:order-dependent", "%s Spacing %r -> %r after reordering %r" % (tag, s[1], s3[1], st), rp)


# ----------------------------------------------------------------------------
# generators
# ----------------------------------------------------------------------------
BOUNDS = [(0.0, 1.0), (0.0, 2.0), (-1.0, 1.0), (0.0, 4.0), (1.0, 2.0), (-2.0, 2.0), (0.0, 0.5)]
FR = (-0.5, -0.25, 0.0, 0.125, 0.25, 0.375, 0.5, 0.625, 0.75, 0.875, 1.0, 1.25, 1.5)


def gen_grid_case(rng, nobjs, dirs):
    bnd = [rng.choice(BOUNDS) for _ in range(nobjs)]
    pools_in, pools_all = [], []
    for lo, hi in bnd:
        w = hi - lo
        allv = [lo + w * f for f in FR]
        k = rng.choice([2, 3, 4, 6])
        ins = rng.sample([v for v in allv if lo <= v <= hi], k)
        pools_in.append(ins)
        pools_all.append(ins + rng.sample(allv, 3))
    # reference set: two opposite corners fix the bounds; more members inside
    flip = [rng.random() < 0.5 for _ in range(nobjs)]
    ref = [(100, [b[1] if f else b[0] for b, f in zip(bnd, flip)], 0.0),
           (101, [b[0] if f else b[1] for b, f in zip(bnd, flip)], 0.0)]
    for i in range(rng.randrange(0, 5)):
        ref.append((102 + i, [rng.choice(pools_in[k]) for k in range(nobjs)], 0.0 if rng.random() < 0.8 else 0.5))
    if rng.random() < 0.15:
        ref.append((110, [b[1] + 1.0 for b in bnd], 1.0))            # infeasible and outside: must not move the bounds
    if rng.random() < 0.08:
        ref = [r for r in ref if rng.random() < 0.6]                 # degenerate / empty / non power-of-two ranges
    rng.shuffle(ref)
    n = rng.choice([0, 1, 1, 2, 2, 3, 3, 4, 5, 6, 7])
    st, sid = [], 0
    for _ in range(n):
        r = rng.random()
        if st and r < 0.1:
            st.append(rng.choice(st))                                # the same object again
        elif st and r < 0.2:
            m = rng.choice(st)
            st.append((sid, list(m[1]), m[2]))                       # duplicate
            sid += 1
        elif ref and r < 0.3:
            st.append(rng.choice(ref))                               # a reference object listed in the set
        else:
            pools = pools_all if rng.random() < 0.5 else pools_in
            st.append((sid, [rng.choice(pools[k]) for k in range(nobjs)], 0.0 if rng.random() < 0.85 else rng.choice([0.5, 2.0 ** -60])))
            sid += 1
    if rng.random() < 0.06:
        st = [(m[0], m[1], 1.0) for m in st if m[0] < 100]           # no feasible member (objects keep one identity = one set of fields)
    return nobjs, list(dirs), ref, st


def gen_float_case(rng, nobjs, dirs):
    big = rng.random() < 0.35       # huge common magnitude, small spread: (o - min)/(max - min) is accurate there, o*scale - min*scale is not
    bnd = []
    for _ in range(nobjs):
        if big:
            lo = rng.choice([1e15, -2e15, 3e15, 4e12, -4e12, 2.0 ** 50, -2.0 ** 45, 7e13])
            bnd.append((lo, lo + rng.choice([3.0, 6.0, 5.0, 1.0, 7.0, 12.0])))
        else:
            lo = rng.uniform(-3, 3)
            bnd.append((lo, lo + rng.uniform(0.1, 5)))

    def val(lo, hi, out=0.0):
        if big and rng.random() < 0.7:
            return lo + rng.randrange(int(-out * 4), int((hi - lo) * 4) + 1 + int(out * 4)) / 4.0
        return rng.uniform(lo - out * (hi - lo), hi + out * (hi - lo))
    ref = [(100 + i, [val(lo, hi) for lo, hi in bnd], 0.0 if rng.random() < 0.9 else 1.0) for i in range(rng.randrange(2, 7))]
    if big:
        ref += [(110, [b[0] for b in bnd], 0.0), (111, [b[1] for b in bnd], 0.0)]
    st = [(i, [val(lo, hi, 0.3) for lo, hi in bnd], 0.0 if rng.random() < 0.9 else 0.5) for i in range(rng.randrange(0, 7))]
    if st and rng.random() < 0.3:
        st.append(st[0])
    return nobjs, list(dirs), ref, st


# "large offset" family: every objective o replaced by m*o + O with a huge common offset O (or 0) and m in {1,3,5,6,7}, so the ranges are
# 2^j, 3*2^j, 5*2^j, ... and the normalised values stay the same dyadics.
# The unchanged normalisation (o - min) / (max - min) is EXACT on these inputs (o - min is exact, the division by a power of
# two is exact) although |o| / range is ~1e12..1e15; an algebraically equivalent o*scale - min*scale is not.
OFFSETS = [2.0 ** 40, -2.0 ** 40, 2.0 ** 45, -2.0 ** 45, 2.0 ** 50, -2.0 ** 50, float(round(1e15)), -float(round(1e15)), 4e12, -4e12]


MULTS = [1.0, 1.0, 3.0, 5.0, 6.0, 7.0]        # ranges 3*2^j, 5*2^j, ...: the division is exact whenever the quotient is dyadic


def _shift_vec(v, off):
    """m*v + off coordinate-wise (off = list of (offset, multiplier)), or None if some result is not a binary64 number"""
    out = []
    for x, (o, m) in zip(v, off):
        y = m * x + o
        if Fraction(y) != Fraction(m) * Fraction(x) + Fraction(o):
            return None
        out.append(y)
    return out


def _shift_members(ms, off):
    out = []
    for sid, o, cv in ms:
        v = _shift_vec(o, off)
        if v is None:
            return None
        out.append((sid, v, cv))
    return out


def shift_case(case, rng):
    nobjs, dirs, ref, st = case
    for attempt in range(6):
        off = [(rng.choice((OFFSETS + [0.0, 0.0]) if attempt < 4 else OFFSETS[:2]), rng.choice(MULTS)) for _ in range(nobjs)]
        r2, s2 = _shift_members(ref, off), _shift_members(st, off)
        if r2 is not None and s2 is not None:
            return nobjs, list(dirs), r2, s2
    return None


FIXED = [
    # DESIGN.md section 7 #5: maximised objectives (max-form of a minimised case must give the same value)
    (2, [True, True], [(100, [0.0, 1.0], 0.0), (101, [1.0, 0.0], 0.0)], [(0, [0.5, 0.0], 0.0), (1, [0.0, 0.5], 0.0)]),
    (2, [False, False], [(100, [0.0, 1.0], 0.0), (101, [1.0, 0.0], 0.0)], [(0, [0.5, 1.0], 0.0), (1, [1.0, 0.5], 0.0)]),
    (2, [False, True], [(100, [0.0, 0.0], 0.0), (101, [1.0, 1.0], 0.0)], [(0, [0.25, 0.25], 0.0)]),
    # no feasible member, empty set
    (2, [False, False], [(100, [0.0, 1.0], 0.0), (101, [1.0, 0.0], 0.0)], [(0, [0.5, 0.5], 1.0)]),
    (2, [False, False], [(100, [0.0, 1.0], 0.0), (101, [1.0, 0.0], 0.0)], []),
    # rejected reference sets
    (2, [False, False], [], [(0, [0.5, 0.5], 0.0)]),
    (2, [False, False], [(100, [0.0, 1.0], 1.0)], [(0, [0.5, 0.5], 0.0)]),
    (2, [False, False], [(100, [0.0, 1.0], 0.0), (101, [0.0, 0.0], 0.0)], [(0, [0.5, 0.5], 0.0)]),
    # the reference set itself, as the same objects
    (3, [False, True, False], [(100, [0.0, 1.0, 0.0], 0.0), (101, [1.0, 0.0, 2.0], 0.0), (102, [0.5, 0.5, 1.0], 0.0)],
     [(100, [0.0, 1.0, 0.0], 0.0), (101, [1.0, 0.0, 2.0], 0.0), (102, [0.5, 0.5, 1.0], 0.0)]),
    # one objective
    (1, [False], [(100, [0.0], 0.0), (101, [2.0], 0.0)], [(0, [0.5], 0.0), (1, [3.0], 0.0)]),
    (1, [True], [(100, [0.0], 0.0), (101, [2.0], 0.0)], [(0, [0.5], 0.0), (1, [3.0], 0.0)]),
]



# ----------------------------------------------------------------------------
# history independence: other indicators touching the same Solution objects between construction and calculate
# ----------------------------------------------------------------------------
ACTIONS = ["hv_on_reference_set", "second_indicator_other_bounds_sharing_reference_object", "hv_other_bounds_on_everything",
           "calculate_on_set_sharing_reference_objects", "second_indicator_built_from_the_approximation_set"]
HIST = {"sequences": 0}


def history_values(nobjs, dirs, ref, st, actions):
    """build GD/IGD/eps on the reference set, then alternate `actions` with calls of calculate(set);
    returns the list of [gd, igd, eps] after construction and after every action"""
    from platypus import GenerationalDistance, InvertedGenerationalDistance, EpsilonIndicator, Hypervolume
    p, robjs, sobjs = build(nobjs, dirs, ref, st)
    gd, igd, eps = GenerationalDistance(robjs), InvertedGenerationalDistance(robjs), EpsilonIndicator(robjs)
    rf = [r for r in robjs if r.constraint_violation == 0.0]
    lo = [min(r.objectives[i] for r in rf) for i in range(nobjs)]
    hi = [max(r.objectives[i] for r in rf) for i in range(nobjs)]
    out = [[gd.calculate(sobjs), igd.calculate(sobjs), eps.calculate(sobjs)]]
    for a in actions:
        if a == "hv_on_reference_set":
            Hypervolume(reference_set=robjs).calculate(robjs)
        elif a == "second_indicator_other_bounds_sharing_reference_object":
            far = plat.mk_solution(p, [x + 7.0 for x in rf[0].objectives])
            GenerationalDistance([rf[0], far]).calculate([rf[-1]])
        elif a == "hv_other_bounds_on_everything":
            Hypervolume(minimum=[x - 1.0 for x in lo], maximum=[x + 3.0 for x in hi]).calculate(robjs + sobjs)
        elif a == "calculate_on_set_sharing_reference_objects":
            InvertedGenerationalDistance(robjs, d=2.0).calculate(rf[:1] + sobjs)
            EpsilonIndicator(robjs).calculate(sobjs + rf[-1:])
        elif a == "second_indicator_built_from_the_approximation_set":
            fs = [s for s in sobjs if s.constraint_violation == 0.0]
            if fs:
                far = plat.mk_solution(p, [x - 5.0 for x in fs[0].objectives])
                EpsilonIndicator([fs[0], far, rf[0]]).calculate(rf)
        out.append([gd.calculate(sobjs), igd.calculate(sobjs), eps.calculate(sobjs)])
    return out


def check_history(ctx, nobjs, dirs, ref, st, actions, tag):
    """GD/IGD/eps of the same indicator objects and the same set must not change when other indicators run in between"""
    try:
        vals = history_values(nobjs, dirs, ref, st, actions)
    except Exception as e:  # noqa
        ctx.violation("indicator:raises-in-history", "%s %s: %s in history %r on %r" % (tag, type(e).__name__, e, actions, show(nobjs, dirs, ref, st)),
                      {"kind": "history", "case": to_json(nobjs, dirs, ref, st), "actions": actions})
        return
    ctx.count(3 * len(vals))
    HIST["sequences"] += 1
    for k, v in enumerate(vals[1:]):
        if v != vals[0]:
            ctx.violation("indicator:value-depends-on-earlier-indicator-calls",
                          "%s [gd, igd, eps] = %r right after construction but %r after the other-indicator calls %r; %r" % (
                              tag, vals[0], v, actions[:k + 1], show(nobjs, dirs, ref, st)),
                          {"kind": "history", "case": to_json(nobjs, dirs, ref, st), "actions": actions})
            return


LARGE = {"n": 0}


def run(ctx):
    rng = ctx.rng
    LARGE["n"] = 0
    HIST["sequences"] = 0
    HIST["reuse"] = 0
    cases = [(n, list(d), list(r), list(s)) for n, d, r, s in FIXED]
    per = ctx.scale(14, 80)
    for nobjs in (1, 2, 3, 4, 5):
        alld = list(itertools.product([False, True], repeat=nobjs))
        for dirs in alld:
            k = max(2, per * 4 // len(alld)) if nobjs >= 3 else per * (2 if nobjs == 2 else 3)
            for _ in range(k):
                cases.append(gen_grid_case(rng, nobjs, dirs))
                if rng.random() < 0.3:
                    sc = shift_case(cases[-1], rng)
                    if sc is not None:
                        cases.append(sc)
                        LARGE["n"] += 1
    dist = {"n_objs": {}, "ref_size": {}, "set_size": {}, "direction_vectors": set(), "no_feasible_member": 0, "with_infeasible": 0,
            "with_repeated_object": 0, "with_reference_object_in_set": 0, "outside_reference_bounds": 0, "rejected_reference_set": 0}
    eps_l, gd_l, sp_l = [], [], []
    eps_c, gd_c, sp_c = [], [], []
    inexact = 0
    for (nobjs, dirs, ref, st) in cases:
        if not exact_case(nobjs, dirs, ref, st):
            inexact += 1
            continue
        b = ref_bounds(nobjs, ref)
        feas = [m for m in st if m[2] == 0.0]
        dist["n_objs"][nobjs] = dist["n_objs"].get(nobjs, 0) + 1
        dist["ref_size"][len(ref)] = dist["ref_size"].get(len(ref), 0) + 1
        dist["set_size"][len(st)] = dist["set_size"].get(len(st), 0) + 1
        dist["direction_vectors"].add(tuple(dirs))
        dist["no_feasible_member"] += not feas
        dist["with_infeasible"] += len(feas) < len(st)
        dist["with_repeated_object"] += len({m[0] for m in st}) < len(st)
        dist["with_reference_object_in_set"] += any(m[0] >= 100 for m in st)
        dist["rejected_reference_set"] += b is None
        outside = False
        if b is not None:
            outside = any(not (0 <= z <= 1) for m in feas for z in nrm(m[1], b))
            dist["outside_reference_bounds"] += outside
        # --- correspondence runs (with logging) ---
        e = run_indicator("eps", nobjs, dirs, ref, st)
        ctx.count()
        if e[0] == "err" and e[1].startswith("other:"):
            ctx.violation("eps:raises", "EpsilonIndicator raised %s on %r" % (e[2], show(nobjs, dirs, ref, st)), {"kind": "case", "case": to_json(nobjs, dirs, ref, st), "exact": True})
        else:
            eps_l.append("K16E %s %s %s %s %s" % (C.nat_lit(nobjs), C.list_lit([C.bool_lit(x) for x in dirs]), C.list_lit([sol_lit(m) for m in ref]),
                                                   C.list_lit([sol_lit(m) for m in st]), res_lit(e, xval_lit)))
            eps_c.append((nobjs, dirs, ref, st))
        for kind in ("gd", "igd"):
            for d in ((None, 1.0) if kind == "gd" else (None, 2.0)):
                g = run_indicator(kind, nobjs, dirs, ref, st, d, log=True)
                ctx.count()
                pw = int(d) if d is not None else (2 if kind == "gd" else 1)
                if g[0] == "err" and g[1].startswith("other:"):
                    ctx.violation("%s:raises" % kind, "%s raised %s on %r" % (kind, g[2], show(nobjs, dirs, ref, st)), {"kind": "case", "case": to_json(nobjs, dirs, ref, st), "exact": True})
                    continue
                rows = g[2].rows if g[0] == "ok" else []
                rvals = g[2].rvals if g[0] == "ok" else []
                if any(r == INF for r in rvals):
                    rvals = []          # all +inf (no feasible member): nothing to square
                gd_l.append("K16G %s %s %s %s %s %s %s %s" % (
                    C.bool_lit(kind == "igd"), C.nat_lit(nobjs), C.nat_lit(pw), C.list_lit([sol_lit(m) for m in ref]), C.list_lit([sol_lit(m) for m in st]),
                    C.list_lit([C.list_lit([C.q_lit(x) for x in row]) for row in rows]), C.list_lit([C.q_lit(x) for x in rvals]), res_lit(g, xval_lit)))
                gd_c.append((kind, d, nobjs, dirs, ref, st))
        if exact_case(nobjs, dirs, ref, st, raw=True):
            s = run_indicator("spacing", nobjs, dirs, [], st, log=True)
            ctx.count()
            if s[0] == "err" and s[1].startswith("other:"):
                ctx.violation("spacing:raises", "Spacing raised %s on %r" % (s[2], st), {"kind": "spacing", "case": to_json(nobjs, dirs, [], st)})
            else:
                sp_l.append("K16S %s %s %s" % (C.list_lit([sol_lit(m) for m in st]), C.list_lit([C.q_lit(x) for x in (s[2].l1 if s[0] == "ok" else [])]),
                                               res_lit(s, C.q_lit)))
                sp_c.append(st)
        if b is not None and (len(feas) >= 1) and (any(dirs) or outside or len(feas) < len(st) or len({m[0] for m in st}) < len(st)):
            ctx.mark(repr(to_json(nobjs, dirs, ref, st)))
        # --- oracle ---
        check_clauses(ctx, nobjs, dirs, ref, st, rng, True, "[dyadic grid]")
    check_history(ctx, 2, [False, False], [(100, [0.0, 1.0], 0.0), (101, [0.5, 0.25], 0.0), (102, [1.0, 0.0], 0.0)],
                  [(0, [0.25, 0.75], 0.0), (1, [0.75, 0.5], 0.0)], list(ACTIONS), "[fixed history]")
    dist["direction_vectors"] = len(dist["direction_vectors"])
    dist["discarded_inexact"] = inexact
    dist["large_offset_cases(objectives around +-2^40..2^50, 1e15, 4e12 with ranges 1/2..8; spacing part skipped: raw magnitudes)"] = LARGE["n"]
    for c in cases[len(FIXED):len(FIXED) + 2] + cases[-2:]:
        ctx.sample(show(*c))
    if gd_l:
        ctx.sample({"coq_case_gd": gd_l[min(len(gd_l) - 1, 50)][:1500]})
    # arbitrary floats: oracle only
    nfl = ctx.scale(120, 2500)
    for _ in range(nfl):
        nobjs = rng.choice([1, 2, 2, 3, 3, 4, 5])
        dirs = [rng.random() < 0.5 for _ in range(nobjs)]
        check_clauses(ctx, *gen_float_case(rng, nobjs, dirs), rng, False, "[arbitrary floats, tolerance 1e-9]")
    dist["arbitrary_float_cases(oracle only, tolerance 1e-9; about a third with objectives around 1e12..3e15 and ranges 1..12)"] = nfl
    ctx.coverage["re_use_sequences(same indicator and Solution objects: repeated, another set in between, directions re-declared in place; solutions untouched)"] = HIST["reuse"]
    ctx.coverage["history_sequences_checked(other indicators between construction and calculate; values must be bitwise unchanged)"] = HIST["sequences"]
    ctx.coverage["input_distribution"] = dist
    ctx.coverage["tolerance_statement"] = ("the ONLY tolerance of the framework: the final float v of GD/IGD/spacing is accepted iff |(v*n)^2 - sum t_i| (d=2), "
                                           "|v*n - sum r_i| and |r_i^2 - t_i| (d=1), |v^2 - q| (spacing) are <= 2^-40 * max(1, |exact|), where t_i, q are the model's exact "
                                           "rationals; eps and all squared/L1 distances are compared exactly")
    ctx.rule = ("function cases on dyadic grids: 1-5 objectives x every direction vector; reference sets of 0-7 members whose feasible members span power-of-two ranges "
                "([0,1],[0,2],[-1,1],[0,4],[1,2],[-2,2],[0,.5]) plus rejected ones (empty, no feasible member, degenerate range); sets of 0-7 listed solutions inside/outside the "
                "reference bounds with infeasible members, duplicates, the same object twice, reference objects listed in the set, no feasible member; a 'large offset' family (the same sets with every objective mapped to m*o+O, O in {0, +-2^40, 2^45, 2^50, 1e15, 4e12}, m in {1,3,5,6,7} (ranges 3*2^j, 5*2^j, ... too): "
                "the unchanged (o-min)/(max-min) is exact there). A case is kept only if every float "
                "operation is exact (decided on Fractions: o-min, max-min, quotient are binary64 numbers; normalised coordinates dyadic with <= 12 fractional bits), else discarded and counted. "
                "non-trivial = accepted reference set, at least one feasible member AND (a maximised objective, a member outside the bounds, an infeasible member or a repeated object); "
                "distinct by full input. evaluations counts every call of a real indicator class")
    imports = ["Base.Num", "Model.Indicators", "Harness.H16"]
    for name, typ, fn, lits, cs in (("eps", "c16eps", "c16_eps_check", eps_l, eps_c), ("gd", "c16gd", "c16_gd_check", gd_l, gd_c),
                                    ("spacing", "c16sp", "c16_sp_check", sp_l, sp_c)):
        if not lits:
            ctx.obligation("correspondence:" + name, "correspondence", False, "no case could be evaluated on the implementation")
            continue
        bad = C.run_coq_cases(ctx, name, imports, typ, fn, lits, shard=ctx.scale(250, 400))
        if bad is not None:
            ctx.obligation("correspondence:%s (%d cases)" % (name, len(lits)), "correspondence", not bad,
                           "model and implementation differ on cases %r; first: %s" % (bad[:10], lits[bad[0]][:1500] if bad else ""))
            ctx.coverage["correspondence_cases_" + name] = len(lits)
            ctx.coverage["correspondence_mismatches_" + name] = len(bad)
            for i in bad[:4]:
                ctx.sample({"model_impl_disagree_" + name: repr(cs[i])[:1200]}, limit=14)


def replay(ctx, data):
    import random
    rp = data.get("replay", {})
    if rp.get("kind") == "case":
        nobjs, dirs, ref, st = from_json(rp["case"])
        ctx.sample(show(nobjs, dirs, ref, st))
        for seed in range(6):
            check_clauses(ctx, nobjs, dirs, ref, st, random.Random(seed), bool(rp.get("exact")), "[replay]")
        if rp.get("worse"):
            w = [(m[0], [float.fromhex(x) for x in m[1]], float.fromhex(m[2])) for m in rp["worse"]]
            e1 = run_indicator("eps", nobjs, dirs, ref, st)
            e2 = run_indicator("eps", nobjs, dirs, ref, w)
            ctx.count(2)
            if e1[0] == "ok" and e2[0] == "ok" and e2[1] < e1[1] - (0 if rp.get("exact") else 1e-9):
                ctx.violation(data.get("key", "eps:decreases-when-members-get-worse"), "[replay] eps %r -> %r" % (e1[1], e2[1]), rp)
    elif rp.get("kind") == "reuse":
        nobjs, dirs, ref, st = from_json(rp["case"])
        ctx.sample(show(nobjs, dirs, ref, st))
        for seed in range(8):
            check_reuse(ctx, nobjs, dirs, ref, st, random.Random(seed), "[replay]")
    elif rp.get("kind") == "history":
        nobjs, dirs, ref, st = from_json(rp["case"])
        ctx.sample(show(nobjs, dirs, ref, st, actions=rp["actions"]))
        check_history(ctx, nobjs, dirs, ref, st, rp["actions"], "[replay]")
        for perm in itertools.permutations([a for a in ACTIONS if (nobjs >= 2 or not a.startswith("hv"))]):
            check_history(ctx, nobjs, dirs, ref, st, list(perm), "[replay, all orders]")
    elif rp.get("kind") == "spacing":
        nobjs, dirs, ref, st = from_json(rp["case"])
        for seed in range(4):
            check_spacing(ctx, nobjs, dirs, st, random.Random(seed), "[replay]")
    else:
        run(ctx)
