"""C10 — maximising an objective is equivalent to minimising its negation."""
import itertools
import math
from fractions import Fraction

from vlib import common as C
from vlib import plat
from props import c15, c16

ID = "C10"
PROPS_FILE = "Props/C10.v"
COQ_TARGETS = ["Harness/H10.vo"]
ALLOWED_AXIOMS = []
# coq/Tie/T10.v states the law directly about the comparison code generated from the source text
# (composition of Tie/T02.v, Tie/T05.v with Props/C10.v)
EXTRA_PROPS = ["Tie/T10.v"]


def prebuild(ctx):
    import os
    import sys
    sys.path.insert(0, os.path.join(C.VERIF, "harness", "translate"))
    import py2coq_core
    py2coq_core.prebuild(ctx, C, ["ParetoDominance.compare", "EpsilonDominance.same_box", "EpsilonDominance.compare"])


META = {
    "level_text": "Machine-checked proof (Coq) that negating the objectives in any index set J and flipping their declared directions (bounds: min' = -max, max' = -min; "
                  "reference sets flipped likewise) leaves unchanged: ParetoDominance.compare (any carrier whose negation is an involution: the direction-adjusted values are "
                  "identical; instantiated for all non-NaN floats incl. +-inf), EpsilonDominance.compare and same_box, the contents of Archive, Archive(EpsilonDominance) and "
                  "EpsilonBoxArchive incl. its improvements counter after EVERY insertion history, the non-dominated rank of every object, the normalised objectives up to "
                  "x -> 1-x on J (normalize_flip; the bounds of a flipped reference set are the flipped bounds), the additive epsilon indicator, the exact ingredients of GD / IGD "
                  "(every squared nearest distance and the divisor) and the hypervolume (explicit bounds and reference set; via hv_exact of C15). Theorems are about the literal "
                  "models of C02-C05, C15, C16; Examples show that the pre-repair hypervolume and epsilon-indicator models violate the law. For the three comparison routines the law is also stated about the definitions GENERATED from the source text on every run (Tie/T10.v). Tie: every metamorphic case is run in "
                  "original and flipped form on the REAL classes and on the models (vm_compute), all subsets J for <= 3 objectives, random beyond.",
    "level_note": "Trusted: Coq kernel + VM; the harness; the models are those of C02 (dominance), C05 (epsilon dominance / archives), C03 (Archive), C04 (nd_loop), C15, C16 and are tied "
                  "to the code by those checks and again here on both forms of every case. Indicator theorems are over exact Q (results ==); they assume well-formed sets and that the "
                  "constructor accepts the reference set in both forms (proved satisfiable). GD / IGD: sqrt/pow not modelled -- the theorem is about the exact ingredients, the float "
                  "values are tied with the 2^-40 relation of C16 (d = 2) and compared original-vs-flipped exactly on dyadic grids (negation is exact in floats, and on these grids "
                  "(o-min)/(max-min) and (-o+max)/(max-min) are both exact, so all later float operations coincide) and with 1e-9 on arbitrary floats (off the grid the two "
                  "normalisations are NOT bitwise identical). Ranks: theorem about the peeling loop with the Pareto comparator (crowding distances are not part of C10). "
                  "HypervolumeFitnessEvaluator (IBEA) is NOT modelled: covered by the metamorphic oracle on the real code only (1e-9). NaN objectives are outside the property. "
                  "No axioms (all theorems closed under the global context).",
    "technique": "Coq proofs of invariance/equivariance of the literal models under the flip + metamorphic differential execution of real code and models on both forms (vm_compute) + metamorphic oracle",
}

INF = math.inf
ERRMAP = c15.ERRMAP


# ----------------------------------------------------------------------------
# the transformation
# ----------------------------------------------------------------------------
def flip_dirs(J, dirs):
    return [(not d) if j else d for j, d in zip(J, dirs)]


def flip_objs(J, o):
    return [-x if j else x for j, x in zip(J, o)]


def flip_members(J, ms):
    return [(m[0], flip_objs(J, m[1]), m[2]) for m in ms]


def flip_bounds(J, lo, hi):
    return ([-h if j else l for j, l, h in zip(J, lo, hi)], [-l if j else h for j, l, h in zip(J, lo, hi)])


def subsets(n, rng, limit):
    allj = [list(j) for j in itertools.product([False, True], repeat=n)]
    if len(allj) <= limit:
        return allj
    return [allj[0], allj[-1]] + rng.sample(allj[1:-1], limit - 2)


# ----------------------------------------------------------------------------
# discrete components on the real code
# ----------------------------------------------------------------------------
def snapshot(objs, pd, ed, eps, order, pairs):
    """everything observable about the discrete components for the CURRENT state of the objects / their problem.
    pd, ed: the ParetoDominance / EpsilonDominance instances to use for the pair comparisons; Archive(), nondominated()
    and nondominated_sort go through the library's own default-argument comparator instances"""
    from platypus import Archive, EpsilonBoxArchive, nondominated_sort, nondominated
    ident = {id(s): i for i, s in enumerate(objs)}
    out = {"pareto": [], "eps": [], "box": []}
    for i, j in pairs:
        out["pareto"].append(pd.compare(objs[i], objs[j]))
        try:
            out["eps"].append(ed.compare(objs[i], objs[j]))
        except (IndexError, ZeroDivisionError, OverflowError, ValueError):
            out["eps"].append(None)
        try:
            out["box"].append(bool(ed.same_box(objs[i], objs[j])))
        except (IndexError, ZeroDivisionError, OverflowError, ValueError):
            out["box"].append(None)
    pop = [objs[i] for i in order]
    a = Archive()
    a += pop
    out["arch"] = [ident[id(s)] for s in a]
    out["nd"] = [ident[id(s)] for s in nondominated(pop)]
    try:
        eb = EpsilonBoxArchive(list(eps))
        for s in pop:
            eb.add(s)
        out["ebox"] = ([ident[id(s)] for s in eb], eb.improvements)
    except (IndexError, ZeroDivisionError, OverflowError, ValueError):
        out["ebox"] = None
    try:
        nondominated_sort(pop)
        out["ranks"] = [s.rank for s in pop]
    except Exception as e:  # noqa
        out["ranks"] = "raised " + type(e).__name__
    return out


def run_discrete(con, dirs, eps, pool, order, pairs):
    """fresh Problem, fresh Solution objects, fresh comparator instances"""
    from platypus import ParetoDominance, EpsilonDominance
    p = plat.mk_problem(len(dirs), dirs, nconstrs=1 if con else 0)
    objs = [plat.mk_solution(p, o, cv) for o, cv in pool]
    return snapshot(objs, ParetoDominance(), EpsilonDominance(list(eps)), eps, order, pairs)


def flip_in_place(p, sols, J):
    """negate the objectives in J on the SAME Solution objects and flip problem.directions in place on the SAME Problem"""
    from platypus import Direction
    for s in sols:
        for k, j in enumerate(J):
            if j:
                s.objectives[k] = -s.objectives[k]
    for k, j in enumerate(J):
        if j:
            p.directions[k] = Direction.MINIMIZE if p.directions[k] == Direction.MAXIMIZE else Direction.MAXIMIZE


def run_discrete_in_place(con, dirs, J, eps, pool, order, pairs):
    """original, flipped IN PLACE (same Problem, same Solution objects, the SAME comparator instances, no other problem
    seen in between), and flipped back"""
    from platypus import ParetoDominance, EpsilonDominance
    p = plat.mk_problem(len(dirs), dirs, nconstrs=1 if con else 0)
    objs = [plat.mk_solution(p, o, cv) for o, cv in pool]
    pd, ed = ParetoDominance(), EpsilonDominance(list(eps))
    a = snapshot(objs, pd, ed, eps, order, pairs)
    flip_in_place(p, objs, J)
    b = snapshot(objs, pd, ed, eps, order, pairs)
    flip_in_place(p, objs, J)
    c = snapshot(objs, pd, ed, eps, order, pairs)
    return a, b, c


def disc_case_json(con, dirs, J, eps, pool, order, pairs):
    return {"con": con, "dirs": dirs, "J": J, "eps": [float(e).hex() for e in eps], "pool": [[[float(x).hex() for x in o], float(cv).hex()] for o, cv in pool],
            "order": order, "pairs": [list(p) for p in pairs]}


DISC_KEYS = (("pareto", "pareto:compare-changes-under-negation"), ("eps", "epsilon-dominance:compare-changes-under-negation"),
             ("box", "epsilon-dominance:same_box-changes-under-negation"))


def compare_snapshots(ctx, a, b, tag, desc, pairs, rp):
    for key, name in DISC_KEYS:
        for k, (x, y) in enumerate(zip(a[key], b[key])):
            if x != y:
                ctx.violation(name, "%s %s of objects %r: %r, after negating objectives J and flipping their directions: %r; %s" % (tag, key, pairs[k], x, y, desc), rp)
                break
    if a["arch"] != b["arch"]:
        ctx.violation("archive:membership-changes-under-negation", "%s Archive members %r vs %r; %s" % (tag, a["arch"], b["arch"], desc), rp)
    if a["nd"] != b["nd"]:
        ctx.violation("archive:membership-changes-under-negation", "%s nondominated() %r vs %r; %s" % (tag, a["nd"], b["nd"], desc), rp)
    if a["ebox"] != b["ebox"]:
        ctx.violation("epsilon-box-archive:changes-under-negation", "%s EpsilonBoxArchive (members, improvements) %r vs %r; %s" % (tag, a["ebox"], b["ebox"], desc), rp)
    if a["ranks"] != b["ranks"]:
        ctx.violation("rank:changes-under-negation", "%s nondominated_sort ranks %r vs %r; %s" % (tag, a["ranks"], b["ranks"], desc), rp)


def check_discrete(ctx, con, dirs, J, eps, pool, order, pairs, tag):
    """metamorphic oracle, two forms: (1) a fresh Problem / fresh objects for the flipped formulation; (2) IN PLACE: the same
    Solution objects negated, problem.directions flipped on the same Problem object, the same comparator instances (and the
    library's default-argument instances) re-used, then flipped back.  Returns (orig, flipped) of form (1)."""
    rp = {"kind": "discrete", "case": disc_case_json(con, dirs, J, eps, pool, order, pairs)}
    desc = "dirs(maximize)=%r J=%r eps=%r constrained=%r pool=%r order=%r" % (dirs, J, eps, con, pool, order)
    # in place first: the library's shared comparator instances have then last seen THIS problem
    a1, b1, c1 = run_discrete_in_place(con, dirs, J, eps, pool, order, pairs)
    compare_snapshots(ctx, a1, b1, tag + "[in place: same Problem/Solution objects, same comparator instances]", desc, pairs, rp)
    compare_snapshots(ctx, a1, c1, tag + "[in place, flipped back]", desc, pairs, rp)
    a = run_discrete(con, dirs, eps, pool, order, pairs)
    b = run_discrete(con, flip_dirs(J, dirs), eps, [(flip_objs(J, o), cv) for o, cv in pool], order, pairs)
    ctx.count(5)
    compare_snapshots(ctx, a, b, tag + "[fresh problem]", desc, pairs, rp)
    if a != a1:
        ctx.violation("discrete:result-depends-on-comparator-history", "%s the same input gives %r on fresh objects but %r on another set of fresh objects; %s" % (tag, a, a1, desc), rp)
    return a, b


def oq(x):
    return "None" if x is None else "(Some %s)" % C.z_lit(x)


def ob(x):
    return "None" if x is None else "(Some %s)" % C.bool_lit(x)


def nl(l):
    return C.list_lit([C.nat_lit(i) for i in l])


def disc_lit(con, dirs, J, eps, pool, order, pairs, a, b):
    pl = C.list_lit(["(%s, %s)" % (C.list_lit([C.q_lit(x) for x in o]), C.q_lit(cv)) for o, cv in pool])
    prs = C.list_lit(["(%s, %s, (%s, %s), (%s, %s), (%s, %s))" % (C.nat_lit(i), C.nat_lit(j), C.z_lit(a["pareto"][k]), C.z_lit(b["pareto"][k]),
                                                                   oq(a["eps"][k]), oq(b["eps"][k]), ob(a["box"][k]), ob(b["box"][k]))
                      for k, (i, j) in enumerate(pairs)])
    return "K10D %s %s %s %s %s %s %s (%s, %s) ((%s, %s), (%s, %s)) (%s, %s)" % (
        C.bool_lit(con), C.list_lit([C.bool_lit(d) for d in dirs]), C.list_lit([C.bool_lit(j) for j in J]), C.list_lit([C.q_lit(e) for e in eps]),
        pl, prs, nl(order), nl(a["arch"]), nl(b["arch"]), nl(a["ebox"][0]), C.nat_lit(a["ebox"][1]), nl(b["ebox"][0]), C.nat_lit(b["ebox"][1]),
        nl(a["ranks"]), nl(b["ranks"]))


# ----------------------------------------------------------------------------
# indicators on the real code
# ----------------------------------------------------------------------------
def run_ind(nobjs, dirs, ref, st, lo, hi):
    """eps, hv(reference set), hv(explicit bounds), gd(d=2), igd(d=2), gd, igd, IBEA fitness"""
    from platypus import EpsilonIndicator, GenerationalDistance, InvertedGenerationalDistance, Hypervolume
    from platypus.core import HypervolumeFitnessEvaluator

    def guard(f):
        try:
            with c15.time_limit(10.0):
                return ("ok", f())
        except c15.CallTimeout:
            return ("timeout",)
        except Exception as e:  # noqa
            return ("err", ERRMAP.get(type(e).__name__, "other:" + type(e).__name__), "%s: %s" % (type(e).__name__, e))
    out = {}
    for name, mk in (("eps", lambda r, s: EpsilonIndicator(r).calculate(s)),
                     ("hvr", lambda r, s: Hypervolume(reference_set=r).calculate(s)),
                     ("hvb", lambda r, s: Hypervolume(minimum=list(lo), maximum=list(hi)).calculate(s)),
                     ("gd2", lambda r, s: GenerationalDistance(r, d=2.0).calculate(s)),
                     ("igd2", lambda r, s: InvertedGenerationalDistance(r, d=2.0).calculate(s)),
                     ("gd", lambda r, s: GenerationalDistance(r).calculate(s)),
                     ("igd", lambda r, s: InvertedGenerationalDistance(r).calculate(s))):
        if name in ("hvr", "hvb") and nobjs < 2:
            out[name] = ("skip",)
            continue
        p, robjs, sobjs = c16.build(nobjs, dirs, ref, st)
        out[name] = guard(lambda: mk(robjs, sobjs))

    def fitness():
        p, robjs, sobjs = c16.build(nobjs, dirs, ref, st)
        fs = []
        seen = set()
        for s in sobjs:
            if s.constraint_violation == 0.0 and id(s) not in seen:
                seen.add(id(s))
                fs.append(s)
        HypervolumeFitnessEvaluator().evaluate(fs)
        return [s.fitness for s in fs]
    out["ibea"] = guard(fitness)
    return out


def run_ind_objs(p, robjs, sobjs, nobjs, lo, hi, ev):
    """all indicators on the GIVEN objects (shared between the indicators); ev: a HypervolumeFitnessEvaluator instance to re-use"""
    from platypus import EpsilonIndicator, GenerationalDistance, InvertedGenerationalDistance, Hypervolume

    def guard(f):
        try:
            with c15.time_limit(10.0):
                return ("ok", f())
        except c15.CallTimeout:
            return ("timeout",)
        except Exception as e:  # noqa
            return ("err", ERRMAP.get(type(e).__name__, "other:" + type(e).__name__), "%s: %s" % (type(e).__name__, e))
    out = {}
    out["eps"] = guard(lambda: EpsilonIndicator(robjs).calculate(sobjs))
    if nobjs >= 2:
        out["hvr"] = guard(lambda: Hypervolume(reference_set=robjs).calculate(sobjs))
        out["hvb"] = guard(lambda: Hypervolume(minimum=list(lo), maximum=list(hi)).calculate(sobjs))
    out["gd2"] = guard(lambda: GenerationalDistance(robjs, d=2.0).calculate(sobjs))
    out["igd2"] = guard(lambda: InvertedGenerationalDistance(robjs, d=2.0).calculate(sobjs))
    out["gd"] = guard(lambda: GenerationalDistance(robjs).calculate(sobjs))
    out["igd"] = guard(lambda: InvertedGenerationalDistance(robjs).calculate(sobjs))

    def fitness():
        fs, seen = [], set()
        for s in sobjs:
            if s.constraint_violation == 0.0 and id(s) not in seen:
                seen.add(id(s))
                fs.append(s)
        ev.evaluate(fs)
        return [s.fitness for s in fs]
    out["ibea"] = guard(fitness)
    return out


def run_ind_in_place(nobjs, dirs, J, ref, st, lo, hi):
    """original, then the SAME Solution objects negated and the SAME Problem's directions flipped in place (indicator objects
    must be rebuilt because their bounds are fixed at construction; the fitness evaluator instance is re-used)"""
    from platypus.core import HypervolumeFitnessEvaluator
    p, robjs, sobjs = c16.build(nobjs, dirs, ref, st)
    ev = HypervolumeFitnessEvaluator()
    a = run_ind_objs(p, robjs, sobjs, nobjs, lo, hi, ev)
    uniq = list({id(s): s for s in robjs + sobjs}.values())
    flip_in_place(p, uniq, J)
    lo2, hi2 = flip_bounds(J, lo, hi)
    b = run_ind_objs(p, robjs, sobjs, nobjs, lo2, hi2, ev)
    return a, b


def same_result(x, y, exact, tol=1e-9):
    if x[0] != y[0]:
        return False
    if x[0] == "err":
        return x[1] == y[1]
    if x[0] != "ok":
        return True
    a, b = x[1], y[1]
    if isinstance(a, list):
        return len(a) == len(b) and all(c16.rel_close(p, q, tol) for p, q in zip(a, b))
    if exact:
        return a == b
    return c16.rel_close(a, b, tol)


KEYS = {"eps": "epsilon-indicator:changes-under-negation", "hvr": "hypervolume:changes-under-negation", "hvb": "hypervolume:changes-under-negation",
        "gd2": "gd:changes-under-negation", "igd2": "igd:changes-under-negation", "gd": "gd:changes-under-negation", "igd": "igd:changes-under-negation",
        "ibea": "hypervolume-fitness:changes-under-negation"}


def ind_case_json(nobjs, dirs, J, ref, st, lo, hi):
    j = c16.to_json(nobjs, dirs, ref, st)
    j.update({"J": J, "lo": [float(x).hex() for x in lo], "hi": [float(x).hex() for x in hi]})
    return j


def compare_ind(ctx, a, b, exact, tag, J, rp, what):
    for name in a:
        if name == "ibea" and a[name][0] == "err" and b[name][0] == "err":
            continue
        if not same_result(a[name], b[name], exact and name != "ibea"):
            ctx.violation(KEYS[name], "%s %s = %r, after negating objectives J=%r and flipping their directions: %r; %s" % (tag, name, a[name][1:], J, b[name][1:], what), rp)


def check_ind(ctx, nobjs, dirs, J, ref, st, lo, hi, exact, tag):
    a = run_ind(nobjs, dirs, ref, st, lo, hi)
    lo2, hi2 = flip_bounds(J, lo, hi)
    b = run_ind(nobjs, flip_dirs(J, dirs), flip_members(J, ref), flip_members(J, st), lo2, hi2)
    rp = {"kind": "indicator", "case": ind_case_json(nobjs, dirs, J, ref, st, lo, hi), "exact": exact}
    what = "%r bounds=%r" % (c16.show(nobjs, dirs, ref, st), (lo, hi))
    compare_ind(ctx, a, b, exact, tag + "[fresh objects]", J, rp, what)
    a1, b1 = run_ind_in_place(nobjs, dirs, J, ref, st, lo, hi)
    ctx.count(2 * len(a) + 2 * len(a1))
    compare_ind(ctx, a1, b1, exact, tag + "[in place: same Problem and Solution objects]", J, rp, what)
    return a, b


def resx(r):
    return "(Ok %s)" % c16.xval_lit(r[1]) if r[0] == "ok" else "(Err %s)" % r[1]


def resq(r):
    return "(Ok %s)" % C.q_lit(r[1]) if r[0] == "ok" else ("(Err %s)" % r[1] if r[0] == "err" else "(Err EFuel)")


def ind_lit(nobjs, dirs, J, ref, st, lo, hi, a, b):
    hv = nobjs >= 2
    return "K10I %s %s %s %s %s (%s, %s) %s (%s, %s) (%s, %s) (%s, %s) (%s, %s) (%s, %s)" % (
        C.nat_lit(nobjs), C.list_lit([C.bool_lit(d) for d in dirs]), C.list_lit([C.bool_lit(j) for j in J]),
        C.list_lit([c16.sol_lit(m) for m in ref]), C.list_lit([c16.sol_lit(m) for m in st]),
        C.list_lit([C.q_lit(x) for x in lo]), C.list_lit([C.q_lit(x) for x in hi]), C.bool_lit(hv),
        resx(a["eps"]), resx(b["eps"]),
        resq(a["hvr"]) if hv else "(Ok 0%Q)", resq(b["hvr"]) if hv else "(Ok 0%Q)", resq(a["hvb"]) if hv else "(Ok 0%Q)", resq(b["hvb"]) if hv else "(Ok 0%Q)",
        resx(a["gd2"]), resx(b["gd2"]), resx(a["igd2"]), resx(b["igd2"]))


def hv_exact_ok(nobjs, dirs, ref, st, lo, hi):
    """exactness of the two hypervolume computations (C15's criterion, decided on Fractions)"""
    for bounds in (("mm", list(lo), list(hi)), ("ref", ref)):
        case = {"nobjs": nobjs, "dirs": dirs, "bounds": bounds, "set": st}
        ob_ = c15.oracle_bounds(case)
        if ob_ is not None and not c15.exactness(case, ob_):
            return False
    return True


# ----------------------------------------------------------------------------
# generators
# ----------------------------------------------------------------------------
WIDE = [-INF, -1e300, -2.0, -1.0, -0.5, -0.0, 0.0, 5e-324, 0.1, 0.30000000000000004, 0.5, 1.0, 2.0, 1e300, INF]


def gen_disc(rng, nobjs, wide=False):
    dirs = [rng.random() < 0.5 for _ in range(nobjs)]
    con = rng.random() < 0.3
    m = rng.randrange(2, 8)
    if wide:
        vals = [rng.sample(WIDE, rng.randrange(2, 6)) for _ in range(nobjs)]
        eps = [rng.choice([0.1, 0.3, 1.0, 2.5]) for _ in range(rng.randrange(1, nobjs + 1))]
    else:
        vals = [[rng.randrange(-16, 17) / 8.0 for _ in range(rng.randrange(2, 5))] for _ in range(nobjs)]
        eps = [rng.choice([0.25, 0.5, 1.0, 2.0]) for _ in range(rng.randrange(1, nobjs + 1))]
    pool = []
    for _ in range(m):
        if pool and rng.random() < 0.2:
            o = list(rng.choice(pool)[0])
            for k in range(nobjs):
                if rng.random() < 0.4:
                    o[k] = rng.choice(vals[k])
        else:
            o = [rng.choice(vals[k]) for k in range(nobjs)]
        pool.append((o, (0.0 if rng.random() < 0.6 else rng.choice([0.5, 1.0])) if con else 0.0))
    order = list(range(m))
    rng.shuffle(order)
    if rng.random() < 0.2:
        order.insert(rng.randrange(len(order) + 1), rng.choice(order))
    pairs = [(i, j) for i in range(m) for j in range(m)]
    if len(pairs) > 20:
        pairs = rng.sample(pairs, 20)
    return con, dirs, eps, pool, order, pairs


FIXED_IND = [
    # DESIGN.md section 7 #3 and #5 in both orientations
    (2, [True, True], [(100, [0.0, 1.0], 0.0), (101, [1.0, 0.0], 0.0)], [(0, [2.0, 0.5], 0.0)]),
    (2, [True, True], [(100, [0.0, 1.0], 0.0), (101, [1.0, 0.0], 0.0)], [(0, [0.5, 0.0], 0.0), (1, [0.0, 0.5], 0.0)]),
    (2, [False, False], [(100, [0.0, 1.0], 0.0), (101, [1.0, 0.0], 0.0)], [(0, [-0.5, 0.5], 0.0), (1, [0.25, 0.25], 0.0)]),
    (3, [False, True, False], [(100, [0.0, 1.0, 0.0], 0.0), (101, [1.0, 0.0, 2.0], 0.0)], [(0, [0.25, 1.5, 0.5], 0.0), (1, [0.5, 0.25, 2.5], 0.0), (0, [0.25, 1.5, 0.5], 0.0)]),
]


def run(ctx):
    rng = ctx.rng
    c15.State.timeouts = 0
    dist = {"discrete_cases": 0, "indicator_cases": 0, "n_objs": {}, "flipped_objectives": {}, "direction_vectors": set(), "discarded_inexact": 0,
            "discrete_wide_float_cases(oracle only)": 0, "indicator_float_cases(oracle only, 1e-9)": 0}
    dl, il, dcs, ics = [], [], [], []
    # ---- discrete, dyadic (tie + oracle)
    nd = ctx.scale(150, 800)
    for t in range(nd):
        nobjs = rng.choice([1, 2, 2, 3, 3, 4, 5])
        con, dirs, eps, pool, order, pairs = gen_disc(rng, nobjs)
        for J in subsets(nobjs, rng, 8 if nobjs <= 3 else 5):
            a, b = check_discrete(ctx, con, dirs, J, eps, pool, order, pairs, "[dyadic]")
            dist["discrete_cases"] += 1
            dist["n_objs"][nobjs] = dist["n_objs"].get(nobjs, 0) + 1
            dist["flipped_objectives"][sum(J)] = dist["flipped_objectives"].get(sum(J), 0) + 1
            dist["direction_vectors"].add(tuple(dirs))
            if any(J) and any(x != 0 for x in a["pareto"]):
                ctx.mark("D" + repr((con, dirs, J, eps, pool, order)))
            if a["ebox"] is not None and b["ebox"] is not None and isinstance(a["ranks"], list) and isinstance(b["ranks"], list):
                dl.append(disc_lit(con, dirs, J, eps, pool, order, pairs, a, b))
                dcs.append((con, dirs, J, eps, pool, order))
    ctx.sample({"discrete": {"constrained": dcs[-1][0], "maximize": dcs[-1][1], "J": dcs[-1][2], "epsilons": dcs[-1][3], "pool(objectives,violation)": dcs[-1][4], "order": dcs[-1][5]}})
    # ---- discrete, wide floats incl. +-inf (oracle only)
    for t in range(ctx.scale(150, 2500)):
        nobjs = rng.choice([1, 2, 3, 4])
        con, dirs, eps, pool, order, pairs = gen_disc(rng, nobjs, wide=True)
        J = [rng.random() < 0.5 for _ in range(nobjs)]
        check_discrete(ctx, con, dirs, J, eps, pool, order, pairs, "[wide floats]")
        dist["discrete_wide_float_cases(oracle only)"] += 1
    # ---- indicators, dyadic (tie + oracle)
    cases = [(n, list(d), list(r), list(s)) for n, d, r, s in FIXED_IND]
    for t in range(ctx.scale(110, 600)):
        nobjs = rng.choice([1, 2, 2, 3, 3, 4, 5])
        cases.append(c16.gen_grid_case(rng, nobjs, [rng.random() < 0.5 for _ in range(nobjs)]))
        if rng.random() < 0.3:
            sc = c16.shift_case(cases[-1], rng)                 # "large offset" family: objectives around +-2^40 .. 1e15, same small ranges
            if sc is not None:
                cases.append(sc)
                dist["indicator_large_offset_cases"] = dist.get("indicator_large_offset_cases", 0) + 1
    for (nobjs, dirs, ref, st) in cases:
        b = c16.ref_bounds(nobjs, ref)
        lo, hi = ([float(x) for x in b[0]], [float(x) for x in b[1]]) if b is not None else ([0.0] * nobjs, [1.0] * nobjs)
        if rng.random() < 0.3:
            lo, hi = [x - 1.0 for x in lo], [x + 1.0 for x in hi]          # explicit bounds wider than the reference set (ranges stay powers of two only sometimes)
        if not c16.exact_case(nobjs, dirs, ref, st) or (nobjs >= 2 and not hv_exact_ok(nobjs, dirs, ref, st, lo, hi)):
            dist["discarded_inexact"] += 1
            continue
        for J in subsets(nobjs, rng, 8 if nobjs <= 3 else 4):
            a, bb = check_ind(ctx, nobjs, dirs, J, ref, st, lo, hi, True, "[dyadic grid]")
            dist["indicator_cases"] += 1
            dist["n_objs"][nobjs] = dist["n_objs"].get(nobjs, 0) + 1
            dist["flipped_objectives"][sum(J)] = dist["flipped_objectives"].get(sum(J), 0) + 1
            dist["direction_vectors"].add(tuple(dirs))
            if any(J) and b is not None and any(m[2] == 0.0 for m in st):
                ctx.mark("I" + repr((nobjs, dirs, J, ref, st)))
            names = ["eps", "gd2", "igd2"] + (["hvr", "hvb"] if nobjs >= 2 else [])
            if all(x[n][0] in ("ok", "err") and not (x[n][0] == "err" and x[n][1].startswith("other:")) for x in (a, bb) for n in names):
                il.append(ind_lit(nobjs, dirs, J, ref, st, lo, hi, a, bb))
                ics.append((nobjs, dirs, J, ref, st))
    if ics:
        ctx.sample(dict(c16.show(*[ics[-1][k] for k in (0, 1, 3, 4)]), J=ics[-1][2]))
        ctx.sample({"coq_case_indicator": il[len(il) // 2][:1500]})
    # ---- indicators, arbitrary floats (oracle only, tolerance)
    for t in range(ctx.scale(120, 2000)):
        nobjs = rng.choice([1, 2, 2, 3, 3, 4, 5])
        dirs = [rng.random() < 0.5 for _ in range(nobjs)]
        _, _, ref, st = c16.gen_float_case(rng, nobjs, dirs)
        b = c16.ref_bounds(nobjs, ref)
        if b is None:
            continue
        lo, hi = [float(x) - 0.25 for x in b[0]], [float(x) + 0.5 for x in b[1]]
        J = [rng.random() < 0.5 for _ in range(nobjs)]
        check_ind(ctx, nobjs, dirs, J, ref, st, lo, hi, False, "[arbitrary floats, tolerance 1e-9]")
        dist["indicator_float_cases(oracle only, 1e-9)"] += 1
    dist["direction_vectors"] = len(dist["direction_vectors"])
    ctx.coverage["input_distribution"] = dist
    ctx.rule = ("metamorphic cases: each input is run in original form and with the objectives in J negated and their directions flipped (bounds min'=-max, max'=-min, reference set flipped). "
                "discrete: pools of 2-7 solutions over k/8 grids with ties, 1-5 objectives, with/without constraint violations, epsilons in {1/4,1/2,1,2}: all sampled ordered pairs through "
                "ParetoDominance / EpsilonDominance.compare / same_box, the population through Archive, EpsilonBoxArchive (members + improvements) and nondominated_sort (ranks); plus wide "
                "floats incl. +-inf, 1e300, 5e-324 (oracle only). indicators: C16's dyadic reference/approximation sets (inside/outside the bounds, infeasible members, repeated and shared "
                "objects) through EpsilonIndicator, Hypervolume(reference_set), Hypervolume(minimum, maximum), GD, IGD and HypervolumeFitnessEvaluator; kept only if every float operation "
                "is exact (C15/C16 criteria), else discarded and counted; plus arbitrary floats (oracle only, 1e-9). All subsets J for <= 3 objectives, up to 5 random ones beyond. "
                "non-trivial = J non-empty AND (discrete: some pair is comparable; indicators: accepted reference set and a feasible member); distinct by full input. "
                "Every case is ALSO run IN PLACE: the same Solution objects negated, problem.directions flipped on the same Problem object, the same ParetoDominance / EpsilonDominance / "
                "fitness-evaluator instances and the library's default-argument comparator instances re-used with no other problem in between, then flipped back. "
                "evaluations counts runs of the real code (one per form and component)")
    imports = ["Base.Num", "Model.Dominance", "Model.Archive", "Model.Epsilon", "Model.Indicators", "Model.Hypervolume", "Model.Negation", "Harness.H16", "Harness.H10"]
    for name, typ, fn, lits, cs in (("discrete", "c10disc", "c10_disc_check", dl, dcs), ("indicators", "c10ind", "c10_ind_check", il, ics)):
        if not lits:
            ctx.obligation("correspondence:" + name, "correspondence", False, "no case could be evaluated on the implementation")
            continue
        bad = C.run_coq_cases(ctx, name, imports, typ, fn, lits, shard=ctx.scale(60, 120))
        if bad is not None:
            ctx.obligation("correspondence:%s, original and flipped form (%d cases)" % (name, len(lits)), "correspondence", not bad,
                           "model and implementation differ on cases %r; first: %s" % (bad[:10], lits[bad[0]][:1500] if bad else ""))
            ctx.coverage["correspondence_cases_" + name] = len(lits)
            ctx.coverage["correspondence_mismatches_" + name] = len(bad)
            for i in bad[:3]:
                ctx.sample({"model_impl_disagree_" + name: repr(cs[i])[:1000]}, limit=12)


def replay(ctx, data):
    rp = data.get("replay", {})
    if rp.get("kind") == "discrete":
        j = rp["case"]
        pool = [([float.fromhex(x) for x in o], float.fromhex(cv)) for o, cv in j["pool"]]
        check_discrete(ctx, j["con"], j["dirs"], j["J"], [float.fromhex(e) for e in j["eps"]], pool, j["order"], [tuple(p) for p in j["pairs"]], "[replay]")
    elif rp.get("kind") == "indicator":
        j = rp["case"]
        nobjs, dirs, ref, st = c16.from_json(j)
        check_ind(ctx, nobjs, dirs, j["J"], ref, st, [float.fromhex(x) for x in j["lo"]], [float.fromhex(x) for x in j["hi"]], bool(rp.get("exact")), "[replay]")
    else:
        run(ctx)
